"""
E2 -- a structured (AST-directed) forward abstract interpreter.

One abstract value type `AV` with independent facets; anything not understood
is TOP in every facet.  Rules observe the interpreter through observer
callbacks (on_call / on_store / on_return / on_use) and only ever fire on a
*definite* contradiction of two non-TOP facts.

Facets
  num    numeric kind: 'bool' 'int' 'ifloat' (integral-valued float) 'float'
         'str' 'none' 'obj' or None (unknown)
  exact  True if the value is computed exactly from integers, False if it went
         through true division / float arithmetic, None unknown
  cval   python constant when the expression constant-folds
  elts   tuple of AV for tuple/list displays (positional structure)
  elem   AV of the elements of a homogeneous container / iterable
  cls    repo or library class of an object ('Region', 'lmfit.Parameters', ..)
  unit   frozenset of admissible angle/length unit labels or None
  kind   frozenset of nominal tags or None
  idx    pixel-index facet (see units.py) or None
  src    provenance strings (for messages)
"""
from __future__ import annotations

import ast
from dataclasses import dataclass, field, replace

from .core import PKG, FuncInfo, Program, norm

NUM_INTLIKE = ("int", "bool")


@dataclass(frozen=True)
class AV:
    num: str | None = None
    exact: bool | None = None
    cval: object = None
    elts: tuple | None = None
    elem: "AV | None" = None
    cls: str | None = None
    unit: frozenset | None = None
    kind: frozenset | None = None
    idx: object = None
    scale: object = None          # pending literal scale (units.py)
    src: frozenset = frozenset()

    def with_(self, **kw):
        return replace(self, **kw)

    @property
    def is_top(self):
        return (self.num is None and self.cval is None and self.elts is None
                and self.elem is None and self.cls is None
                and self.unit is None and self.kind is None
                and self.idx is None)

    def short(self):
        bits = []
        if self.num:
            bits.append(self.num + ("" if self.exact is None else
                                    ("/exact" if self.exact else "/inexact")))
        if self.cval is not None and not isinstance(self.cval, (tuple, list)):
            bits.append("=%r" % (self.cval,))
        if self.unit is not None:
            bits.append("unit{%s}" % ",".join(sorted(self.unit)))
        if self.kind is not None:
            bits.append("kind{%s}" % ",".join(sorted(self.kind)))
        if self.idx is not None:
            bits.append(str(self.idx))
        if self.cls:
            bits.append("cls=" + self.cls)
        if self.elem is not None:
            bits.append("elem(" + self.elem.short() + ")")
        if self.elts is not None:
            bits.append("(" + ", ".join(e.short() for e in self.elts) + ")")
        if self.src:
            bits.append("from " + "/".join(sorted(self.src)))
        return " ".join(bits) or "T"


TOP = AV()
INT = AV(num="int", exact=True)
FLOAT = AV(num="float", exact=False)
IFLOAT = AV(num="ifloat", exact=False)
BOOL = AV(num="bool", exact=True)
STR = AV(num="str")
NONE = AV(num="none")


def container(elem: AV, **kw) -> AV:
    return AV(num="obj", elem=elem, **kw)


def join_num(a, b):
    if a == b:
        return a
    if a is None or b is None:
        return None
    s = {a, b}
    if s <= {"int", "bool"}:
        return "int"
    if s <= {"int", "bool", "ifloat"}:
        return "ifloat"
    if s <= {"int", "bool", "ifloat", "float"}:
        return "float"
    return None


def join(a: AV, b: AV) -> AV:
    if a is b or a == b:
        return a
    if a is None:
        return b
    if b is None:
        return a
    # Optional[...] pattern: None joined with an object keeps the object's
    # facets (uses are guarded by `is None` tests in the code)
    if a.num == "none" and b.num == "obj":
        return b.with_(src=a.src | b.src)
    if b.num == "none" and a.num == "obj":
        return a.with_(src=a.src | b.src)
    # an uninitialised array (np.empty) has no content of its own
    if a.cls == "empty" and b.num == "obj":
        return b
    if b.cls == "empty" and a.num == "obj":
        return a
    # "a value or a sequence of such values" (try: zip(x, y) / except
    # TypeError: [[x, y]]): the sequence carries its elements' unit / kind
    def _lift(c, other):
        if (other.unit is None and other.kind is None) or \
                other.elem is not None or other.elts is not None or \
                c.unit is not None or c.kind is not None:
            return c
        e = c.elem if c.elem is not None else (
            c.elts[0] if c.elts is not None and len(c.elts) == 1 else None)
        if e is not None and (e.unit is not None or e.kind is not None):
            return c.with_(unit=e.unit, kind=e.kind)
        return c
    a, b = _lift(a, b), _lift(b, a)
    elts = None
    if a.elts is not None and b.elts is not None and \
            len(a.elts) == len(b.elts):
        elts = tuple(join(x, y) for x, y in zip(a.elts, b.elts))
    elem = None
    if a.elem is not None and b.elem is not None:
        elem = join(a.elem, b.elem)
    unit = None
    if a.unit is not None and b.unit is not None:
        unit = a.unit | b.unit
    kind = None
    if a.kind is not None and b.kind is not None:
        kind = a.kind | b.kind
    # numeric literals (0, -1, nan placeholders) are unit-polymorphic
    def _lit(v):
        return isinstance(v.cval, (int, float)) and v.unit is None and \
            v.kind is None and v.idx is None
    idx = a.idx if a.idx == b.idx else None
    if _lit(a) and not _lit(b):
        unit, kind, idx = b.unit, b.kind, b.idx
    elif _lit(b) and not _lit(a):
        unit, kind, idx = a.unit, a.kind, a.idx
    return AV(num=join_num(a.num, b.num),
              exact=a.exact if a.exact == b.exact else
              (False if (a.exact is False or b.exact is False) else None),
              cval=a.cval if a.cval == b.cval and
              type(a.cval) is type(b.cval) else None,
              elts=elts, elem=elem,
              cls=a.cls if a.cls == b.cls else None,
              unit=unit, kind=kind,
              idx=idx,
              scale=a.scale if a.scale == b.scale else None,
              src=a.src | b.src)


def join_env(e1, e2):
    if e1 is None:
        return e2
    if e2 is None:
        return e1
    out = {}
    for k in set(e1) | set(e2):
        if k in e1 and k in e2:
            out[k] = join(e1[k], e2[k])
        else:
            # defined on one path only: keep (possibly-undefined is not our
            # concern) but mark unknown-ish by joining with itself
            out[k] = e1.get(k, e2.get(k))
    return out


class Observer:
    def on_call(self, it, node, dotted, args, kwargs, result):
        pass

    def on_store(self, it, target, key, val, stmt):
        pass

    def on_return(self, it, node, val):
        pass

    def on_use(self, it, node, what, val):
        """int-only contexts etc.: what in {'range','index','slice','bitop',
        'format_d'}"""
        pass

    def on_binop(self, it, node, l, r, result):
        pass


class Interp:
    """Interprets one function body.  `summaries` (shared) memoises callee
    results for intra-package calls."""

    MAX_DEPTH = 4

    def __init__(self, prog: Program, fi: FuncInfo, observers=(),
                 args: dict | None = None, lib=None, depth=0,
                 summaries=None, specialise=None, outer_env=None,
                 world=None):
        self.world = world
        if world is not None and summaries is None:
            summaries = world.summaries
        if outer_env is None and world is not None and fi.parent is not None:
            outer_env = world.closures.get(fi.qualname)
        self.prog = prog
        self.fi = fi
        self.mod = prog.modules[fi.module]
        self.observers = list(observers)
        self.lib = lib
        self.depth = depth
        self.summaries = summaries if summaries is not None else {}
        self.returns: list[AV] = []
        self.specialise = specialise or {}   # param -> python constant
        self.env: dict[str, AV] = dict(outer_env or {})
        self.cur_stmt = None
        self.in_handler = 0
        a = fi.node.args
        params = a.posonlyargs + a.args + a.kwonlyargs
        defaults = [None] * (len(a.posonlyargs + a.args) - len(a.defaults)) \
            + list(a.defaults) + list(a.kw_defaults)
        for p, d in zip(params, defaults):
            v = None
            if p.arg in self.specialise and isinstance(
                    self.specialise[p.arg], AV):
                v = self.specialise[p.arg]
            elif p.arg in self.specialise:
                v = self.const(self.specialise[p.arg])
            if v is None and self.lib is not None and depth == 0:
                # documented contracts take precedence over what the (few)
                # in-package call sites happen to pass
                c = self.lib.param_default(self, fi, p.arg, d)
                if c is not None and not c.is_top:
                    v = c
            if v is None:
                v = (args or {}).get(p.arg)
            if v is None and p.arg in self.specialise:
                v = self.const(self.specialise[p.arg])
            if v is None:
                v = self.lib.param_default(self, fi, p.arg, d) \
                    if self.lib else TOP
            self.env[p.arg] = v
        if a.vararg:
            self.env[a.vararg.arg] = TOP
        if a.kwarg:
            self.env[a.kwarg.arg] = TOP

    # ------------------------------------------------------------------
    def run(self):
        self.exit_envs = []
        end = self.exec_block(self.fi.node.body, self.env)
        fe = end
        for e in self.exit_envs:
            fe = join_env(fe, e)
        self.final_env = fe or {}
        r = None
        for v in self.returns:
            r = v if r is None else join(r, v)
        return r if r is not None else NONE

    def const(self, v) -> AV:
        if isinstance(v, bool):
            return AV(num="bool", exact=True, cval=v)
        if isinstance(v, int):
            return AV(num="int", exact=True, cval=v)
        if isinstance(v, float):
            return AV(num="float", exact=False, cval=v)
        if isinstance(v, str):
            return AV(num="str", cval=v)
        if v is None:
            return AV(num="none")
        if isinstance(v, tuple):
            return AV(num="obj", elts=tuple(self.const(x) for x in v))
        return TOP

    # ---- statements --------------------------------------------------
    def exec_block(self, stmts, env):
        for s in stmts:
            if env is None:
                return None
            env = self.exec_stmt(s, env)
        return env

    def exec_stmt(self, s, env):
        self.cur_stmt = s
        self.env = env
        if isinstance(s, ast.Assign):
            v = self.eval(s.value, env)
            for t in s.targets:
                self.assign(t, v, env, s)
            return env
        if isinstance(s, ast.AnnAssign):
            if s.value is not None:
                self.assign(s.target, self.eval(s.value, env), env, s)
            return env
        if isinstance(s, ast.AugAssign):
            cur = self.eval(s.target, env)
            rhs = self.eval(s.value, env)
            v = self.binop(s.op, cur, rhs, s, s.target, s.value)
            self.assign(s.target, v, env, s, aug=True)
            return env
        if isinstance(s, ast.Expr):
            self.eval(s.value, env)
            return env
        if isinstance(s, ast.Return):
            v = self.eval(s.value, env) if s.value is not None else NONE
            self.returns.append(v)
            if hasattr(self, "exit_envs"):
                self.exit_envs.append(dict(env))
            for o in self.observers:
                o.on_return(self, s, v)
            return None
        if isinstance(s, ast.Raise):
            if s.exc is not None:
                self.eval(s.exc, env)
            return None
        if isinstance(s, ast.If):
            tv = self.eval(s.test, env)
            known = self.truth(s.test, tv, env)
            e1 = e2 = None
            if known is not False:
                e1 = self.exec_block(s.body, self.refine(s.test, True,
                                                         dict(env)))
            if known is not True:
                e2 = self.exec_block(s.orelse, self.refine(s.test, False,
                                                           dict(env)))
            if known is True:
                return e1
            if known is False:
                return e2
            return join_env(e1, e2) if (e1 is not None or e2 is not None) \
                else None
        if isinstance(s, (ast.For, ast.AsyncFor)):
            it = self.eval(s.iter, env)
            ev = self.iter_elem(it, s.iter)
            out = dict(env)
            for _ in range(2):
                body_env = dict(out)
                self.assign(s.target, ev, body_env, s)
                be = self.exec_block(s.body, body_env)
                out = join_env(out, be)
            if s.orelse:
                out = self.exec_block(s.orelse, out) or out
            return out
        if isinstance(s, ast.While):
            self.eval(s.test, env)
            out = dict(env)
            for _ in range(2):
                be = self.exec_block(s.body, dict(out))
                out = join_env(out, be)
            if s.orelse:
                out = self.exec_block(s.orelse, out) or out
            return out
        if isinstance(s, (ast.With, ast.AsyncWith)):
            for item in s.items:
                v = self.eval(item.context_expr, env)
                if item.optional_vars is not None:
                    self.assign(item.optional_vars, self.lib.with_value(
                        self, item.context_expr, v) if self.lib else TOP,
                        env, s)
            return self.exec_block(s.body, env)
        if isinstance(s, ast.Try):
            start = dict(env)
            e = self.exec_block(s.body, env)
            if e is not None and s.orelse:
                e = self.exec_block(s.orelse, e)
            outs = [e]
            for h in s.handlers:
                henv = join_env(dict(start), dict(e) if e else None)
                if h.name:
                    henv[h.name] = AV(num="obj", cls="exc:" + (
                        norm(h.type) if h.type is not None else "BaseException"))
                self.in_handler += 1
                outs.append(self.exec_block(h.body, henv))
                self.in_handler -= 1
            res = None
            for o in outs:
                res = join_env(res, o) if o is not None else res
            if s.finalbody:
                fenv = res if res is not None else dict(start)
                r2 = self.exec_block(s.finalbody, fenv)
                return r2 if res is not None else None
            return res
        if isinstance(s, (ast.FunctionDef, ast.AsyncFunctionDef)):
            q = self.fi.qualname + "." + s.name
            env[s.name] = AV(num="obj", cls="func:" + q)
            if self.world is not None:
                snap = {k: v for k, v in env.items()}
                self.world.closures[q] = join_env(
                    self.world.closures.get(q), snap)
            return env
        if isinstance(s, ast.Delete):
            for t in s.targets:
                k = self.key(t)
                if k:
                    env.pop(k, None)
            return env
        if isinstance(s, (ast.Break, ast.Continue)):
            return None
        if isinstance(s, ast.Assert):
            self.eval(s.test, env)
            return env
        return env

    def truth(self, test, tv, env):
        """constant truth value of a branch test if known"""
        if tv is not None and tv.cval is not None and \
                isinstance(tv.cval, (bool, int)) and tv.num in ("bool", "int"):
            return bool(tv.cval)
        if tv is not None and tv.num == "none":
            return False
        return None

    def refine(self, test, branch, env):
        # `x is None` / `x is not None`
        if isinstance(test, ast.Compare) and len(test.ops) == 1 and \
                isinstance(test.ops[0], (ast.Is, ast.IsNot)) and \
                isinstance(test.comparators[0], ast.Constant) and \
                test.comparators[0].value is None:
            k = self.key(test.left)
            isnone = isinstance(test.ops[0], ast.Is) == branch
            if k and isnone:
                env[k] = NONE
        return env

    # ---- assignment ----------------------------------------------------
    def key(self, node):
        if isinstance(node, ast.Name):
            return node.id
        if isinstance(node, ast.Attribute):
            b = self.key(node.value)
            return b + "." + node.attr if b else None
        if isinstance(node, ast.Subscript):
            b = self.key(node.value)
            if b is None:
                return None
            sl = node.slice
            if isinstance(sl, ast.Constant) and \
                    isinstance(sl.value, (str, int)):
                return "%s[%r]" % (b, sl.value)
            ks = self.strkey(sl)
            if ks is not None:
                return "%s[%r]" % (b, ks)
            return None
        return None

    def strkey(self, node):
        """'prefix + "sx"' -> '*sx' (suffix key) for lmfit parameter names"""
        if isinstance(node, ast.BinOp) and isinstance(node.op, ast.Add) and \
                isinstance(node.right, ast.Constant) and \
                isinstance(node.right.value, str):
            return "*" + node.right.value
        return None

    def assign(self, target, val, env, stmt, aug=False):
        if isinstance(target, (ast.Tuple, ast.List)):
            n = len(target.elts)
            parts = None
            if val.elts is not None and len(val.elts) == n:
                parts = list(val.elts)
            elif self.lib is not None:
                parts = self.lib.unpack(self, val, n, stmt)
            if parts is None:
                ev = val.elem if val.elem is not None else \
                    self.iter_elem(val)
                if val.src:
                    ev = ev.with_(src=ev.src | val.src)
                parts = [ev] * n
            for t, p in zip(target.elts, parts):
                if isinstance(t, ast.Starred):
                    self.assign(t.value, TOP, env, stmt)
                else:
                    self.assign(t, p, env, stmt)
            return
        k = self.key(target)
        for o in self.observers:
            o.on_store(self, target, k, val, stmt)
        if isinstance(target, ast.Subscript):
            # evaluate index for uses
            self.eval(target.slice, env)
            if self.lib is not None and self.lib.store_subscript(
                    self, target, val, env, aug):
                return
            if k is not None:
                env[k] = val
            else:
                # weak update of the container's element facet
                bk = self.key(target.value)
                if bk and bk in env and env[bk].elem is not None and \
                        not isinstance(target.slice, ast.Slice):
                    env[bk] = env[bk].with_(elem=join(env[bk].elem, val))
            return
        if k is not None:
            env[k] = val
            # invalidate dependants  a.b  when a is re-bound
            pre = k + "."
            pre2 = k + "["
            for kk in [x for x in env if x.startswith(pre) or
                       x.startswith(pre2)]:
                if kk != k:
                    del env[kk]

    # ---- expressions ---------------------------------------------------
    def eval(self, node, env) -> AV:
        if node is None:
            return NONE
        m = getattr(self, "ev_" + type(node).__name__, None)
        if m is None:
            for c in ast.iter_child_nodes(node):
                if isinstance(c, ast.expr):
                    self.eval(c, env)
            return TOP
        v = m(node, env)
        return v if v is not None else TOP

    def ev_Constant(self, n, env):
        return self.const(n.value)

    def ev_Name(self, n, env):
        if n.id in env:
            return env[n.id]
        if n.id in ("True", "False"):
            return self.const(n.id == "True")
        cv = self.prog.const_value(self.mod, n)
        if cv is not None:
            v = self.const(cv)
            if self.lib:
                v = self.lib.module_const(self, n.id, v)
            return v
        tgt = self.prog.resolve_name(self.mod, n.id)
        if tgt:
            if tgt in self.prog.functions:
                return AV(num="obj", cls="func:" + tgt)
            if tgt in self.prog.classes:
                return AV(num="obj", cls="class:" + tgt)
            return AV(num="obj", cls="ext:" + tgt)
        if self.fi.parent is not None:
            pass
        return TOP

    def ev_Attribute(self, n, env):
        k = self.key(n)
        if k is not None and k in env:
            return env[k]
        base = self.eval(n.value, env)
        cv = self.prog.const_value(self.mod, n)
        if cv is not None:
            v = self.const(cv)
            if self.lib:
                v = self.lib.module_const(self, norm(n), v)
            return v
        if self.lib:
            v = self.lib.attribute(self, n, base, env)
            if v is not None:
                return v
        return TOP

    def ev_Subscript(self, n, env):
        k = self.key(n)
        base = self.eval(n.value, env)
        if isinstance(n.slice, ast.Slice):
            for part, what in ((n.slice.lower, "slice"),
                               (n.slice.upper, "slice"),
                               (n.slice.step, "slice")):
                if part is not None:
                    pv = self.eval(part, env)
                    for o in self.observers:
                        o.on_use(self, part, "slice", pv)
            if self.lib:
                v = self.lib.subscript(self, n, base, None, env)
                if v is not None:
                    return v
            return base.with_(elts=None, cval=None) if base.elem is not None \
                else TOP
        if isinstance(n.slice, ast.Tuple):
            ivs = []
            for e in n.slice.elts:
                if isinstance(e, ast.Slice):
                    for part in (e.lower, e.upper, e.step):
                        if part is not None:
                            pv = self.eval(part, env)
                            for o in self.observers:
                                o.on_use(self, part, "slice", pv)
                    ivs.append(None)
                else:
                    iv = self.eval(e, env)
                    ivs.append(iv)
                    for o in self.observers:
                        o.on_use(self, e, "index", iv)
            if k is not None and k in env:
                return env[k]
            if self.lib:
                v = self.lib.subscript(self, n, base, ivs, env)
                if v is not None:
                    return v
            if base.elem is not None and all(i is not None for i in ivs):
                return base.elem if base.elem.elem is None else base.elem.elem
            return TOP
        iv = self.eval(n.slice, env)
        if k is not None and k in env:
            return env[k]
        if base.num != "obj" or base.cls is None or \
                not base.cls.startswith(("dict", "lmfit", "header")):
            if iv.num not in ("str",) and base.cls not in ("dict",):
                for o in self.observers:
                    o.on_use(self, n.slice, "index", iv)
        if self.lib:
            v = self.lib.subscript(self, n, base, [iv], env)
            if v is not None:
                return v
        if base.elts is not None and isinstance(iv.cval, int) and \
                -len(base.elts) <= iv.cval < len(base.elts):
            return base.elts[iv.cval]
        if base.elem is not None:
            return base.elem
        return TOP

    def ev_Tuple(self, n, env):
        return AV(num="obj", elts=tuple(self.eval(e, env) for e in n.elts))

    ev_List = ev_Tuple

    def ev_Set(self, n, env):
        vs = [self.eval(e, env) for e in n.elts]
        el = None
        for v in vs:
            el = v if el is None else join(el, v)
        return container(el or TOP, cls="set")

    def ev_Dict(self, n, env):
        el = None
        for kx, vx in zip(n.keys, n.values):
            if kx is not None:
                self.eval(kx, env)
            v = self.eval(vx, env)
            el = v if el is None else join(el, v)
        return AV(num="obj", cls="dict", elem=el)

    def ev_UnaryOp(self, n, env):
        v = self.eval(n.operand, env)
        if isinstance(n.op, ast.Not):
            if v.cval is not None and v.num in ("bool", "int"):
                return self.const(not v.cval)
            return BOOL
        if isinstance(n.op, ast.USub):
            cv = -v.cval if isinstance(v.cval, (int, float)) and \
                not isinstance(v.cval, bool) else None
            r = v.with_(cval=cv)
            if self.lib:
                r = self.lib.negate(self, n, v, r)
            return r
        if isinstance(n.op, ast.Invert):
            return v.with_(cval=None)
        return v

    def ev_BinOp(self, n, env):
        l = self.eval(n.left, env)
        r = self.eval(n.right, env)
        return self.binop(n.op, l, r, n, n.left, n.right)

    def binop(self, op, l, r, node, lnode=None, rnode=None):
        num, exact = None, None
        if isinstance(op, (ast.BitOr, ast.BitAnd, ast.BitXor, ast.LShift,
                           ast.RShift)):
            for o in self.observers:
                o.on_use(self, lnode if lnode is not None else node,
                         "bitop", l)
                o.on_use(self, rnode if rnode is not None else node,
                         "bitop", r)
            if l.num in NUM_INTLIKE and r.num in NUM_INTLIKE:
                num, exact = ("bool" if l.num == r.num == "bool" else "int"), \
                    True
        elif isinstance(op, ast.Div):
            if l.num in ("int", "bool", "ifloat", "float") and \
                    r.num in ("int", "bool", "ifloat", "float"):
                num, exact = "float", False
        elif isinstance(op, ast.FloorDiv):
            if l.num in NUM_INTLIKE and r.num in NUM_INTLIKE:
                num, exact = "int", True
            elif l.num in ("int", "bool", "ifloat", "float") and \
                    r.num in ("int", "bool", "ifloat", "float"):
                num, exact = "ifloat", False
        elif isinstance(op, (ast.Add, ast.Sub, ast.Mult, ast.Mod, ast.Pow)):
            if l.num == "str" or r.num == "str":
                if isinstance(op, ast.Add) and l.num == r.num == "str":
                    num = "str"
                elif isinstance(op, ast.Mod) and l.num == "str":
                    num = "str"
                elif isinstance(op, ast.Mult):
                    num = "str"
            elif l.num in NUM_INTLIKE and r.num in NUM_INTLIKE:
                num, exact = "int", True
                if isinstance(op, ast.Pow) and isinstance(r.cval, int) and \
                        r.cval < 0:
                    num, exact = "float", False
            elif l.num in ("int", "bool", "ifloat") and \
                    r.num in ("int", "bool", "ifloat") and \
                    not isinstance(op, ast.Pow):
                num, exact = "ifloat", False
            elif l.num in ("int", "bool", "ifloat", "float") and \
                    r.num in ("int", "bool", "ifloat", "float"):
                num, exact = "float", False
        elif isinstance(op, ast.MatMult):
            pass
        cval = None
        if isinstance(l.cval, (int, float)) and \
                isinstance(r.cval, (int, float)) and \
                not isinstance(l.cval, bool) and not isinstance(r.cval, bool):
            try:
                fake = ast.BinOp(ast.Constant(l.cval), op,
                                 ast.Constant(r.cval))
                cval = self.prog.const_value(self.mod, fake)
            except Exception:
                cval = None
        elif isinstance(l.cval, str) and isinstance(r.cval, str) and \
                isinstance(op, ast.Add):
            cval = l.cval + r.cval
        res = AV(num=num, exact=exact, cval=cval, src=l.src | r.src)
        if num == "str" and isinstance(op, ast.Add) and \
                isinstance(r.cval, str) and cval is None:
            res = res.with_(kind=None)
        if self.lib:
            res = self.lib.binop(self, op, l, r, res, node, lnode, rnode)
        for o in self.observers:
            o.on_binop(self, node, l, r, res)
        return res

    def ev_BoolOp(self, n, env):
        vs = [self.eval(v, env) for v in n.values]

        def tv(v):
            if v.num == "none":
                return False
            if v.cval is not None and v.num in ("bool", "int"):
                return bool(v.cval)
            return None
        if isinstance(n.op, ast.And) and any(tv(v) is False for v in vs):
            return self.const(False)
        if isinstance(n.op, ast.Or) and any(tv(v) is True for v in vs):
            return self.const(True)
        r = vs[0]
        for v in vs[1:]:
            r = join(r, v)
        return r

    def ev_Compare(self, n, env):
        l = self.eval(n.left, env)
        cs = [self.eval(c, env) for c in n.comparators]
        if self.lib:
            v = self.lib.compare(self, n, l, cs)
            if v is not None:
                return v
        return BOOL

    def ev_IfExp(self, n, env):
        t = self.eval(n.test, env)
        known = self.truth(n.test, t, env)
        if known is True:
            return self.eval(n.body, env)
        if known is False:
            return self.eval(n.orelse, env)
        return join(self.eval(n.body, env), self.eval(n.orelse, env))

    def ev_JoinedStr(self, n, env):
        for v in n.values:
            if isinstance(v, ast.FormattedValue):
                fv = self.eval(v.value, env)
                if v.format_spec is not None:
                    spec = "".join(x.value for x in v.format_spec.values
                                   if isinstance(x, ast.Constant))
                    if spec.endswith("d"):
                        for o in self.observers:
                            o.on_use(self, v.value, "format_d", fv)
        return STR

    def ev_Lambda(self, n, env):
        return AV(num="obj", cls="lambda")

    def ev_Starred(self, n, env):
        return self.eval(n.value, env)

    def _comp(self, n, env, eltnode):
        env = dict(env)
        for g in n.generators:
            it = self.eval(g.iter, env)
            self.assign(g.target, self.iter_elem(it, g.iter), env,
                        self.cur_stmt)
            for c in g.ifs:
                self.eval(c, env)
        return self.eval(eltnode, env), env

    def ev_ListComp(self, n, env):
        el, _ = self._comp(n, env, n.elt)
        return container(el, cls="list")

    ev_GeneratorExp = ev_ListComp

    def ev_SetComp(self, n, env):
        el, _ = self._comp(n, env, n.elt)
        return container(el, cls="set")

    def ev_DictComp(self, n, env):
        el, e2 = self._comp(n, env, n.value)
        self.eval(n.key, e2)
        return AV(num="obj", cls="dict", elem=el)

    def iter_elem(self, it: AV, node=None) -> AV:
        if self.lib and (it.unit is not None or it.kind is not None or
                         it.idx is not None or it.cls == "colarray"):
            # facets carried by the container itself (an array in radians)
            # belong to its elements
            v = self.lib.iter_elem(self, it, node)
            if v is not None:
                return v
        if it.elem is not None:
            return it.elem
        if it.elts is not None and it.elts:
            r = it.elts[0]
            for e in it.elts[1:]:
                r = join(r, e)
            return r
        if self.lib:
            v = self.lib.iter_elem(self, it, node)
            if v is not None:
                return v
        return TOP

    # ---- calls ---------------------------------------------------------
    def ev_Call(self, n, env):
        args = [self.eval(a, env) for a in n.args]
        kwargs = {k.arg: self.eval(k.value, env) for k in n.keywords}
        dotted = None
        fval = None
        recv = None
        if isinstance(n.func, ast.Name):
            if n.func.id in env:
                fval = env[n.func.id]
                if fval.cls and fval.cls.startswith(("func:", "class:")):
                    dotted = fval.cls.split(":", 1)[1]
            if dotted is None:
                dotted = self.prog.resolve_name(self.mod, n.func.id) or \
                    n.func.id
        elif isinstance(n.func, ast.Attribute):
            dotted = self.prog.dotted(self.mod, n.func)
            if dotted is None or isinstance(n.func.value, ast.Name) and \
                    n.func.value.id in env:
                recv = self.eval(n.func.value, env)
                dotted = None
                if recv.cls:
                    c = recv.cls
                    if c.startswith("class:"):
                        c = c[6:]
                    elif c.startswith("ext:"):
                        c = c[4:]
                    dotted = c + "." + n.func.attr
                elif isinstance(n.func.value, ast.Name) and \
                        n.func.value.id in ("self", "cls") and self.fi.cls:
                    dotted = self.fi.module + "." + self.fi.cls + "." + \
                        n.func.attr
        else:
            self.eval(n.func, env)
        res = None
        if self.lib:
            res = self.lib.call(self, n, dotted, recv, args, kwargs, env)
        if res is None and dotted:
            res = self.call_repo(n, dotted, recv, args, kwargs)
        if res is None:
            res = TOP
        for o in self.observers:
            o.on_call(self, n, dotted, args, kwargs, res)
        return res

    def call_repo(self, n, dotted, recv, args, kwargs):
        """summary of an intra-package callee (memoised, depth-limited)"""
        target = None
        if dotted in self.prog.functions:
            target = self.prog.functions[dotted]
        elif dotted in self.prog.classes:
            return AV(num="obj", cls=dotted)
        else:
            # method on known repo class given as 'AegeanTools.x.Cls.meth'
            m, _, meth = dotted.rpartition(".")
            if m in self.prog.classes and meth in self.prog.classes[m].methods:
                target = self.prog.classes[m].methods[meth]
        if target is None or self.depth >= self.MAX_DEPTH:
            return None
        params = target.params
        is_method = target.cls is not None and params and \
            params[0] in ("self", "cls")
        deco = [norm(d) for d in target.node.decorator_list]
        if "staticmethod" in deco:
            is_method = False
        if "property" in deco:
            return None
        bind = {}
        ps = params[1:] if is_method else params
        if any(isinstance(a, ast.Starred) for a in n.args):
            return None
        for p, a in zip(ps, args):
            bind[p] = a
        for k, v in kwargs.items():
            if k in ps:
                bind[k] = v
        if is_method:
            bind[params[0]] = recv if recv is not None and recv.cls else \
                AV(num="obj", cls=(target.module + "." + target.cls))
        if self.world is not None and self.depth == 0:
            self.world.record_call(target, bind)
        sig = (target.qualname, tuple(sorted((k, v) for k, v in
                                             bind.items())))
        try:
            hash(sig)
        except TypeError:
            sig = None
        if sig is not None and sig in self.summaries:
            return self.summaries[sig]
        if sig is not None:
            self.summaries[sig] = TOP      # recursion guard
        sub = Interp(self.prog, target, observers=self.summary_observers(),
                     args=bind, lib=self.lib, depth=self.depth + 1,
                     summaries=self.summaries, world=self.world)
        try:
            r = sub.run()
        except RecursionError:
            r = TOP
        if sig is not None:
            self.summaries[sig] = r
        return r

    def summary_observers(self):
        """observers are not propagated into callee summaries by default
        (each function is also analysed on its own as a root)"""
        return []


class World:
    """Context-insensitive interprocedural driver: every function is analysed
    as a root with its parameters bound to the join of the abstract arguments
    seen at its call sites in the previous round (callbacks registered by
    library summaries included); closures see the join of their defining
    environments.  Rule observers run in the last round only."""

    def __init__(self, prog: Program, lib, modules=None):
        self.prog = prog
        self.lib = lib
        self.summaries = {}
        self.closures: dict[str, dict] = {}
        self.param_env: dict[str, dict] = {}
        self._next: dict[str, dict] = {}
        self.modules = modules

    def record_call(self, target: FuncInfo, bind: dict):
        d = self._next.setdefault(target.qualname, {})
        for k, v in bind.items():
            if v.is_top and not v.src:
                continue          # an unknown caller carries no information
            d[k] = join(d[k], v) if k in d else v

    def bind_callback(self, qualname, param_index, av):
        """library summary hook: a repo function handed to a library is
        called back with `av` as its param_index-th parameter"""
        fi = self.prog.functions.get(qualname)
        if fi is None:
            return
        ps = fi.params
        if param_index < len(ps):
            self.record_call(fi, {ps[param_index]: av})

    def roots(self):
        for q, fi in self.prog.functions.items():
            if self.modules is None or fi.module in self.modules:
                yield fi

    def run(self, observers=(), rounds=12):
        """iterate until the call-site parameter environment is stable (at
        most `rounds` times), then one more pass with the rule observers"""
        self.rounds_used = 0
        for r in range(rounds):
            self._pass([])
            self.rounds_used += 1
            stable = self._next == self.param_env
            self.param_env = self._next
            if stable:
                break
        self._pass(list(observers))
        self.param_env = self._next

    def _pass(self, observers):
        self._next = {}
        self.summaries.clear()
        for fi in self.roots():
            specs = self.lib.specialisations(fi) if self.lib else None
            for spec in (specs or [None]):
                it = Interp(self.prog, fi, observers=observers,
                            args=self.param_env.get(fi.qualname),
                            lib=self.lib, world=self, specialise=spec)
                try:
                    it.run()
                except RecursionError:
                    pass
                for o in observers:
                    fin = getattr(o, "finish", None)
                    if fin:
                        fin(it)
