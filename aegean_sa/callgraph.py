"""Whole-package call graph (over-approximate for reachability scoping)."""
from __future__ import annotations

import ast

import networkx as nx

from .core import PKG, Program, walk_no_nested


def build(prog: Program) -> nx.DiGraph:
    g = nx.DiGraph()
    by_method: dict[str, list[str]] = {}
    for q, fi in prog.functions.items():
        g.add_node(q)
        if fi.cls:
            by_method.setdefault(fi.name, []).append(q)
    for q, fi in prog.functions.items():
        mod = prog.modules[fi.module]
        # nested functions are reachable from their parent
        if fi.parent is not None:
            g.add_edge(fi.parent.qualname, q, kind="nested")
        for n in walk_no_nested(fi.node):
            if isinstance(n, ast.Call):
                for t in _targets(prog, mod, fi, n.func, by_method):
                    g.add_edge(q, t, kind="call", line=n.lineno)
                # function values passed as arguments
                for a in list(n.args) + [k.value for k in n.keywords]:
                    if isinstance(a, (ast.Name, ast.Attribute)):
                        for t in _targets(prog, mod, fi, a, by_method,
                                          value_only=True):
                            g.add_edge(q, t, kind="funcvalue", line=n.lineno)
    return g


def _targets(prog, mod, fi, f, by_method, value_only=False):
    out = []
    if isinstance(f, ast.Name):
        t = prog.resolve_name(mod, f.id)
        if t in prog.functions:
            out.append(t)
        elif t in prog.classes:
            init = t + ".__init__"
            if init in prog.functions:
                out.append(init)
        else:
            # nested function of the current function (or its parents)
            p = fi
            while p is not None:
                q = p.qualname + "." + f.id
                if q in prog.functions:
                    out.append(q)
                    break
                p = p.parent
    elif isinstance(f, ast.Attribute):
        d = prog.dotted(mod, f)
        if d in prog.functions:
            out.append(d)
        elif d in prog.classes:
            init = d + ".__init__"
            if init in prog.functions:
                out.append(init)
        elif d and d.rpartition(".")[0] in prog.classes:
            # Class.method (classmethod/static call)
            c, _, m = d.rpartition(".")
            if m in prog.classes[c].methods:
                out.append(prog.classes[c].methods[m].qualname)
        elif isinstance(f.value, ast.Name) and f.value.id in ("self", "cls") \
                and fi.cls:
            cq = fi.module + "." + fi.cls
            seen = set()
            while cq in prog.classes and cq not in seen:
                seen.add(cq)
                ci = prog.classes[cq]
                if f.attr in ci.methods:
                    out.append(ci.methods[f.attr].qualname)
                    break
                nxt = None
                for b in ci.bases:
                    t = prog.resolve_name(prog.modules[ci.module],
                                          b.split(".")[0])
                    if t in prog.classes:
                        nxt = t
                cq = nxt
        elif not value_only and d is None:
            # method on an object of unknown class: match by method name
            out.extend(by_method.get(f.attr, []))
    return out


def reachable(g: nx.DiGraph, roots):
    seen = set()
    for r in roots:
        if r in g:
            seen.add(r)
            seen |= nx.descendants(g, r)
    return seen


def chain(g, roots, target):
    """one shortest call chain root -> target, for reports"""
    best = None
    for r in roots:
        if r in g and target in g:
            try:
                p = nx.shortest_path(g, r, target)
            except nx.NetworkXNoPath:
                continue
            if best is None or len(p) < len(best):
                best = p
    return [x[len(PKG) + 1:] for x in best] if best else []
