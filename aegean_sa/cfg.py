"""
Statement-level control-flow graph for the statement kinds the repository
uses, with dominators / post-dominators and simple path queries.

Nodes are integers; `stmt[n]` is the ast statement (or the test expression
owner for If/While/For headers).  Special nodes: ENTRY, EXIT (normal return
or falling off the end), RAISE (exception leaves the function).

Exceptions: an explicit `raise` goes to the innermost matching handler region
(conservatively: to every handler of the innermost try, and through its
finally); every statement inside a `try` body that contains a call (or a
subscript / attribute access) also gets an edge to each handler -- calls
outside a try are not given exceptional edges (rules about "all normal
exits" are stated over EXIT only).
"""
from __future__ import annotations

import ast

import networkx as nx

ENTRY, EXIT, RAISE = 0, 1, 2


class CFG:
    def __init__(self, fnode):
        self.fnode = fnode
        self.g = nx.DiGraph()
        self.g.add_nodes_from([ENTRY, EXIT, RAISE])
        self.stmt: dict[int, ast.AST] = {}
        self.kind: dict[int, str] = {ENTRY: "entry", EXIT: "exit",
                                     RAISE: "raise"}
        self._n = 3
        outs = self._block(fnode.body, [(ENTRY, None)], _Ctx())
        for p, lab in outs:
            self._edge(p, EXIT, lab)
        self._idom = None
        self._ipdom = None

    # ---- construction ------------------------------------------------
    def _new(self, stmt, kind="stmt"):
        n = self._n
        self._n += 1
        self.g.add_node(n)
        self.stmt[n] = stmt
        self.kind[n] = kind
        return n

    def _edge(self, a, b, lab=None):
        if self.g.has_edge(a, b):
            old = self.g[a][b].get("label")
            if old != lab:
                self.g[a][b]["label"] = None
        else:
            self.g.add_edge(a, b, label=lab)

    def _link(self, preds, n):
        for p, lab in preds:
            self._edge(p, n, lab)

    def _block(self, stmts, preds, ctx):
        for s in stmts:
            if not preds:
                # unreachable code: still build it so nodes exist
                pass
            preds = self._stmt(s, preds, ctx)
        return preds

    def _may_raise(self, s):
        for n in ast.walk(s):
            if isinstance(n, (ast.Call, ast.Subscript, ast.Attribute,
                              ast.BinOp, ast.Raise)):
                return True
        return False

    def _exc_targets(self, n, ctx):
        """edges for an exception raised at node n"""
        if ctx.handlers:
            for h in ctx.handlers[-1]:
                self._edge(n, h, "exc")
        else:
            self._edge(n, RAISE, "exc")

    def _stmt(self, s, preds, ctx):
        if isinstance(s, ast.If):
            n = self._new(s, "if")
            self._link(preds, n)
            if ctx.in_try and self._may_raise(s.test):
                self._exc_targets(n, ctx)
            t = self._block(s.body, [(n, "T")], ctx)
            f = self._block(s.orelse, [(n, "F")], ctx) if s.orelse \
                else [(n, "F")]
            return t + f
        if isinstance(s, (ast.For, ast.AsyncFor)):
            n = self._new(s, "for")
            self._link(preds, n)
            if ctx.in_try:
                self._exc_targets(n, ctx)
            lctx = ctx.loop(n)
            body_out = self._block(s.body, [(n, "T")], lctx)
            self._link(body_out, n)
            for c in lctx.continues:
                self._edge(c, n)
            out = self._block(s.orelse, [(n, "F")], ctx) if s.orelse \
                else [(n, "F")]
            return out + [(b, None) for b in lctx.breaks]
        if isinstance(s, ast.While):
            n = self._new(s, "while")
            self._link(preds, n)
            lctx = ctx.loop(n)
            body_out = self._block(s.body, [(n, "T")], lctx)
            self._link(body_out, n)
            for c in lctx.continues:
                self._edge(c, n)
            infinite = isinstance(s.test, ast.Constant) and s.test.value
            out = []
            if not infinite:
                out = self._block(s.orelse, [(n, "F")], ctx) if s.orelse \
                    else [(n, "F")]
            return out + [(b, None) for b in lctx.breaks]
        if isinstance(s, (ast.With, ast.AsyncWith)):
            n = self._new(s, "with")
            self._link(preds, n)
            if ctx.in_try:
                self._exc_targets(n, ctx)
            return self._block(s.body, [(n, None)], ctx)
        if isinstance(s, ast.Try) or s.__class__.__name__ == "TryStar":
            return self._try(s, preds, ctx)
        if isinstance(s, ast.Return):
            n = self._new(s, "return")
            self._link(preds, n)
            if ctx.in_try and s.value is not None and \
                    self._may_raise(s.value):
                self._exc_targets(n, ctx)
            self._leave(n, ctx, EXIT)
            return []
        if isinstance(s, ast.Raise):
            n = self._new(s, "raise_stmt")
            self._link(preds, n)
            self._exc_targets(n, ctx)
            return []
        if isinstance(s, ast.Break):
            n = self._new(s, "break")
            self._link(preds, n)
            ctx.breaks.append(n)
            return []
        if isinstance(s, ast.Continue):
            n = self._new(s, "continue")
            self._link(preds, n)
            ctx.continues.append(n)
            return []
        if isinstance(s, (ast.FunctionDef, ast.AsyncFunctionDef,
                          ast.ClassDef)):
            n = self._new(s, "def")
            self._link(preds, n)
            return [(n, None)]
        # simple statement
        n = self._new(s, "stmt")
        self._link(preds, n)
        if ctx.in_try and self._may_raise(s):
            self._exc_targets(n, ctx)
        # sys.exit()/os._exit() never return
        if isinstance(s, ast.Expr) and isinstance(s.value, ast.Call):
            try:
                cn = ast.unparse(s.value.func)
            except Exception:
                cn = ""
            if cn in ("sys.exit", "os._exit", "exit", "quit"):
                self._exc_targets(n, ctx)
                return []
        return [(n, None)]

    def _leave(self, n, ctx, target):
        """return: run enclosing finally blocks, then go to target"""
        cur = [(n, None)]
        for fin in reversed(ctx.finals):
            cur = self._block(fin.body, cur, fin.ctx)
        self._link(cur, target)

    def _try(self, s, preds, ctx):
        # heads for handlers are created first so body statements can link
        handler_heads = []
        for h in s.handlers:
            hn = self._new(h, "except")
            handler_heads.append(hn)
        fin_exc_head = None
        has_final = bool(s.finalbody)
        targets = list(handler_heads)
        catch_all = any(h.type is None or
                        (isinstance(h.type, ast.Name) and
                         h.type.id in ("Exception", "BaseException"))
                        for h in s.handlers)
        if has_final:
            # exceptional copy of the finally block, continuing outward
            fin_exc_head = self._new(s, "finally_exc")
            if not catch_all:
                targets.append(fin_exc_head)
        elif not catch_all:
            # uncaught exceptions propagate outward
            outer = self._new(s, "propagate")
            targets.append(outer)
            self._exc_targets(outer, ctx)
        bctx = ctx.tryctx(targets,
                          _Final(s.finalbody, ctx) if has_final else None)
        body_out = self._block(s.body, preds, bctx)
        # else block: exceptions there are not caught by these handlers
        ectx = ctx.tryctx([fin_exc_head] if has_final else None,
                          _Final(s.finalbody, ctx) if has_final else None,
                          keep=not has_final)
        if s.orelse:
            body_out = self._block(s.orelse, body_out, ectx)
        outs = list(body_out)
        for h, hn in zip(s.handlers, handler_heads):
            outs += self._block(h.body, [(hn, None)], ectx)
        if has_final:
            outs = self._block(s.finalbody, outs, ctx)
            exc_out = self._block(s.finalbody, [(fin_exc_head, None)], ctx)
            for p, _ in exc_out:
                self._exc_targets(p, ctx)
        return outs

    # ---- queries -----------------------------------------------------
    def nodes_of(self, pred):
        return [n for n, s in self.stmt.items() if pred(s)]

    def nodes_for_stmt(self, s):
        return [n for n, st in self.stmt.items() if st is s]

    def reachable(self):
        return nx.descendants(self.g, ENTRY) | {ENTRY}

    def idom(self):
        if self._idom is None:
            self._idom = nx.immediate_dominators(self.g, ENTRY)
        return self._idom

    def dominates(self, a, b):
        idom = self.idom()
        if b not in idom:
            return False
        while True:
            if a == b:
                return True
            nb = idom.get(b)
            if nb is None or nb == b:
                return False
            b = nb

    def path_avoiding(self, src, dst, avoid, first_label=None):
        """Is there a path src ->+ dst not passing through any node of
        `avoid` (src and dst themselves are allowed)?  Returns the path or
        None."""
        avoid = set(avoid) - {src, dst}
        sub = self.g.subgraph([n for n in self.g if n not in avoid])
        if src not in sub or dst not in sub:
            return None
        starts = [v for v in sub.successors(src)
                  if first_label is None or
                  sub[src][v].get("label") == first_label]
        for v in starts:
            if v == dst:
                return [src, dst]
            try:
                p = nx.shortest_path(sub, v, dst)
                return [src] + p
            except nx.NetworkXNoPath:
                continue
        return None

    def describe(self, path):
        from .core import norm
        out = []
        for n in path:
            if n in (ENTRY, EXIT, RAISE):
                out.append(self.kind[n].upper())
            else:
                s = self.stmt[n]
                out.append("%s@%s" % (norm(s, 60), getattr(s, "lineno", "?")))
        return out


class _Final:
    def __init__(self, body, ctx):
        self.body = body
        self.ctx = ctx


class _Ctx:
    def __init__(self):
        self.handlers = []      # stack of lists of handler-head nodes
        self.finals = []        # stack of _Final
        self.breaks = []
        self.continues = []
        self.in_try = False

    def _copy(self):
        c = _Ctx()
        c.handlers = list(self.handlers)
        c.finals = list(self.finals)
        c.breaks = self.breaks
        c.continues = self.continues
        c.in_try = self.in_try
        return c

    def loop(self, head):
        c = self._copy()
        c.breaks = []
        c.continues = []
        return c

    def tryctx(self, targets, final, keep=False):
        c = self._copy()
        if targets:
            c.handlers = c.handlers + [targets]
            c.in_try = True
        elif not keep:
            pass
        if final is not None:
            c.finals = c.finals + [final]
        return c
