import argparse
import importlib
import json
import os
import sys

from . import core

ALL = ["C%02d" % i for i in range(1, 21)]


def explain(path):
    with open(path) as fh:
        r = json.load(fh)
    print("property : %s" % r["property"])
    print("rule     : %s  %s" % (r["rule"], r.get("rule_text", "")))
    print("where    : %s" % r["where"])
    print("construct: %s" % r["construct"])
    # resolve against the current tree
    f = os.path.join(core.REPO, r.get("file", ""))
    print("location : %s:%s (line as of the run that wrote the replay)" %
          (r.get("file"), r.get("line")))
    if os.path.isfile(f) and r.get("line"):
        with open(f) as fh:
            lines = fh.readlines()
        ln = int(r["line"])
        for i in range(max(0, ln - 3), min(len(lines), ln + 2)):
            print("  %5d%s %s" % (i + 1, ">" if i + 1 == ln else " ",
                                  lines[i].rstrip()))
    print("message  : %s" % r["message"])
    if r.get("facts"):
        print("facts    : %s" % json.dumps(r["facts"], default=str))
    if r.get("path"):
        print("path     : %s" % " -> ".join(map(str, r["path"])))
    print("key      : %s" % r["key"])
    return 0


def main(argv=None):
    ap = argparse.ArgumentParser()
    ap.add_argument("prop", nargs="?")
    ap.add_argument("--tier", default=os.environ.get("VERIF_TIER", "quick"),
                    choices=["quick", "thorough"])
    ap.add_argument("--explain")
    a = ap.parse_args(argv)
    if a.explain:
        return explain(a.explain)
    if not a.prop:
        ap.error("property id required")
    props = ALL if a.prop == "all" else [a.prop]
    worst = 0
    for p in props:
        try:
            mod = importlib.import_module("aegean_sa.props." + p.lower())
        except ModuleNotFoundError as e:
            if e.name and e.name.endswith(p.lower()):
                print("ANALYSIS-ERROR property=%s no check implemented" % p)
                worst = max(worst, 2)
                continue
            raise

        def runner(ctx, mod=mod):
            mod.run(ctx)
            if ctx.tier == "thorough":
                from . import selftest
                selftest.run(ctx, mod)
        code = core.run_check(p, a.tier, runner, mod.EXPLANATION,
                              mod.ASSUMPTIONS)
        worst = max(worst, code)
    return worst


if __name__ == "__main__":
    try:
        rc = main()
    except SystemExit:
        raise
    except Exception as e:  # pragma: no cover
        import traceback
        traceback.print_exc()
        print("ANALYSIS-ERROR %r" % (e,))
        rc = 2
    sys.stdout.flush()
    sys.exit(rc)
