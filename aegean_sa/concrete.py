"""Interpretation of small guard expressions of the analysed source over SAMPLE
values chosen by a rule (finite case analysis of a predicate; no repository
code runs -- only this evaluator over the expression's syntax tree).

Values: python numbers / bools, or lists of numbers standing for arrays
(operations are element-wise, with numpy's reductions)."""
from __future__ import annotations

import ast
import math

from .core import norm


class Unknown(Exception):
    pass


def _ints(a, b):
    return all(isinstance(x, int) and not isinstance(x, bool)
               for x in (a, b))


def with_locals(fnode, env):
    """env extended by the local names of fnode that are assigned exactly
    once from an expression that can be interpreted in env"""
    from .core import walk_no_nested
    env = dict(env)
    defs = {}
    for st in walk_no_nested(fnode):
        if isinstance(st, ast.Assign) and len(st.targets) == 1 and \
                isinstance(st.targets[0], ast.Name):
            defs.setdefault(st.targets[0].id, []).append(st.value)
        elif isinstance(st, (ast.AugAssign, ast.For)):
            for x in ast.walk(st.target):
                if isinstance(x, ast.Name):
                    defs.setdefault(x.id, []).extend([None, None])
    changed = True
    while changed:
        changed = False
        for k, vs in defs.items():
            if k in env or len(vs) != 1 or vs[0] is None:
                continue
            try:
                env[k] = ev(vs[0], env)
                changed = True
            except Exception:
                pass
    return env


def _ew(f, a, b):
    if isinstance(a, list) and isinstance(b, list):
        if len(a) != len(b):
            raise Unknown("shapes")
        return [f(x, y) for x, y in zip(a, b)]
    if isinstance(a, list):
        return [f(x, b) for x in a]
    if isinstance(b, list):
        return [f(a, y) for y in b]
    return f(a, b)


def _u(f, a):
    return [f(x) for x in a] if isinstance(a, list) else f(a)


def _red(f):
    return lambda a: f(a) if isinstance(a, list) else a


REDUCE = {
    "any": lambda a: any(bool(x) for x in a) if isinstance(a, list)
    else bool(a),
    "all": lambda a: all(bool(x) for x in a) if isinstance(a, list)
    else bool(a),
    "sum": _red(sum), "nansum": _red(lambda a: sum(x for x in a if x == x)),
    "max": _red(max), "min": _red(min), "amax": _red(max), "amin": _red(min),
    "nanmax": _red(lambda a: max(x for x in a if x == x)),
    "nanmin": _red(lambda a: min(x for x in a if x == x)),
    "count_nonzero": lambda a: sum(1 for x in a if x) if isinstance(a, list)
    else int(bool(a)),
    "mean": _red(lambda a: sum(a) / len(a)),
    "len": lambda a: len(a) if isinstance(a, list) else 1,
    "size": lambda a: len(a) if isinstance(a, list) else 1,
}
def _npdiv(a, b):
    """numpy's float division: x / 0 is +-inf (nan for 0 / 0)"""
    try:
        return a / b
    except ZeroDivisionError:
        if a == 0 or a != a:
            return float("nan")
        return float("inf") if a > 0 else float("-inf")


def _deg(x):
    return x * 180.0 / math.pi


def _rad(x):
    return x * math.pi / 180.0


BINARY = {"arctan2": math.atan2, "atan2": math.atan2, "hypot": math.hypot}
UNARY = {
    "cos": math.cos, "sin": math.sin, "tan": math.tan, "radians": _rad,
    "arctan": math.atan, "atan": math.atan, "arcsin": math.asin,
    "arccos": math.acos,
    "degrees": _deg, "deg2rad": _rad, "rad2deg": _deg,
    "abs": abs, "fabs": abs, "absolute": abs,
    "isfinite": lambda x: math.isfinite(x), "isnan": lambda x: x != x,
    "logical_not": lambda x: not x, "invert": lambda x: not x,
    "negative": lambda x: -x, "sign": lambda x: (x > 0) - (x < 0),
    "float": float, "bool": bool, "square": lambda x: x * x,
    "sqrt": lambda x: math.sqrt(x) if x >= 0 else float("nan"),
    "int": int,
}
CMP = {ast.Lt: lambda a, b: a < b, ast.LtE: lambda a, b: a <= b,
       ast.Gt: lambda a, b: a > b, ast.GtE: lambda a, b: a >= b,
       ast.Eq: lambda a, b: a == b, ast.NotEq: lambda a, b: a != b}
BIN = {ast.Add: lambda a, b: a + b, ast.Sub: lambda a, b: a - b,
       ast.Mult: lambda a, b: a * b, ast.Div: lambda a, b: _npdiv(a, b),
       ast.BitAnd: lambda a, b: (a & b) if _ints(a, b)
       else (bool(a) and bool(b)),
       ast.BitOr: lambda a, b: (a | b) if _ints(a, b)
       else (bool(a) or bool(b)),
       ast.Pow: lambda a, b: a ** b,
       ast.FloorDiv: lambda a, b: a // b, ast.Mod: lambda a, b: a % b}


def ev(e, env):
    """env maps normalised source text (names, attribute chains) to sample
    values"""
    k = norm(e)
    if k in env:
        return env[k]
    if isinstance(e, ast.Constant):
        return e.value
    if isinstance(e, ast.Attribute) and e.attr in ("T", "real"):
        return ev(e.value, env)
    if isinstance(e, ast.Attribute) and e.attr == "pi" and \
            norm(e.value) in ("np", "numpy", "math"):
        return math.pi
    if isinstance(e, ast.UnaryOp):
        v = ev(e.operand, env)
        if isinstance(e.op, ast.Not):
            if isinstance(v, list):
                raise Unknown("truth value of an array")
            return not v
        if isinstance(e.op, ast.USub):
            return _u(lambda x: -x, v)
        if isinstance(e.op, ast.Invert):
            return _u(lambda x: not x, v)
        return v
    if isinstance(e, ast.BoolOp):
        # python's short-circuit evaluation (x is None or x > 3)
        last = None
        for v_ in e.values:
            last = ev(v_, env)
            if isinstance(last, list):
                raise Unknown("truth value of an array")
            if isinstance(e.op, ast.And) and not last:
                return last
            if isinstance(e.op, ast.Or) and last:
                return last
        return last
    if isinstance(e, ast.BinOp) and type(e.op) in BIN:
        return _ew(BIN[type(e.op)], ev(e.left, env), ev(e.right, env))
    if isinstance(e, ast.Compare):
        left = ev(e.left, env)
        res = None
        for op, c in zip(e.ops, e.comparators):
            right = ev(c, env)
            if type(op) in (ast.Is, ast.IsNot):
                r = (left is right) if isinstance(op, ast.Is) \
                    else (left is not right)
            elif type(op) in CMP:
                r = _ew(CMP[type(op)], left, right)
            else:
                raise Unknown(norm(e))
            res = r if res is None else _ew(lambda a, b: a and b, res, r)
            left = right
        return res
    if isinstance(e, ast.IfExp):
        return ev(e.body, env) if ev(e.test, env) else ev(e.orelse, env)
    if isinstance(e, ast.Subscript) and isinstance(e.slice, ast.Constant) \
            and isinstance(e.slice.value, int):
        v = ev(e.value, env)
        if isinstance(v, list) and -len(v) <= e.slice.value < len(v):
            return v[e.slice.value]
        raise Unknown(k)
    if isinstance(e, ast.Subscript) and isinstance(e.slice, ast.UnaryOp) and \
            isinstance(e.slice.op, ast.USub) and \
            isinstance(e.slice.operand, ast.Constant) and \
            isinstance(e.slice.operand.value, int):
        v = ev(e.value, env)
        i_ = -e.slice.operand.value
        if isinstance(v, list) and -len(v) <= i_ < len(v):
            return v[i_]
        raise Unknown(k)
    if isinstance(e, ast.Attribute) and e.attr == "shape":
        v = ev(e.value, env)
        if isinstance(v, list):
            return [len(v)]
        raise Unknown(k)
    if isinstance(e, (ast.List, ast.Tuple)):
        return [ev(x, env) for x in e.elts]
    if isinstance(e, (ast.ListComp, ast.GeneratorExp)) and \
            len(e.generators) == 1 and \
            isinstance(e.generators[0].target, ast.Name):
        gen = e.generators[0]
        seq = ev(gen.iter, env)
        if not isinstance(seq, list):
            raise Unknown("iteration over a scalar")
        out = []
        for v in seq:
            env2 = dict(env)
            env2[gen.target.id] = v
            if all(ev(c, env2) for c in gen.ifs):
                out.append(ev(e.elt, env2))
        return out
    if isinstance(e, ast.Call):
        fn = norm(e.func)
        short = fn.split(".")[-1]
        # a helper of the analysed module (the rule supplies the candidates
        # under env["__funcs__"]): interpreted on the evaluated arguments
        funcs = env.get("__funcs__") or {}
        if isinstance(e.func, ast.Name) and e.func.id in funcs and \
                not e.keywords:
            hn = funcs[e.func.id]
            ps = [a.arg for a in hn.args.args]
            if len(e.args) <= len(ps):
                henv = {"__funcs__": funcs}
                for p_, a_ in zip(ps, e.args):
                    henv[p_] = ev(a_, env)
                out_, _ = call(hn, henv)
                return out_
        if isinstance(e.func, ast.Attribute) and e.func.attr == "format" \
                and isinstance(e.func.value, ast.Constant) and \
                isinstance(e.func.value.value, str) and not e.keywords:
            fargs = [ev(a, env) for a in e.args]
            if any(isinstance(a, list) for a in fargs):
                raise Unknown("format of an array")
            try:
                return e.func.value.value.format(*fargs)
            except Exception as ex:
                raise Unknown("format: %s" % ex)
        if isinstance(e.func, ast.Attribute) and not fn.startswith(
                ("np.", "numpy.", "math.")):
            # method form x.any()
            if short in REDUCE and not e.args:
                return REDUCE[short](ev(e.func.value, env))
            raise Unknown(fn)
        if short == "divmod" and isinstance(e.func, ast.Name) and \
                len(e.args) == 2:
            a_, b_ = ev(e.args[0], env), ev(e.args[1], env)
            if isinstance(a_, list) or isinstance(b_, list):
                raise Unknown("divmod of arrays")
            return list(divmod(a_, b_))
        if short == "round" and isinstance(e.func, ast.Name) and \
                1 <= len(e.args) <= 2:
            vs_ = [ev(a, env) for a in e.args]
            if isinstance(vs_[0], list):
                raise Unknown("round of an array")
            return round(*vs_)
        if short == "isinstance" and len(e.args) == 2 and \
                isinstance(e.func, ast.Name):
            v = ev(e.args[0], env)
            types = {"int": int, "float": float, "str": str, "bool": bool}
            names = [norm(t) for t in (e.args[1].elts if isinstance(
                e.args[1], ast.Tuple) else [e.args[1]])]
            if all(t in types for t in names):
                return isinstance(v, tuple(types[t] for t in names))
            raise Unknown(norm(e))
        args = [ev(a, env) for a in e.args]
        if short in REDUCE and len(args) == 1:
            return REDUCE[short](args[0])
        if short in UNARY and len(args) == 1:
            return _u(UNARY[short], args[0])
        if short in BINARY and len(args) == 2:
            return _ew(BINARY[short], args[0], args[1])
        if short in ("maximum", "minimum") and len(args) == 2:
            return _ew(max if short == "maximum" else min, *args)
        if short in ("max", "min") and len(args) >= 2 and \
                isinstance(e.func, ast.Name) and \
                not any(isinstance(a, list) for a in args):
            return (max if short == "max" else min)(args)
        if short in ("where", "nonzero") and len(args) == 1 and \
                isinstance(args[0], list):
            return [[i for i, v in enumerate(args[0]) if v]]
        if short in ("nanargmax", "nanargmin", "argmax", "argmin") and \
                len(args) == 1 and isinstance(args[0], list):
            vals = [(v, i) for i, v in enumerate(args[0]) if v == v]
            if not vals:
                raise Unknown("all-nan " + short)
            pick = max if "max" in short else min
            best = pick(v for v, _ in vals)
            return min(i for v, i in vals if v == best)
        if short == "unravel_index" and len(args) == 2:
            return [args[0] if isinstance(args[0], list) else [args[0]]]
        raise Unknown(fn)
    raise Unknown(k)


def run(stmts, env):
    """straight-line interpretation of Assign / AugAssign / If / Expr
    statements over env (mutated and returned); stores into attribute chains
    and names are recorded under their normalised text"""
    for st in stmts:
        if isinstance(st, ast.Assign):
            v = ev(st.value, env)
            for t in st.targets:
                if isinstance(t, (ast.Name, ast.Attribute)):
                    env[norm(t)] = v
                elif isinstance(t, (ast.Tuple, ast.List)) and \
                        isinstance(v, list) and len(v) == len(t.elts):
                    for tt, vv in zip(t.elts, v):
                        env[norm(tt)] = vv
                else:
                    raise Unknown("store " + norm(t))
        elif isinstance(st, ast.AugAssign):
            if type(st.op) not in BIN:
                raise Unknown(norm(st))
            cur = ev(st.target, env)
            env[norm(st.target)] = _ew(BIN[type(st.op)], cur,
                                       ev(st.value, env))
        elif isinstance(st, ast.If):
            run(st.body if ev(st.test, env) else st.orelse, env)
        elif isinstance(st, ast.While) and not st.orelse:
            n = 0
            while ev(st.test, env):
                run(st.body, env)
                n += 1
                if n > 10000:
                    raise Unknown("loop does not terminate on the sample")
        elif isinstance(st, ast.Return):
            raise Returned(None if st.value is None else ev(st.value, env))
        elif isinstance(st, (ast.Expr, ast.Pass)):
            continue
        else:
            raise Unknown(type(st).__name__)
    return env


class Returned(Exception):
    def __init__(self, value):
        self.value = value


def call(fnode, env):
    """interpret the body of a small function over sample arguments (env);
    returns (value, env)"""
    body = [s for s in fnode.body
            if not (isinstance(s, ast.Expr) and
                    isinstance(s.value, ast.Constant))]
    try:
        run(body, env)
    except Returned as r:
        return r.value, env
    return None, env
