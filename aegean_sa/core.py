"""
E0 -- program model, findings, evidence, known-findings and the check runner.

Everything here works on the *source* of /repo (ast only).  Nothing from the
repository is imported or executed.
"""
from __future__ import annotations

import ast
import hashlib
import json
import os
import sys
import time
import traceback
from dataclasses import dataclass, field

REPO = os.environ.get("AEGEAN_REPO", "/repo")
VERIF = os.path.dirname(os.path.dirname(os.path.abspath(__file__)))
PKG = "AegeanTools"


class AnalysisError(Exception):
    """The analysis could not be carried out (exit 2); never a verdict."""


# --------------------------------------------------------------------------
# program model
# --------------------------------------------------------------------------
@dataclass
class FuncInfo:
    qualname: str            # AegeanTools.regions.Region._renorm
    module: str              # AegeanTools.regions
    cls: str | None          # Region
    name: str
    node: ast.AST
    parent: "FuncInfo | None" = None   # enclosing function for nested defs

    @property
    def short(self):
        return self.qualname[len(PKG) + 1:]

    @property
    def params(self):
        a = self.node.args
        return [x.arg for x in a.posonlyargs + a.args + a.kwonlyargs]


@dataclass
class ClassInfo:
    qualname: str
    module: str
    name: str
    node: ast.ClassDef
    bases: list
    methods: dict = field(default_factory=dict)


@dataclass
class ModuleInfo:
    name: str
    path: str
    relpath: str
    source: str
    tree: ast.Module
    digest: str
    imports: dict = field(default_factory=dict)   # alias -> dotted target
    consts: dict = field(default_factory=dict)    # NAME -> ast expr


class Program:
    def __init__(self, root=REPO, inline=True):
        self.root = root
        self.inline = inline and not os.environ.get("AEGEAN_NO_INLINE")
        self.modules: dict[str, ModuleInfo] = {}
        self.functions: dict[str, FuncInfo] = {}
        self.classes: dict[str, ClassInfo] = {}
        self._load()

    # ---- loading ---------------------------------------------------------
    def _load(self):
        pkgdir = os.path.join(self.root, PKG)
        if not os.path.isdir(pkgdir):
            raise AnalysisError("package directory %s missing" % pkgdir)
        files = []
        for d, _, fs in os.walk(pkgdir):
            for f in sorted(fs):
                if f.endswith(".py"):
                    files.append(os.path.join(d, f))
        sdir = os.path.join(self.root, "scripts")
        if os.path.isdir(sdir):
            for f in sorted(os.listdir(sdir)):
                p = os.path.join(sdir, f)
                if os.path.isfile(p):
                    files.append(p)
        for p in sorted(files):
            rel = os.path.relpath(p, self.root)
            with open(p, "rb") as fh:
                raw = fh.read()
            try:
                src = raw.decode("utf-8")
                tree = ast.parse(src, filename=rel)
            except (SyntaxError, UnicodeDecodeError) as e:
                raise AnalysisError("cannot parse %s: %s" % (rel, e))
            if rel.startswith("scripts"):
                name = "scripts." + os.path.basename(p).replace(".py", "")
            else:
                name = rel[:-3].replace(os.sep, ".")
                if name.endswith(".__init__"):
                    name = name[: -len(".__init__")]
            mi = ModuleInfo(name, p, rel, src, tree,
                            hashlib.sha256(raw).hexdigest()[:16])
            self.modules[name] = mi
        # attribute names that are (re)bound anywhere outside an __init__:
        # an alias of any other attribute chain (`gdata = self.global_data`)
        # denotes the same object for the whole life of the instance
        self.rebound_attrs = set()
        for mi in self.modules.values():
            for fn in ast.walk(mi.tree):
                if isinstance(fn, (ast.FunctionDef, ast.AsyncFunctionDef)) \
                        and fn.name != "__init__":
                    for x in ast.walk(fn):
                        if isinstance(x, ast.Attribute) and \
                                isinstance(x.ctx, (ast.Store, ast.Del)):
                            self.rebound_attrs.add(x.attr)
            for x in ast.walk(mi.tree):
                if isinstance(x, ast.Call) and \
                        isinstance(x.func, ast.Name) and \
                        x.func.id in ("setattr", "delattr"):
                    # dynamic attribute stores: give up on alias folding of
                    # literal names, and entirely when the name is computed
                    if len(x.args) >= 2 and \
                            isinstance(x.args[1], ast.Constant):
                        self.rebound_attrs.add(x.args[1].value)
        for mi in self.modules.values():
            self._index(mi)

    def _index(self, mi: ModuleInfo):
        if self.inline:
            normalise_fstrings(mi.tree)
            split_parallel_assign(mi.tree)
            inline_private_helpers(mi.tree)
            split_parallel_assign(mi.tree)
            for n in ast.walk(mi.tree):
                if isinstance(n, (ast.FunctionDef, ast.AsyncFunctionDef)):
                    inline_local_procedures(n)
            for n in ast.walk(mi.tree):
                if isinstance(n, (ast.FunctionDef, ast.AsyncFunctionDef)):
                    inline_pure_locals(n, stable_attr=lambda a: a not in
                                       self.rebound_attrs)
        pkgparts = mi.name.split(".")
        for node in mi.tree.body:
            if isinstance(node, ast.Import):
                for a in node.names:
                    mi.imports[a.asname or a.name.split(".")[0]] = (
                        a.name if a.asname else a.name.split(".")[0])
            elif isinstance(node, ast.ImportFrom):
                base = node.module or ""
                if node.level:
                    up = pkgparts[: len(pkgparts) - node.level]
                    base = ".".join(up + ([base] if base else []))
                if base.endswith(".__init__"):
                    base = base[: -len(".__init__")]
                for a in node.names:
                    mi.imports[a.asname or a.name] = base + "." + a.name
            elif isinstance(node, ast.Assign) and len(node.targets) == 1 \
                    and isinstance(node.targets[0], ast.Name):
                mi.consts[node.targets[0].id] = node.value
        self._index_defs(mi, mi.tree.body, mi.name, None, None)

    def _index_defs(self, mi, body, prefix, cls, parent):
        for node in body:
            if isinstance(node, (ast.FunctionDef, ast.AsyncFunctionDef)):
                q = prefix + "." + node.name
                fi = FuncInfo(q, mi.name, cls, node.name, node, parent)
                self.functions[q] = fi
                if cls and parent is None:
                    self.classes[mi.name + "." + cls].methods[node.name] = fi
                # nested defs
                self._index_defs(mi, node.body, q, cls, fi)
            elif isinstance(node, ast.ClassDef) and parent is None:
                q = prefix + "." + node.name
                self.classes[q] = ClassInfo(
                    q, mi.name, node.name, node,
                    [ast.unparse(b) for b in node.bases])
                self._index_defs(mi, node.body, q, node.name, None)
            elif isinstance(node, (ast.If, ast.Try, ast.With, ast.For,
                                   ast.While)) and parent is not None:
                # nested defs inside compound statements of a function
                for sub in ast.iter_child_nodes(node):
                    if isinstance(sub, (ast.FunctionDef,)):
                        self._index_defs(mi, [sub], prefix, cls, parent)

    # ---- look-ups --------------------------------------------------------
    def func(self, short: str) -> FuncInfo:
        """short = 'regions.Region._renorm' ; anchor vanished -> exit 2"""
        q = PKG + "." + short
        if q not in self.functions:
            raise AnalysisError("anchor function %s not found" % short)
        return self.functions[q]

    def has_func(self, short):
        return PKG + "." + short in self.functions

    def klass(self, short: str) -> ClassInfo:
        q = PKG + "." + short
        if q not in self.classes:
            raise AnalysisError("anchor class %s not found" % short)
        return self.classes[q]

    def module(self, short: str) -> ModuleInfo:
        q = PKG + "." + short if short else PKG
        if q not in self.modules:
            raise AnalysisError("anchor module %s not found" % short)
        return self.modules[q]

    def resolve_name(self, mod: ModuleInfo, name: str):
        """Resolve a bare name used in module `mod` to a dotted target
        (repo function/class qualname or external dotted path) or None."""
        if name in mod.imports:
            return mod.imports[name]
        q = mod.name + "." + name
        if q in self.functions or q in self.classes:
            return q
        if name in mod.consts:
            return q
        return None

    def dotted(self, mod: ModuleInfo, node) -> str | None:
        """Dotted external/internal path of an attribute chain expression,
        with the root alias resolved through the module's imports."""
        parts = []
        while isinstance(node, ast.Attribute):
            parts.append(node.attr)
            node = node.value
        if not isinstance(node, ast.Name):
            return None
        root = self.resolve_name(mod, node.id)
        if root is None:
            return None
        return ".".join([root] + parts[::-1])

    def files_analysed(self):
        return [{"file": m.relpath, "sha256_16": m.digest}
                for m in self.modules.values()]

    def const_value(self, mod: ModuleInfo, node, depth=0):
        """Constant-fold an expression (numbers, math/np constants, module
        constants).  Returns a float/int/str/tuple or None."""
        import math
        if depth > 20:
            return None
        if isinstance(node, ast.Constant):
            return node.value
        if isinstance(node, ast.Name):
            if node.id in mod.consts:
                return self.const_value(mod, mod.consts[node.id], depth + 1)
            tgt = mod.imports.get(node.id)
            if tgt and tgt.startswith(PKG):
                m, _, n = tgt.rpartition(".")
                if m in self.modules and n in self.modules[m].consts:
                    return self.const_value(self.modules[m],
                                            self.modules[m].consts[n],
                                            depth + 1)
            return None
        if isinstance(node, ast.Attribute):
            d = self.dotted(mod, node)
            if d in ("numpy.pi", "math.pi"):
                return math.pi
            if d in ("numpy.e", "math.e"):
                return math.e
            if d in ("numpy.inf", "math.inf"):
                return math.inf
            if d and d.startswith(PKG):
                m, _, n = d.rpartition(".")
                if m in self.modules and n in self.modules[m].consts:
                    return self.const_value(self.modules[m],
                                            self.modules[m].consts[n],
                                            depth + 1)
            return None
        if isinstance(node, ast.UnaryOp):
            v = self.const_value(mod, node.operand, depth + 1)
            if isinstance(v, (int, float)):
                if isinstance(node.op, ast.USub):
                    return -v
                if isinstance(node.op, ast.UAdd):
                    return v
            return None
        if isinstance(node, ast.BinOp):
            a = self.const_value(mod, node.left, depth + 1)
            b = self.const_value(mod, node.right, depth + 1)
            if isinstance(a, (int, float)) and isinstance(b, (int, float)):
                try:
                    if isinstance(node.op, ast.Add):
                        return a + b
                    if isinstance(node.op, ast.Sub):
                        return a - b
                    if isinstance(node.op, ast.Mult):
                        return a * b
                    if isinstance(node.op, ast.Div):
                        return a / b
                    if isinstance(node.op, ast.FloorDiv):
                        return a // b
                    if isinstance(node.op, ast.Pow):
                        return a ** b
                    if isinstance(node.op, ast.Mod):
                        return a % b
                    if isinstance(node.op, ast.BitOr) and \
                            isinstance(a, int) and isinstance(b, int):
                        return a | b
                    if isinstance(node.op, ast.LShift):
                        return a << b
                except Exception:
                    return None
            return None
        if isinstance(node, ast.Call):
            d = self.dotted(mod, node.func)
            args = [self.const_value(mod, a, depth + 1) for a in node.args]
            if any(not isinstance(a, (int, float)) for a in args) or \
                    node.keywords:
                return None
            fn = {"math.sqrt": math.sqrt, "numpy.sqrt": math.sqrt,
                  "math.log": math.log, "numpy.log": math.log,
                  "math.radians": math.radians, "numpy.radians": math.radians,
                  "math.degrees": math.degrees, "numpy.degrees": math.degrees,
                  }.get(d)
            if fn is None and isinstance(node.func, ast.Name) and \
                    node.func.id in ("float", "int", "abs"):
                fn = {"float": float, "int": int, "abs": abs}[node.func.id]
            if fn:
                try:
                    return fn(*args)
                except Exception:
                    return None
            return None
        if isinstance(node, ast.Tuple):
            vs = [self.const_value(mod, e, depth + 1) for e in node.elts]
            return None if any(v is None for v in vs) else tuple(vs)
        return None


# --------------------------------------------------------------------------
# normalisation: named pure intermediates are folded into their uses
# --------------------------------------------------------------------------
PURE_CALLS = {"min", "max", "int", "len"}
_ARITH_OPS = (ast.Add, ast.Sub, ast.Mult, ast.FloorDiv, ast.Pow, ast.LShift,
              ast.RShift, ast.Mod)


def _pure_expr(e):
    """integer-style arithmetic over names / attributes / literals, or
    min/max/int/len of such: `2**depth`, `4**(d - self.maxdepth)`, `4*p`,
    `min(self.maxdepth, other.maxdepth)`, `ymin - data_row_min`"""
    if not isinstance(e, (ast.BinOp, ast.Call)):
        return False          # plain aliases and literals stay named
    for n in ast.walk(e):
        if isinstance(n, ast.Call):
            try:
                fn = ast.unparse(n.func)
            except Exception:
                return False
            if fn not in PURE_CALLS or n.keywords:
                return False
        elif isinstance(n, ast.BinOp):
            if not isinstance(n.op, _ARITH_OPS):
                return False
        elif isinstance(n, ast.UnaryOp):
            if not isinstance(n.op, (ast.USub, ast.UAdd)):
                return False
        elif isinstance(n, ast.Constant):
            if not isinstance(n.value, int) or isinstance(n.value, bool):
                return False
        elif isinstance(n, ast.Attribute):
            if not isinstance(n.value, ast.Name):
                return False
        elif not isinstance(n, (ast.Name, ast.Load, ast.operator,
                                ast.unaryop)):
            return False
    return True


def inline_local_procedures(fnode):
    """Replace every statement  h(args)  that calls a local procedure h --
    a nested def of this function that returns no value -- by h's body with
    the parameters substituted (h's own locals get fresh names).  The rules
    then see the same statements whether or not the author wrapped them in a
    closure such as `fill_vals(which)` / `interp_vals(dest)`.  The def stays;
    it is marked `_inlined` when every reference to it was such a call."""
    import copy
    procs = {}
    for st in fnode.body:
        if not isinstance(st, ast.FunctionDef) or st.decorator_list:
            continue
        a = st.args
        if a.vararg or a.kwarg or a.kwonlyargs or a.posonlyargs:
            continue
        ok = True
        body = list(st.body)
        if body and isinstance(body[0], ast.Expr) and \
                isinstance(body[0].value, ast.Constant) and \
                isinstance(body[0].value.value, str):
            body = body[1:]
        if body and isinstance(body[-1], ast.Return) and \
                body[-1].value is None:
            body = body[:-1]
        for x in body:
            for y in ast.walk(x):
                if isinstance(y, (ast.Return, ast.Yield, ast.YieldFrom,
                                  ast.Nonlocal, ast.Global, ast.FunctionDef,
                                  ast.AsyncFunctionDef, ast.ClassDef,
                                  ast.Lambda, ast.Await)):
                    ok = False
        if not ok or not body:
            continue
        if st.name in procs:
            procs[st.name] = None        # defined twice
        else:
            procs[st.name] = (st, body)
    procs = {k: v for k, v in procs.items() if v}
    if not procs:
        return 0
    # any other binding of the name disqualifies it
    for x in walk_no_nested(fnode):
        if isinstance(x, ast.Name) and isinstance(x.ctx, ast.Store) and \
                x.id in procs:
            procs.pop(x.id)
    if not procs:
        return 0

    def simple(e):
        if isinstance(e, (ast.Constant, ast.Name)):
            return True
        if isinstance(e, ast.Attribute):
            return simple(e.value)
        if isinstance(e, ast.UnaryOp) and isinstance(e.op, ast.USub):
            return simple(e.operand)
        return False
    counter = [0]
    refs = {k: 0 for k in procs}
    inlined = {k: 0 for k in procs}
    for x in walk_no_nested(fnode):
        if isinstance(x, ast.Name) and isinstance(x.ctx, ast.Load) and \
                x.id in procs:
            refs[x.id] += 1
    # references from inside nested defs keep the procedure alive
    for st in fnode.body:
        if isinstance(st, (ast.FunctionDef, ast.AsyncFunctionDef,
                           ast.ClassDef)):
            for x in ast.walk(st):
                if isinstance(x, ast.Name) and x.id in procs and \
                        x.id != getattr(st, "name", None):
                    refs[x.id] += 100

    def expand(call_stmt):
        call = call_stmt.value
        st, body = procs[call.func.id]
        params = [p.arg for p in st.args.args]
        if len(call.args) > len(params) or any(
                isinstance(z, ast.Starred) for z in call.args):
            return None
        bind = dict(zip(params, call.args))
        for kw in call.keywords:
            if kw.arg is None or kw.arg not in params or kw.arg in bind:
                return None
            bind[kw.arg] = kw.value
        defaults = st.args.defaults
        for p_, d in zip(params[len(params) - len(defaults):], defaults):
            bind.setdefault(p_, d)
        if set(bind) != set(params) or not all(simple(v)
                                               for v in bind.values()):
            return None
        counter[0] += 1
        tag = "__%s%d" % (st.name, counter[0])
        new = [copy.deepcopy(b) for b in body]
        stored = set()
        for b in new:
            for y in ast.walk(b):
                if isinstance(y, ast.Name) and isinstance(
                        y.ctx, (ast.Store, ast.Del)):
                    stored.add(y.id)
                if isinstance(y, ast.ExceptHandler) and y.name:
                    stored.add(y.name)
        pre = []
        for p_ in params:
            if p_ in stored:
                pre.append(ast.Assign(
                    targets=[ast.Name(id=p_ + tag, ctx=ast.Store())],
                    value=copy.deepcopy(bind[p_])))

        class Sub(ast.NodeTransformer):
            def visit_Name(self, nd):
                if nd.id in stored:
                    return ast.copy_location(
                        ast.Name(id=nd.id + tag, ctx=nd.ctx), nd)
                if nd.id in bind and isinstance(nd.ctx, ast.Load):
                    return copy.deepcopy(bind[nd.id])
                return nd

            def visit_ExceptHandler(self, nd):
                self.generic_visit(nd)
                if nd.name in stored:
                    nd.name = nd.name + tag
                return nd
        out = pre + [Sub().visit(b) for b in new]
        for b in out:
            for y in ast.walk(b):
                if isinstance(y, (ast.expr, ast.stmt, ast.excepthandler)):
                    y.lineno = call_stmt.lineno
                    y.end_lineno = getattr(call_stmt, "end_lineno",
                                           call_stmt.lineno)
                    y.col_offset = call_stmt.col_offset
                    y.end_col_offset = getattr(call_stmt, "end_col_offset",
                                               0)
            ast.fix_missing_locations(b)
        return out

    def rewrite(stmts, after):
        k = 0
        while k < len(stmts):
            s_ = stmts[k]
            if isinstance(s_, (ast.FunctionDef, ast.AsyncFunctionDef,
                               ast.ClassDef)):
                k += 1
                continue
            if isinstance(s_, ast.Expr) and isinstance(s_.value, ast.Call) \
                    and isinstance(s_.value.func, ast.Name) and \
                    s_.value.func.id in procs and \
                    s_.lineno > procs[s_.value.func.id][0].lineno:
                rep = expand(s_)
                if rep is not None:
                    inlined[s_.value.func.id] += 1
                    stmts[k:k + 1] = rep
                    k += len(rep)
                    continue
            for fld in ("body", "orelse", "finalbody"):
                sub = getattr(s_, fld, None)
                if isinstance(sub, list) and sub and \
                        isinstance(sub[0], ast.stmt):
                    rewrite(sub, after)
            for h in getattr(s_, "handlers", []) or []:
                rewrite(h.body, after)
            k += 1
    rewrite(fnode.body, None)
    total = 0
    for name, (st, body) in procs.items():
        total += inlined[name]
        if inlined[name] and inlined[name] == refs[name]:
            st._inlined = True
    return total


def normalise_fstrings(tree):
    """f"c{i}_"  ->  "c{0}_".format(i): one canonical form for string
    templates, so that rules written for str.format also see f-strings
    (format specs and !r / !s conversions are carried into the template;
    f-strings that are only logged stay as they are harmlessly rewritten)."""
    class T(ast.NodeTransformer):
        def visit_JoinedStr(self, node):
            self.generic_visit(node)
            tmpl, args = [], []
            for v in node.values:
                if isinstance(v, ast.Constant) and isinstance(v.value, str):
                    tmpl.append(v.value.replace("{", "{{").replace("}", "}}"))
                elif isinstance(v, ast.FormattedValue):
                    spec = ""
                    fs = v.format_spec
                    if isinstance(fs, ast.Constant):
                        # (a constant spec was already folded by this pass)
                        spec = ":" + str(fs.value)
                    elif fs is not None:
                        if not (isinstance(fs, ast.JoinedStr) and
                                all(isinstance(x, ast.Constant)
                                    for x in fs.values)):
                            return node
                        spec = ":" + "".join(x.value for x in fs.values)
                    conv = {-1: "", 115: "!s", 114: "!r", 97: "!a"}.get(
                        v.conversion, None)
                    if conv is None:
                        return node
                    tmpl.append("{%d%s%s}" % (len(args), conv, spec))
                    args.append(v.value)
                else:
                    return node
            if not args:
                return ast.copy_location(ast.Constant(value="".join(
                    t.replace("{{", "{").replace("}}", "}") for t in tmpl)),
                    node)
            call = ast.Call(
                func=ast.Attribute(value=ast.Constant(value="".join(tmpl)),
                                   attr="format", ctx=ast.Load()),
                args=args, keywords=[])
            return ast.fix_missing_locations(ast.copy_location(call, node))
    T().visit(tree)
    return tree


def split_parallel_assign(tree):
    """a, b = x, y  ->  a = x; b = y  when no name stored on the left occurs
    on the right (so the order of the stores cannot matter; swaps such as
    a, b = b, a stay as they are)"""
    class T(ast.NodeTransformer):
        def visit_Assign(self, node):
            if len(node.targets) != 1:
                return node
            t, v = node.targets[0], node.value
            if not (isinstance(t, (ast.Tuple, ast.List)) and
                    isinstance(v, (ast.Tuple, ast.List)) and
                    len(t.elts) == len(v.elts) and len(t.elts) > 1):
                return node
            if any(isinstance(e, ast.Starred) for e in t.elts + v.elts):
                return node
            if not all(isinstance(e, ast.Name) for e in t.elts):
                return node
            lhs = {e.id for e in t.elts}
            rhs = {x.id for e in v.elts for x in ast.walk(e)
                   if isinstance(x, ast.Name)}
            if lhs & rhs or len(lhs) != len(t.elts):
                return node
            if any(isinstance(x, (ast.Call, ast.Await, ast.Yield,
                                  ast.NamedExpr))
                   for e in v.elts[1:] for x in ast.walk(e)) and \
                    any(isinstance(x, ast.Call) for x in ast.walk(v.elts[0])):
                pass      # evaluation order is left to right either way
            out = []
            for te, ve in zip(t.elts, v.elts):
                a = ast.Assign(targets=[te], value=ve)
                ast.copy_location(a, node)
                a.end_lineno = getattr(node, "end_lineno", None)
                out.append(ast.fix_missing_locations(a))
            return out
    T().visit(tree)
    return tree


def inline_private_helpers(tree):
    """Module-private helpers that are used exactly once: a module-level
    function `_h(...)` or a method `self._h(...)` whose name starts with an
    underscore, is referenced once in the module (as the callee of a call in
    a plain statement of another function of the same module / class), and
    whose body is straight-line code that ends in a single `return <expr>`
    (or returns nothing).  The call is replaced by the returned expression
    and the helper's statements are inserted before the calling statement
    (parameters bound to fresh names, locals renamed), so that rules see the
    same code whether or not the author extracted the helper.  The helper's
    def stays (marked `_inlined`).  Returns the number of calls inlined."""
    import copy
    cands = {}

    def consider(fn, cls):
        if not fn.name.startswith("_") or fn.name.startswith("__") or \
                fn.decorator_list:
            return
        a = fn.args
        if a.vararg or a.kwarg or a.kwonlyargs or a.posonlyargs:
            return
        body = list(fn.body)
        if body and isinstance(body[0], ast.Expr) and \
                isinstance(body[0].value, ast.Constant) and \
                isinstance(body[0].value.value, str):
            body = body[1:]
        ret = None
        if body and isinstance(body[-1], ast.Return):
            ret = body[-1].value
            body = body[:-1]
        for x in body:
            for y in ast.walk(x):
                if isinstance(y, (ast.Return, ast.Yield, ast.YieldFrom,
                                  ast.Nonlocal, ast.Global, ast.FunctionDef,
                                  ast.AsyncFunctionDef, ast.ClassDef,
                                  ast.Lambda, ast.Await)):
                    return
        if ret is not None and any(isinstance(y, (ast.Lambda, ast.Yield,
                                                   ast.Await))
                                   for y in ast.walk(ret)):
            return
        if sum(isinstance(y, ast.stmt) for x in body
               for y in ast.walk(x)) > 25:
            return
        key = (cls, fn.name)
        cands[key] = None if key in cands else (fn, body, ret)
    for st in tree.body:
        if isinstance(st, ast.FunctionDef):
            consider(st, None)
        elif isinstance(st, ast.ClassDef):
            for m in st.body:
                if isinstance(m, ast.FunctionDef):
                    consider(m, st.name)
    cands = {k: v for k, v in cands.items() if v}
    if not cands:
        return 0
    # reference counts over the whole module
    refs = {k: 0 for k in cands}
    for x in ast.walk(tree):
        if isinstance(x, ast.Name) and isinstance(x.ctx, ast.Load) and \
                (None, x.id) in refs:
            refs[(None, x.id)] += 1
        if isinstance(x, ast.Attribute):
            for (cls, nm) in refs:
                if cls is not None and x.attr == nm:
                    refs[(cls, nm)] += 1
    # names exported / used dynamically keep their definition untouched
    for x in ast.walk(tree):
        if isinstance(x, ast.Constant) and isinstance(x.value, str):
            for (cls, nm) in list(refs):
                if x.value == nm:
                    refs[(cls, nm)] += 100
    # every reference must be the callee of a direct call
    ncalls = {k: 0 for k in cands}
    for x in ast.walk(tree):
        if isinstance(x, ast.Call):
            f = x.func
            if isinstance(f, ast.Name) and (None, f.id) in ncalls:
                ncalls[(None, f.id)] += 1
            if isinstance(f, ast.Attribute) and \
                    isinstance(f.value, ast.Name) and f.value.id == "self":
                for (cls, nm) in ncalls:
                    if cls is not None and f.attr == nm:
                        ncalls[(cls, nm)] += 1
    def _size(v):
        return sum(isinstance(y, ast.stmt) for x in v[1] for y in ast.walk(x))
    # used once: up to 25 statements; module-level functions used a few
    # times: tiny helpers only (methods are often roles of their own)
    cands = {k: v for k, v in cands.items()
             if refs[k] == ncalls[k] and (
                 refs[k] == 1 or (k[0] is None and 2 <= refs[k] <= 6
                                  and _size(v) <= 6))}
    if not cands:
        return 0
    done_calls = {k: 0 for k in cands}
    counter = [0]
    total = [0]

    def callee_key(call, cls):
        f = call.func
        if isinstance(f, ast.Name) and (None, f.id) in cands:
            return (None, f.id)
        if isinstance(f, ast.Attribute) and isinstance(f.value, ast.Name) \
                and f.value.id == "self" and (cls, f.attr) in cands:
            return (cls, f.attr)
        return None

    def expand(call, key, at):
        fn, body, ret = cands[key]
        params = [p_.arg for p_ in fn.args.args]
        args = list(call.args)
        if key[0] is not None:
            if not params or params[0] != "self":
                return None
            args = [ast.Name(id="self", ctx=ast.Load())] + args
        if len(args) > len(params) or any(isinstance(z, ast.Starred)
                                          for z in args):
            return None
        bind = dict(zip(params, args))
        for kw in call.keywords:
            if kw.arg is None or kw.arg not in params or kw.arg in bind:
                return None
            bind[kw.arg] = kw.value
        defaults = fn.args.defaults
        for p_, d in zip(params[len(params) - len(defaults):], defaults):
            bind.setdefault(p_, d)
        if set(bind) != set(params):
            return None
        counter[0] += 1
        tag = "__%s%d" % (fn.name.lstrip("_"), counter[0])
        new = [copy.deepcopy(b) for b in body]
        newret = copy.deepcopy(ret) if ret is not None else \
            ast.Constant(value=None)
        stored = set()
        for b in new:
            for y in ast.walk(b):
                if isinstance(y, ast.Name) and isinstance(
                        y.ctx, (ast.Store, ast.Del)):
                    stored.add(y.id)
                if isinstance(y, ast.ExceptHandler) and y.name:
                    stored.add(y.name)

        def simple(e):
            """an access path that can be repeated wherever the parameter
            is used (no call in it)"""
            if isinstance(e, (ast.Constant, ast.Name)):
                return True
            if isinstance(e, ast.Attribute):
                return simple(e.value)
            if isinstance(e, ast.Subscript):
                return simple(e.value) and not any(
                    isinstance(y, (ast.Call, ast.Lambda, ast.Yield))
                    for y in ast.walk(e.slice))
            return False
        pre = []
        subst = {}
        for p_ in params:
            if p_ in stored or not simple(bind[p_]):
                pre.append(ast.Assign(
                    targets=[ast.Name(id=p_ + tag, ctx=ast.Store())],
                    value=copy.deepcopy(bind[p_])))
                stored.add(p_)
            else:
                subst[p_] = bind[p_]

        class Sub(ast.NodeTransformer):
            def visit_Name(self, nd):
                if nd.id in stored:
                    return ast.copy_location(
                        ast.Name(id=nd.id + tag, ctx=nd.ctx), nd)
                if nd.id in subst and isinstance(nd.ctx, ast.Load):
                    return copy.deepcopy(subst[nd.id])
                return nd

            def visit_ExceptHandler(self, nd):
                self.generic_visit(nd)
                if nd.name in stored:
                    nd.name = nd.name + tag
                return nd
        out = pre + [Sub().visit(b) for b in new]
        newret = Sub().visit(newret)
        for b in out + [newret]:
            for y in ast.walk(b):
                if isinstance(y, (ast.expr, ast.stmt, ast.excepthandler)):
                    y.lineno = at.lineno
                    y.end_lineno = getattr(at, "end_lineno", at.lineno)
                    y.col_offset = at.col_offset
                    y.end_col_offset = getattr(at, "end_col_offset", 0)
            ast.fix_missing_locations(b)
        return out, newret

    def header_exprs(s_):
        """(owner, field) pairs of the expressions evaluated once when the
        statement is reached"""
        if isinstance(s_, (ast.Assign, ast.AugAssign, ast.Expr, ast.Return,
                           ast.AnnAssign)):
            return [(s_, "value")] if getattr(s_, "value", None) is not None \
                else []
        if isinstance(s_, ast.If):
            return [(s_, "test")]
        if isinstance(s_, ast.For):
            return [(s_, "iter")]
        return []

    def rewrite(stmts, cls, owner_fn):
        k = 0
        while k < len(stmts):
            s_ = stmts[k]
            if isinstance(s_, (ast.FunctionDef, ast.AsyncFunctionDef,
                               ast.ClassDef)):
                k += 1
                continue
            done = False
            for own, fld in header_exprs(s_):
                root = getattr(own, fld)
                calls = [c for c in ast.walk(root) if isinstance(c, ast.Call)
                         and callee_key(c, cls)]
                # not inside a comprehension / lambda / conditional part
                lazy = [y for z in ast.walk(root) if isinstance(
                    z, (ast.ListComp, ast.SetComp, ast.DictComp,
                        ast.GeneratorExp, ast.Lambda, ast.IfExp, ast.BoolOp))
                        for y in ast.walk(z)]
                calls = [c for c in calls if not any(c is y for y in lazy)
                         or isinstance(root, ast.UnaryOp)]
                calls = [c for c in calls
                         if not any(c is y for y in lazy)]
                if len(calls) != 1:
                    continue
                c = calls[0]
                key = callee_key(c, cls)
                if cands[key][0] is owner_fn:
                    continue
                rep = expand(c, key, s_)
                if rep is None:
                    continue
                pre, newret = rep

                # (rules that ask "does this value come from h()?" still
                # get their answer: the expression remembers its origin)
                newret._inlined_from = (
                    "self." + key[1] if key[0] is not None else key[1])

                class Put(ast.NodeTransformer):
                    def visit_Call(self, nd):
                        if nd is c:
                            return newret
                        self.generic_visit(nd)
                        return nd
                setattr(own, fld, Put().visit(root))
                stmts[k:k] = pre
                k += len(pre)
                done_calls[key] += 1
                if done_calls[key] == ncalls[key]:
                    cands[key][0]._inlined = True
                total[0] += 1
                done = True
                break
            for fld in ("body", "orelse", "finalbody"):
                sub = getattr(s_, fld, None)
                if isinstance(sub, list) and sub and \
                        isinstance(sub[0], ast.stmt):
                    rewrite(sub, cls, owner_fn)
            for h in getattr(s_, "handlers", []) or []:
                rewrite(h.body, cls, owner_fn)
            k += 1
    for st in tree.body:
        if isinstance(st, ast.FunctionDef):
            rewrite(st.body, None, st)
        elif isinstance(st, ast.ClassDef):
            for m in st.body:
                if isinstance(m, ast.FunctionDef):
                    rewrite(m.body, st.name, m)
    return total[0]


def param_deps(fnode, atom=None, control=True, envs=None):
    """(atom: optional function expr -> set of labels | None giving extra
    dependency sources such as  model[prefix + 'amp'].stderr -> {'amp'};
    control: include control dependence; envs: optional list that receives
    (return node, {name or attribute text: deps}) at every return)

    Flow-sensitive dependency analysis of a function without nested
    control transfer surprises: for every `return`, the set of PARAMETERS
    each returned element may depend on (through assignments, augmented
    assignments, branches are joined, loops iterated to a fixpoint;
    control dependence on branch tests is included).
    Returns [(return node, [set(param names) per element])]."""
    params = [a.arg for a in fnode.args.posonlyargs + fnode.args.args +
              fnode.args.kwonlyargs]
    out = []

    def deps(e, env):
        d = set()
        stack = [e]
        while stack:
            x = stack.pop()
            if atom is not None:
                a = atom(x)
                if a is not None:
                    d |= a
                    continue
            if isinstance(x, ast.Name) and isinstance(x.ctx, ast.Load):
                d |= env.get(x.id, set())
            elif isinstance(x, ast.Attribute) and norm(x) in env:
                d |= env[norm(x)]
                continue
            stack.extend(ast.iter_child_nodes(x))
        return d

    def assign(t, d, env, aug=False):
        if isinstance(t, ast.Name):
            env[t.id] = (env.get(t.id, set()) | d) if aug else set(d)
        elif isinstance(t, (ast.Tuple, ast.List)):
            for el in t.elts:
                assign(el, d, env, aug)
        elif isinstance(t, ast.Starred):
            assign(t.value, d, env, aug)
        elif isinstance(t, ast.Attribute):
            k = norm(t)
            env[k] = (env.get(k, set()) | d) if aug else set(d)
        elif isinstance(t, ast.Subscript):
            b = t
            while isinstance(b, (ast.Subscript, ast.Attribute)):
                b = b.value
            if isinstance(b, ast.Name):
                env[b.id] = env.get(b.id, set()) | d | deps(t.slice, env)

    def join(a, b):
        return {k: a.get(k, set()) | b.get(k, set())
                for k in set(a) | set(b)}

    def block(stmts, env, ctl):
        for st in stmts:
            if isinstance(st, ast.Assign):
                d = deps(st.value, env) | ctl
                if isinstance(st.value, (ast.Tuple, ast.List)) and \
                        len(st.targets) == 1 and \
                        isinstance(st.targets[0], (ast.Tuple, ast.List)) and \
                        len(st.targets[0].elts) == len(st.value.elts):
                    ds = [deps(v, env) | ctl for v in st.value.elts]
                    for t_, d_ in zip(st.targets[0].elts, ds):
                        assign(t_, d_, env)
                else:
                    for t in st.targets:
                        assign(t, d, env)
            elif isinstance(st, ast.AugAssign):
                assign(st.target, deps(st.value, env) | ctl, env, aug=True)
            elif isinstance(st, ast.AnnAssign) and st.value is not None:
                assign(st.target, deps(st.value, env) | ctl, env)
            elif isinstance(st, ast.Return):
                v = st.value
                if envs is not None:
                    envs.append((st, {k: set(v_) for k, v_ in env.items()}))
                if isinstance(v, ast.Tuple):
                    out.append((st, [deps(e, env) | ctl for e in v.elts]))
                elif v is not None:
                    out.append((st, [deps(v, env) | ctl]))
            elif isinstance(st, ast.If):
                c2 = (ctl | deps(st.test, env)) if control else ctl
                e1, e2 = dict(env), dict(env)
                block(st.body, e1, c2)
                block(st.orelse, e2, c2)
                env.clear()
                env.update(join(e1, e2))
            elif isinstance(st, (ast.For, ast.While)):
                c2 = ctl | (deps(st.iter, env) if isinstance(st, ast.For)
                            else (deps(st.test, env) if control else set()))
                for _ in range(3):
                    e1 = dict(env)
                    if isinstance(st, ast.For):
                        assign(st.target, c2, e1)
                    block(st.body, e1, c2)
                    nv = join(env, e1)
                    if nv == env:
                        break
                    env.clear()
                    env.update(nv)
                block(st.orelse, env, ctl)
            elif isinstance(st, ast.With):
                for it_ in st.items:
                    if it_.optional_vars is not None:
                        assign(it_.optional_vars,
                               deps(it_.context_expr, env) | ctl, env)
                block(st.body, env, ctl)
            elif isinstance(st, ast.Try):
                block(st.body, env, ctl)
                for h in st.handlers:
                    block(h.body, env, ctl)
                block(st.orelse, env, ctl)
                block(st.finalbody, env, ctl)
    env0 = {p_: {p_} for p_ in params}
    block(fnode.body, env0, set())
    return out



MUTABLE_CTORS = ("dict", "list", "set", "OrderedDict", "defaultdict",
                 "collections.OrderedDict", "collections.defaultdict")
MUTATORS = ("append", "extend", "update", "add", "setdefault", "insert",
            "pop", "popitem", "clear", "remove", "discard", "__setitem__")


def _mutable_literal(e):
    return isinstance(e, (ast.Dict, ast.List, ast.Set, ast.DictComp,
                          ast.ListComp, ast.SetComp)) or (
        isinstance(e, ast.Call) and norm(e.func) in MUTABLE_CTORS)


def shared_state(prog, fi, globals_ok=False):
    """Constructs of function fi through which one call can influence a
    LATER call (or another instance): memoising decorators, global /
    nonlocal declarations, and stores into / mutations of a mutable
    container that lives at module level or at class level (and is not
    re-bound per instance in __init__).  Returns [(node, description)]."""
    out = []
    for d in fi.node.decorator_list:
        if any(k in norm(d) for k in ("lru_cache", "cache", "memoize",
                                      "memoise")):
            out.append((d, "memoising decorator @%s" % norm(d, 40)))
    for x in walk_no_nested(fi.node):
        if isinstance(x, (ast.Global, ast.Nonlocal)) and not globals_ok:
            out.append((x, norm(x)))
    mod = prog.modules[fi.module]
    modlevel = set()
    for st in mod.tree.body:
        if isinstance(st, ast.Assign) and _mutable_literal(st.value):
            modlevel |= {t.id for t in st.targets if isinstance(t, ast.Name)}
    clslevel = set()
    cname = fi.cls
    if cname:
        ci = prog.classes.get("%s.%s" % (fi.module, cname))
        if ci is not None:
            for st in ci.node.body:
                if isinstance(st, ast.Assign) and _mutable_literal(st.value):
                    clslevel |= {t.id for t in st.targets
                                 if isinstance(t, ast.Name)}
            init = ci.methods.get("__init__")
            if init is not None:
                for st in ast.walk(init.node):
                    if isinstance(st, ast.Assign):
                        for t in st.targets:
                            if isinstance(t, ast.Attribute) and \
                                    norm(t.value) == "self":
                                clslevel.discard(t.attr)
    local = {a for a in fi.params}
    for st in walk_no_nested(fi.node):
        if isinstance(st, ast.Assign):
            for t in st.targets:
                if isinstance(t, ast.Name):
                    local.add(t.id)
    a_ = fi.node.args
    pos = a_.posonlyargs + a_.args
    mdef = {p_.arg for p_, d in zip(pos[len(pos) - len(a_.defaults):],
                                    a_.defaults) if _mutable_literal(d)}
    mdef |= {p_.arg for p_, d in zip(a_.kwonlyargs, a_.kw_defaults)
             if d is not None and _mutable_literal(d)}

    def shared(e):
        if isinstance(e, ast.Name) and e.id in mdef:
            return "mutable default argument %s (one object for all " \
                "calls)" % e.id
        if isinstance(e, ast.Name) and e.id in modlevel and \
                e.id not in local:
            return "module-level container %s" % e.id
        if isinstance(e, ast.Attribute) and e.attr in clslevel and \
                norm(e.value) in ("self", "cls", cname, "type(self)",
                                  "self.__class__"):
            return "class-level container %s.%s (shared by all instances)" \
                % (cname, e.attr)
        return None
    for x in walk_no_nested(fi.node):
        tg = []
        if isinstance(x, ast.Assign):
            tg = x.targets
        elif isinstance(x, ast.AugAssign):
            tg = [x.target]
        for t in tg:
            if isinstance(t, ast.Subscript):
                d = shared(t.value)
                if d:
                    out.append((x, "store into " + d))
        if isinstance(x, ast.Call) and isinstance(x.func, ast.Attribute) \
                and x.func.attr in MUTATORS:
            d = shared(x.func.value)
            if d:
                out.append((x, "%s() on " % x.func.attr + d))
    return out


def loop_carried(loop):
    """Reads, in the body of `loop`, of a local name that is assigned
    somewhere in that body but NOT on every path of the same iteration before
    the read: the value may be left over from the previous iteration (or be
    unbound in the first).  Names that are only ever updated in place
    (counters: x += 1, x = x + 1) are exempt.  Returns [(name, node)]."""
    assigned, plain = set(), set()
    for st in ast.walk(loop):
        if isinstance(st, ast.Assign):
            for t in st.targets:
                for x in ast.walk(t):
                    if isinstance(x, ast.Name) and isinstance(x.ctx,
                                                              ast.Store):
                        assigned.add(x.id)
                        if as_update(st) is None:
                            plain.add(x.id)
        elif isinstance(st, (ast.For, ast.comprehension)):
            for x in ast.walk(st.target):
                if isinstance(x, ast.Name):
                    assigned.add(x.id)
                    plain.add(x.id)
        elif isinstance(st, ast.AugAssign) and isinstance(st.target,
                                                          ast.Name):
            assigned.add(st.target.id)
    cand = assigned & plain
    if isinstance(loop, ast.For):
        init = {x.id for x in ast.walk(loop.target)
                if isinstance(x, ast.Name)}
    else:
        init = set()
    out = []

    def reads(e, have):
        comp_bound = set()
        for x in ast.walk(e):
            if isinstance(x, ast.comprehension):
                comp_bound |= {y.id for y in ast.walk(x.target)
                               if isinstance(y, ast.Name)}
        for x in ast.walk(e):
            if isinstance(x, ast.Name) and isinstance(x.ctx, ast.Load) and \
                    x.id in cand and x.id not in have and \
                    x.id not in comp_bound:
                out.append((x.id, x))

    def block(stmts, have):
        have = set(have)
        for st in stmts:
            if isinstance(st, ast.Assign):
                reads(st.value, have)
                for t in st.targets:
                    for x in ast.walk(t):
                        if isinstance(x, ast.Name) and isinstance(
                                x.ctx, ast.Store):
                            have.add(x.id)
                        elif isinstance(x, ast.Name):
                            reads(x, have)
            elif isinstance(st, ast.AugAssign):
                reads(st.value, have)
                reads(st.target, have) if not isinstance(
                    st.target, ast.Name) else None
            elif isinstance(st, ast.If):
                reads(st.test, have)
                a = block(st.body, have)
                b = block(st.orelse, have)
                have = a & b
            elif isinstance(st, (ast.For, ast.While)):
                if isinstance(st, ast.For):
                    reads(st.iter, have)
                    inner = have | {x.id for x in ast.walk(st.target)
                                    if isinstance(x, ast.Name)}
                else:
                    reads(st.test, have)
                    inner = have
                block(st.body, inner)
                block(st.orelse, have)
            elif isinstance(st, ast.Try):
                a = block(st.body, have)
                for h in st.handlers:
                    block(h.body, have)
                have = block(st.finalbody, have & a) if st.finalbody \
                    else have
            elif isinstance(st, ast.With):
                for it in st.items:
                    reads(it.context_expr, have)
                have = block(st.body, have)
            elif isinstance(st, (ast.FunctionDef, ast.ClassDef)):
                continue
            else:
                for ch in ast.iter_child_nodes(st):
                    if isinstance(ch, ast.expr):
                        reads(ch, have)
        return have
    block(loop.body, init)
    return out


def unsorted_groupby(prog, fi):
    """itertools.groupby merges only CONSECUTIVE equal keys: calls in fi
    whose iterable is not visibly sorted by the grouping key (sorted(x,
    key=K) with the same key text, or a name bound to such a value / sorted
    in place just before).  Returns [(call, description)]."""
    mod = prog.modules[fi.module]
    out = []
    for c in walk_no_nested(fi.node):
        if not isinstance(c, ast.Call):
            continue
        d = prog.dotted(mod, c.func) if isinstance(c.func, ast.Attribute) \
            else prog.resolve_name(mod, norm(c.func))
        if d is None:
            # imported inside the function
            loc = {}
            for st in ast.walk(fi.node):
                if isinstance(st, ast.Import):
                    for a in st.names:
                        loc[a.asname or a.name.split(".")[0]] = \
                            a.name if a.asname else a.name.split(".")[0]
                elif isinstance(st, ast.ImportFrom) and not st.level:
                    for a in st.names:
                        loc[a.asname or a.name] = "%s.%s" % (st.module,
                                                            a.name)
            parts = norm(c.func).split(".")
            if parts[0] in loc:
                d = ".".join([loc[parts[0]]] + parts[1:])
        if d != "itertools.groupby" or not c.args:
            continue
        key = kwarg(c, "key") or (c.args[1] if len(c.args) > 1 else None)
        ktxt = norm(key) if key is not None else None
        it = c.args[0]

        def is_sorted(e, depth=0):
            if isinstance(e, ast.Call) and norm(e.func) == "sorted":
                k2 = kwarg(e, "key")
                return (norm(k2) if k2 is not None else None) == ktxt
            if isinstance(e, ast.Name) and depth < 3:
                defs = [st for st in walk_no_nested(fi.node)
                        if isinstance(st, ast.Assign) and any(
                            isinstance(t, ast.Name) and t.id == e.id
                            for t in st.targets) and st.lineno < c.lineno]
                if defs and is_sorted(max(defs, key=lambda s_: s_.lineno)
                                      .value, depth + 1):
                    return True
                for st in walk_no_nested(fi.node):
                    if isinstance(st, ast.Expr) and isinstance(
                            st.value, ast.Call) and isinstance(
                                st.value.func, ast.Attribute) and \
                            st.value.func.attr == "sort" and \
                            norm(st.value.func.value) == e.id and \
                            st.lineno < c.lineno:
                        k2 = kwarg(st.value, "key")
                        if (norm(k2) if k2 is not None else None) == ktxt:
                            return True
            return False
        if not is_sorted(it):
            out.append((c, "groupby over `%s`, which is not sorted by the "
                        "grouping key" % norm(it, 40)))
    return out


def view_writes(fnode, root_attrs=("img", "rmsimg", "bkgimg", "dcurve")):
    """In-place writes (subscript stores, augmented assignments, fill /
    sort / put) through a name that may be a VIEW of one of the shared image
    arrays (<obj>.img ...): the array itself, or a basic slice of it, not
    passed through copy() / deepcopy() / np.array() / astype().
    Returns [(statement, alias name, what it is a view of)]."""
    def is_root(e):
        return isinstance(e, ast.Attribute) and e.attr in root_attrs

    def slice_index(sl, depth=0):
        """is the index basic slicing (-> view)?"""
        if isinstance(sl, ast.Slice):
            return True
        if isinstance(sl, ast.Tuple):
            return bool(sl.elts) and all(
                isinstance(e, (ast.Slice, ast.Constant)) or
                (isinstance(e, ast.Call) and norm(e.func) == "slice") or
                (isinstance(e, ast.Name) and slice_index(e, depth + 1))
                for e in sl.elts) and any(
                    not isinstance(e, ast.Constant) for e in sl.elts)
        if isinstance(sl, ast.Call) and norm(sl.func) == "slice":
            return True
        if isinstance(sl, ast.Name) and depth < 3:
            defs = [d.value for d in walk_no_nested(fnode)
                    if isinstance(d, ast.Assign) and len(d.targets) == 1 and
                    norm(d.targets[0]) == sl.id]
            return len(defs) == 1 and slice_index(defs[0], depth + 1)
        return False
    alias = {}           # name -> description of what it views
    stmts = sorted((x for x in walk_no_nested(fnode)
                    if isinstance(x, (ast.Assign, ast.AugAssign, ast.Expr))),
                   key=lambda x: (x.lineno, x.col_offset))

    def viewed(e):
        if is_root(e):
            return norm(e)
        if isinstance(e, ast.Name) and e.id in alias:
            return alias[e.id]
        if isinstance(e, ast.Subscript) and slice_index(e.slice):
            return viewed(e.value)
        if isinstance(e, ast.Attribute) and e.attr in ("T", "real"):
            return viewed(e.value)
        if isinstance(e, ast.Call) and isinstance(e.func, ast.Attribute) and \
                e.func.attr in ("view", "reshape", "ravel", "squeeze",
                                "transpose"):
            return viewed(e.func.value)
        if isinstance(e, ast.Call) and norm(e.func) in (
                "np.asarray", "np.squeeze", "np.ravel", "np.atleast_2d"
        ) and e.args:
            return viewed(e.args[0])
        return None
    out = []
    for st in stmts:
        if isinstance(st, ast.Assign):
            for t in st.targets:
                if isinstance(t, ast.Subscript):
                    b = t.value
                    v = viewed(b) if not is_root(b) else None
                    if v is not None and isinstance(b, ast.Name):
                        out.append((st, b.id, v))
            v = viewed(st.value)
            for t in st.targets:
                if isinstance(t, ast.Name):
                    if v is not None:
                        alias[t.id] = v
                    else:
                        alias.pop(t.id, None)
                elif isinstance(t, (ast.Tuple, ast.List)):
                    for el in t.elts:
                        if isinstance(el, ast.Name):
                            alias.pop(el.id, None)
        elif isinstance(st, ast.AugAssign):
            b = st.target
            while isinstance(b, ast.Subscript):
                b = b.value
            if isinstance(b, ast.Name) and b.id in alias:
                out.append((st, b.id, alias[b.id]))
        else:
            c = st.value
            if isinstance(c, ast.Call) and isinstance(c.func, ast.Attribute) \
                    and c.func.attr in ("fill", "sort", "put", "itemset") and \
                    isinstance(c.func.value, ast.Name) and \
                    c.func.value.id in alias:
                out.append((st, c.func.value.id, alias[c.func.value.id]))
    return out


def expand_locals(fnode, expr, depth=4):
    """a copy of expr in which every local name bound exactly once in fnode
    (by a plain assignment) is replaced by its defining expression,
    transitively -- for rules that ask what a value is MADE OF (does a true
    division feed this int()?), not for rules about evaluation order"""
    import copy
    defs = {}
    for st in walk_no_nested(fnode):
        if isinstance(st, ast.Assign) and len(st.targets) == 1 and \
                isinstance(st.targets[0], ast.Name):
            defs.setdefault(st.targets[0].id, []).append(st.value)
        elif isinstance(st, (ast.AugAssign, ast.For, ast.AnnAssign)):
            for x in ast.walk(st.target):
                if isinstance(x, ast.Name):
                    defs.setdefault(x.id, []).extend([None, None])
        elif isinstance(st, ast.Assign) and len(st.targets) == 1 and \
                isinstance(st.targets[0], (ast.Tuple, ast.List)) and \
                isinstance(st.value, (ast.Tuple, ast.List)) and \
                len(st.targets[0].elts) == len(st.value.elts) and \
                all(isinstance(e, ast.Name) for e in st.targets[0].elts) and \
                not ({e.id for e in st.targets[0].elts} &
                     {x.id for x in ast.walk(st.value)
                      if isinstance(x, ast.Name)}):
            # a, b = x, y  (no name of the left on the right)
            for te, ve in zip(st.targets[0].elts, st.value.elts):
                defs.setdefault(te.id, []).append(ve)
        elif isinstance(st, ast.Assign):
            for t in st.targets:
                for x in ast.walk(t):
                    if isinstance(x, ast.Name) and \
                            isinstance(x.ctx, ast.Store):
                        defs.setdefault(x.id, []).extend([None, None])

    class T(ast.NodeTransformer):
        def __init__(self, d):
            self.d = d

        def visit_Name(self, n):
            if isinstance(n.ctx, ast.Load) and self.d > 0 and \
                    len(defs.get(n.id, [])) == 1 and \
                    defs[n.id][0] is not None:
                return T(self.d - 1).visit(copy.deepcopy(defs[n.id][0]))
            return n
    return ast.fix_missing_locations(T(depth).visit(copy.deepcopy(expr)))


def index_alternatives(fnode, sub, depth=3):
    """the index tuples a subscript may be evaluated with, when the index is
    not written as a literal tuple:  x[lead + (slice(a, b), slice(c, d))]
    with `lead` bound to tuple literals in the branches of an if / elif.
    Returns a list of lists of index elements (ast nodes; slice(a, b) calls
    become ast.Slice) or None when the index cannot be resolved."""
    def conv(e):
        if isinstance(e, ast.Call) and isinstance(e.func, ast.Name) and \
                e.func.id == "slice" and 1 <= len(e.args) <= 3 and \
                not e.keywords:
            a = list(e.args)
            if len(a) == 1:
                a = [None, a[0]]
            a += [None] * (3 - len(a))
            a = [None if isinstance(x, ast.Constant) and x.value is None
                 else x for x in a]
            return ast.copy_location(ast.Slice(lower=a[0], upper=a[1],
                                               step=a[2]), e)
        return e

    def alts(e, d):
        if isinstance(e, ast.Tuple):
            return [[conv(x) for x in e.elts]]
        if d <= 0:
            return None
        if isinstance(e, ast.Name):
            defs = [st.value for st in walk_no_nested(fnode)
                    if isinstance(st, ast.Assign) and len(st.targets) == 1
                    and isinstance(st.targets[0], ast.Name) and
                    st.targets[0].id == e.id]
            if not defs:
                return None
            out = []
            for v in defs:
                a = alts(v, d - 1)
                if a is None:
                    return None
                out += a
            return out
        if isinstance(e, ast.BinOp) and isinstance(e.op, ast.Add):
            la, ra = alts(e.left, d), alts(e.right, d)
            if la is None or ra is None:
                return None
            return [x + y for x in la for y in ra]
        return None
    if isinstance(sub.slice, ast.Tuple):
        return [[conv(x) for x in sub.slice.elts]]
    return alts(sub.slice, depth)


def as_update(stmt):
    """(target text, operator class, operand text) of  t op= v  or of the
    equivalent  t = t op v  (also  t = v op t  for + and *); else None"""
    if isinstance(stmt, ast.AugAssign):
        return (norm(stmt.target), type(stmt.op), norm(stmt.value))
    if isinstance(stmt, ast.Assign) and len(stmt.targets) == 1 and \
            isinstance(stmt.value, ast.BinOp):
        t = norm(stmt.targets[0])
        b = stmt.value
        if norm(b.left) == t:
            return (t, type(b.op), norm(b.right))
        if norm(b.right) == t and isinstance(b.op, (ast.Add, ast.Mult)):
            return (t, type(b.op), norm(b.left))
    return None


def _alias_chain(e, stable_attr):
    """self.a[.b...] where no attribute of the chain is ever re-bound outside
    an __init__: the alias and the chain denote the same object"""
    if stable_attr is None or not isinstance(e, ast.Attribute):
        return False
    while isinstance(e, ast.Attribute):
        if not stable_attr(e.attr):
            return False
        e = e.value
    return isinstance(e, ast.Name) and e.id == "self"


def _section_handle(e):
    """hdus[<const>].section -- astropy's lazy-read accessor of an HDU; a
    local name for it denotes the same accessor as the spelled-out chain"""
    return isinstance(e, ast.Attribute) and e.attr == "section" and \
        isinstance(e.value, ast.Subscript) and \
        isinstance(e.value.value, ast.Name) and \
        isinstance(e.value.slice, (ast.Constant, ast.Name))


def inline_pure_locals(fnode, max_size=90, stable_attr=None):
    """Replace every use of a local name that is assigned exactly once, by a
    pure expression over stable operands, with that expression (the
    assignment stays).  `nside = 2**depth` / `factor = 4**(d - k)` /
    `finite = np.isfinite(a)` style intermediates then look the same to the
    rules whether or not the author named them.  Rules never depend on the
    folded names; behaviour of the analysed program is unchanged because the
    operands are stable between definition and use (single assignment,
    parameters, or loop targets of a loop enclosing both)."""
    params = {a.arg for a in fnode.args.posonlyargs + fnode.args.args +
              fnode.args.kwonlyargs}
    if fnode.args.vararg:
        params.add(fnode.args.vararg.arg)
    if fnode.args.kwarg:
        params.add(fnode.args.kwarg.arg)
    stores = {}
    loop_targets = {}
    parent = {}
    for n in ast.walk(fnode):
        for c in ast.iter_child_nodes(n):
            parent[c] = n
    own = []          # nodes of this function, not of nested defs
    stack = list(ast.iter_child_nodes(fnode))
    while stack:
        n = stack.pop()
        own.append(n)
        if isinstance(n, (ast.FunctionDef, ast.AsyncFunctionDef,
                          ast.ClassDef, ast.Lambda)):
            # names used inside nested scopes are left alone
            for x in ast.walk(n):
                if isinstance(x, ast.Name):
                    stores.setdefault(x.id, []).append(None)
            continue
        stack.extend(ast.iter_child_nodes(n))
    for n in own:
        if isinstance(n, ast.Name) and isinstance(n.ctx, (ast.Store,
                                                          ast.Del)):
            stores.setdefault(n.id, []).append(n)
        if isinstance(n, (ast.For, ast.AsyncFor)):
            for x in ast.walk(n.target):
                if isinstance(x, ast.Name):
                    loop_targets.setdefault(x.id, []).append(n)
        if isinstance(n, (ast.Global, ast.Nonlocal)):
            for nm in n.names:
                stores.setdefault(nm, []).append(None)
        if isinstance(n, ast.ExceptHandler) and n.name:
            stores.setdefault(n.name, []).append(None)

    def enclosing_loops(n):
        out = []
        while n in parent and n is not fnode:
            n = parent[n]
            if isinstance(n, (ast.For, ast.AsyncFor, ast.While)):
                out.append(n)
        return out

    cands = {}
    for n in own:
        if isinstance(n, ast.Assign) and len(n.targets) == 1 and \
                isinstance(n.targets[0], ast.Name):
            nm = n.targets[0].id
            if nm in params or len(stores.get(nm, [])) != 1:
                continue
            if not (_pure_expr(n.value) or
                    _alias_chain(n.value, stable_attr) or
                    _section_handle(n.value)):
                continue
            try:
                if len(ast.unparse(n.value)) > max_size:
                    continue
            except Exception:
                continue
            if isinstance(n.value, (ast.Constant, ast.Name)) and \
                    not isinstance(n.value, ast.Name):
                pass
            cands[nm] = n
    # operands must be stable between the definition and each use: this is
    # checked per use below (no store to an operand between the two lines,
    # nor inside a loop that contains the use but not the definition)
    good = dict(cands)

    def use_ok(use, st):
        ul, dl = getattr(use, "lineno", 0), st.lineno
        loops_use = enclosing_loops(use)
        loops_def = enclosing_loops(st)
        extra = [l for l in loops_use if l not in loops_def]
        for x in ast.walk(st.value):
            if not isinstance(x, ast.Name):
                continue
            for store in stores.get(x.id, []):
                if store is None:
                    return False
                sl = getattr(store, "lineno", 0)
                if dl < sl <= ul:
                    return False
                if any(store in ast.walk(l) for l in extra):
                    return False
        return True
    if not good:
        return 0
    import copy
    count = 0
    for _ in range(3):
        changed = False
        for n in list(own):
            if not (isinstance(n, ast.Name) and isinstance(n.ctx, ast.Load)
                    and n.id in good):
                continue
            st = good[n.id]
            if getattr(n, "lineno", 0) <= st.lineno:
                continue
            if not use_ok(n, st):
                continue
            # the use must be inside every loop that encloses the definition
            if any(l not in enclosing_loops(n) for l in enclosing_loops(st)):
                continue
            par = parent.get(n)
            if par is None:
                continue
            # do not rewrite the statement that defines another candidate's
            # own target, nor augmented-assignment targets
            new = copy.deepcopy(st.value)
            for x in ast.walk(new):
                if hasattr(x, "lineno"):
                    x.lineno = getattr(n, "lineno", x.lineno)
                    x.col_offset = getattr(n, "col_offset", 0)
                    x.end_lineno = getattr(n, "end_lineno", x.lineno)
                    x.end_col_offset = getattr(n, "end_col_offset", 0)
            done = False
            for field, val in ast.iter_fields(par):
                if val is n:
                    setattr(par, field, new)
                    done = True
                elif isinstance(val, list):
                    for i, v in enumerate(val):
                        if v is n:
                            val[i] = new
                            done = True
            if done:
                parent[new] = par
                for x in ast.walk(new):
                    for c in ast.iter_child_nodes(x):
                        parent[c] = x
                    own.append(x)
                count += 1
                changed = True
        if not changed:
            break
    return count


# --------------------------------------------------------------------------
# small ast helpers used by every rule
# --------------------------------------------------------------------------
def norm(node, limit=160) -> str:
    """Normalised statement/expression text (no positions, no comments)."""
    try:
        if isinstance(node, (ast.If, ast.While)):
            s = type(node).__name__.lower() + " " + ast.unparse(node.test)
        elif isinstance(node, ast.For):
            s = "for " + ast.unparse(node.target) + " in " + \
                ast.unparse(node.iter)
        elif isinstance(node, ast.With):
            s = "with " + ", ".join(ast.unparse(i) for i in node.items)
        elif isinstance(node, ast.Try):
            s = "try"
        elif isinstance(node, (ast.FunctionDef, ast.ClassDef)):
            s = "def " + node.name
        else:
            s = ast.unparse(node)
    except Exception:
        s = type(node).__name__
    s = " ".join(s.split())
    return s if len(s) <= limit else s[: limit - 3] + "..."


def walk_no_nested(node):
    """ast.walk that does not descend into nested function/class defs
    (the root itself may be a def)."""
    # pre-order, children in source order: statements come out in the order
    # in which they are written (also the statements an inlined helper
    # contributed, which all carry the line number of the call)
    stack = list(ast.iter_child_nodes(node))[::-1]
    while stack:
        n = stack.pop()
        yield n
        if isinstance(n, (ast.FunctionDef, ast.AsyncFunctionDef,
                          ast.ClassDef, ast.Lambda)):
            continue
        stack.extend(list(ast.iter_child_nodes(n))[::-1])


def calls_in(node, nested=True):
    it = ast.walk(node) if nested else walk_no_nested(node)
    return [n for n in it if isinstance(n, ast.Call)]


def call_name(call: ast.Call) -> str:
    """Textual callee: 'np.radians', 'self._renorm', 'foo'."""
    try:
        return ast.unparse(call.func)
    except Exception:
        return "?"


def kwarg(call: ast.Call, name: str):
    for k in call.keywords:
        if k.arg == name:
            return k.value
    return None


def arg_or_kw(call: ast.Call, pos: int, name: str):
    if len(call.args) > pos and not any(isinstance(a, ast.Starred)
                                        for a in call.args[: pos + 1]):
        return call.args[pos]
    return kwarg(call, name)


def names_in(node):
    return {n.id for n in ast.walk(node) if isinstance(n, ast.Name)}


def parent_map(root):
    pm = {}
    for n in ast.walk(root):
        for c in ast.iter_child_nodes(n):
            pm[c] = n
    return pm


def enclosing_stmt(pm, node):
    while node in pm and not isinstance(node, ast.stmt):
        node = pm[node]
    return node


# --------------------------------------------------------------------------
# findings / obligations / evidence
# --------------------------------------------------------------------------
@dataclass
class Finding:
    prop: str
    rule: str
    where: str          # module-relative function, e.g. regions.Region._renorm
    construct: str      # role or normalised statement
    message: str
    file: str = ""
    line: int = 0
    facts: dict = field(default_factory=dict)
    path: list = field(default_factory=list)

    @property
    def key(self):
        return "%s|%s|%s" % (self.rule, self.where, self.construct)


class Ctx:
    """Collects what one property check analysed and concluded."""

    def __init__(self, prop: str, prog: Program, tier: str):
        self.prop = prop
        self.prog = prog
        self.tier = tier
        self.obligations: list[dict] = []
        self.findings: list[Finding] = []
        self.notes: list[str] = []
        self.unknown: list[str] = []
        self.floors: dict[str, tuple] = {}
        self.trusted: set[str] = set()
        self.rules: dict[str, str] = {}
        self.selftest: dict | None = None

    # a rule instance that was examined
    def ob(self, rule, fi_or_where, construct, ok, facts=None, node=None,
           nontrivial=True):
        where, file, line = self._loc(fi_or_where, node)
        self.obligations.append({
            "rule": rule, "where": where, "construct": construct,
            "file": file, "line": line, "ok": bool(ok),
            "facts": facts or {}, "nontrivial": bool(nontrivial)})

    def _loc(self, fi_or_where, node):
        file, line = "", 0
        if isinstance(fi_or_where, FuncInfo):
            where = fi_or_where.short
            file = self.prog.modules[fi_or_where.module].relpath
            line = getattr(node, "lineno", fi_or_where.node.lineno)
        elif isinstance(fi_or_where, ModuleInfo):
            where = fi_or_where.name[len(PKG) + 1:] or PKG
            file = fi_or_where.relpath
            line = getattr(node, "lineno", 0)
        else:
            where = str(fi_or_where)
            line = getattr(node, "lineno", 0)
        return where, file, line

    def check(self, rule, fi_or_where, construct, ok, message, facts=None,
              node=None, path=None, nontrivial=True):
        """Record an obligation; if not ok also a finding."""
        self.ob(rule, fi_or_where, construct, ok, facts, node, nontrivial)
        if not ok:
            where, file, line = self._loc(fi_or_where, node)
            self.findings.append(Finding(self.prop, rule, where, construct,
                                         message, file, line, facts or {},
                                         path or []))
        return ok

    def floor(self, rule, found: int, minimum: int, what: str):
        """Instance floor: fewer instances than confirmed by hand => the
        analysis is vacuous => exit 2."""
        self.floors[rule] = (found, minimum, what)
        if found < minimum:
            raise AnalysisError(
                "%s: rule %s found %d instance(s) of '%s', floor is %d "
                "(anchor moved or idiom not recognised)" %
                (self.prop, rule, found, what, minimum))

    def unknown_site(self, rule, fi_or_where, construct, node=None):
        where, file, line = self._loc(fi_or_where, node)
        self.unknown.append("%s %s:%s %s" % (rule, where, line, construct))

    def raw_prog(self):
        """the program model without the folding of named intermediates
        (for rules that anchor on the names themselves)"""
        if getattr(self, "_raw", None) is None:
            self._raw = Program(self.prog.root, inline=False)
        return self._raw

    def rule(self, rid, text):
        self.rules[rid] = text

    def trust(self, *items):
        self.trusted.update(items)

    def note(self, s):
        self.notes.append(s)


def load_known():
    p = os.path.join(VERIF, "known_findings.json")
    if not os.path.exists(p):
        return {"known": [], "fixed": []}
    with open(p) as fh:
        return json.load(fh)


def run_check(prop: str, tier: str, runner, explanation: str,
              assumptions: list[str]):
    """Runs one property check, writes evidence, prints verdict lines and
    returns the exit code."""
    t0 = time.time()
    seed = int(os.environ.get("VERIF_SEED", "0") or 0)
    evdir = os.environ.get("AEGEAN_EVIDENCE_DIR") or \
        os.path.join(VERIF, "evidence")
    os.makedirs(os.path.join(evdir, "replay"), exist_ok=True)
    evfile = os.path.join(evdir, prop + ".json")
    ctx = None
    try:
        prog = Program()
        ctx = Ctx(prop, prog, tier)
        runner(ctx)
    except AnalysisError as e:
        print("ANALYSIS-ERROR property=%s %s" % (prop, e))
        # violations established by rules that ran before the analysis gave
        # up are still violations (rules are independent of each other)
        done = _report_partial(ctx, prop, evdir)
        _write_evidence(evfile, prop, tier, seed, explanation, assumptions,
                        None, [], [], time.time() - t0, error=str(e))
        return 1 if done else 2
    except Exception as e:            # analyser crash: never a verdict
        traceback.print_exc()
        print("ANALYSIS-ERROR property=%s analyser crashed: %r" % (prop, e))
        _write_evidence(evfile, prop, tier, seed, explanation, assumptions,
                        None, [], [], time.time() - t0, error=repr(e))
        return 2

    known = load_known()
    kkeys = {(k["property"], k["key"]): k for k in known.get("known", [])}
    violations, knowns = [], []
    seen = set()
    for f in ctx.findings:
        if f.key in seen:
            continue
        seen.add(f.key)
        if (prop, f.key) in kkeys:
            knowns.append((f, kkeys[(prop, f.key)]))
        else:
            violations.append(f)
    for f, k in knowns:
        print("KNOWN-FINDING: property=%s %s [%s]" % (prop, k["what"], f.key))
    code = 0
    for i, f in enumerate(violations):
        rp = os.path.join(evdir, "replay", "%s-%d.json" % (prop, i))
        with open(rp, "w") as fh:
            json.dump({"property": prop, "rule": f.rule,
                       "rule_text": ctx.rules.get(f.rule, ""),
                       "where": f.where, "construct": f.construct,
                       "file": f.file, "line": f.line,
                       "message": f.message, "facts": f.facts,
                       "path": f.path, "key": f.key}, fh, indent=1,
                      default=str)
        print("%s:%s: [%s] %s: %s -- %s" % (f.file, f.line, f.rule, f.where,
                                            f.construct, f.message))
        print("VIOLATION property=%s replay=%s" %
              (prop, os.path.relpath(rp, VERIF)
               if rp.startswith(VERIF + os.sep) else rp))
        code = 1
    _write_evidence(evfile, prop, tier, seed, explanation, assumptions, ctx,
                    violations, knowns, time.time() - t0)
    nob = len(ctx.obligations)
    nok = sum(1 for o in ctx.obligations if o["ok"])
    print("%s %s: %d obligations, %d discharged, %d violation(s), "
          "%d known finding(s), %d unknown site(s), %.2fs" %
          (prop, tier, nob, nok, len(violations), len(knowns),
           len(ctx.unknown), time.time() - t0))
    return code


def _report_partial(ctx, prop, evdir):
    """print the VIOLATION lines for findings collected before an
    AnalysisError stopped the run; returns their number"""
    if ctx is None or not ctx.findings:
        return 0
    known = load_known()
    kkeys = {(k["property"], k["key"]) for k in known.get("known", [])}
    n, seen = 0, set()
    for f in ctx.findings:
        if f.key in seen or (prop, f.key) in kkeys:
            continue
        seen.add(f.key)
        rp = os.path.join(evdir, "replay", "%s-%d.json" % (prop, n))
        with open(rp, "w") as fh:
            json.dump({"property": prop, "rule": f.rule,
                       "rule_text": ctx.rules.get(f.rule, ""),
                       "where": f.where, "construct": f.construct,
                       "file": f.file, "line": f.line,
                       "message": f.message, "facts": f.facts,
                       "path": f.path, "key": f.key}, fh, indent=1,
                      default=str)
        print("%s:%s: [%s] %s: %s -- %s" % (f.file, f.line, f.rule, f.where,
                                            f.construct, f.message))
        print("VIOLATION property=%s replay=%s" %
              (prop, os.path.relpath(rp, VERIF)
               if rp.startswith(VERIF + os.sep) else rp))
        n += 1
    return n


def _write_evidence(evfile, prop, tier, seed, explanation, assumptions, ctx,
                    violations, knowns, wall, error=None):
    cov = {"explanation": explanation}
    if ctx is not None:
        obs = ctx.obligations
        distinct = {(o["rule"], o["where"], o["construct"])
                    for o in obs if o["nontrivial"]}
        # a sample per rule, plus every failing obligation
        samples, per_rule = [], {}
        for o in obs:
            if not o["ok"] or per_rule.get(o["rule"], 0) < 3:
                per_rule[o["rule"]] = per_rule.get(o["rule"], 0) + 1
                samples.append(o)
        cov.update({
            "obligations": len(obs),
            "discharged": sum(1 for o in obs if o["ok"]),
            "evaluations": max(len(obs), 1),
            "distinct_nontrivial": len(distinct),
            "rule": "one obligation per rule instance found in the current "
                    "source tree; distinct = distinct (rule, function, "
                    "construct); non-trivial = the verdict needed at least "
                    "one recognised (non-unknown) fact",
            "rules": ctx.rules,
            "samples": samples[:60],
            "instances_floor": {k: {"found": v[0], "floor": v[1],
                                    "what": v[2]}
                                for k, v in ctx.floors.items()},
            "unknown_sites": ctx.unknown[:80],
            "unknown_sites_count": len(ctx.unknown),
            "notes": ctx.notes,
            "trusted_base": sorted(ctx.trusted),
            "files_analysed": ctx.prog.files_analysed(),
            "known_findings": [f.key for f, _ in knowns],
            "violations": [f.key for f in violations],
            "checker_cmd": "./check %s --tier %s" % (prop, tier),
            "exhaustive": False,
        })
        if ctx.selftest is not None:
            cov["selftest"] = ctx.selftest
    else:
        cov.update({"evaluations": 1, "distinct_nontrivial": 0,
                    "analysis_error": error, "samples": [error]})
    ev = {"property_id": prop, "tier": tier, "seed": seed, "level": "other",
          "coverage": cov, "assumptions": assumptions,
          "wall_s": round(wall, 3), "violations": len(violations)}
    with open(evfile, "w") as fh:
        json.dump(ev, fh, indent=1, default=str)
