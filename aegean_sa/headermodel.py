"""Header-effect interpretation: what a function of the analysed source does to
a FITS header, as sympy expressions in the header's original values.

The function's statements are interpreted abstractly over a MODEL header
(dict key -> sympy expression; the scenario decides which keys exist).  Only
header reads / writes / deletes, membership tests, constants, tuples, simple
arithmetic and calls to functions of the same module are interpreted; every
other value is Opaque.  A test that evaluates to Opaque forks the path (both
branches are followed), so the result is a list of outcomes
(returned-None?, header model) -- one per distinct path.  No repository code
runs and no solver is involved: this is value numbering of header updates
along the enumerated paths of small functions."""
from __future__ import annotations

import ast

import sympy as sp

from .core import norm


class Opaque:
    def __repr__(self):
        return "<opaque>"


OPAQUE = Opaque()


class HeaderRef:
    """the header object itself"""

    def __repr__(self):
        return "<header>"


HDR = HeaderRef()


class GiveUp(Exception):
    pass


class _Return(Exception):
    def __init__(self, v):
        self.v = v


class _Break(Exception):
    pass


class _Continue(Exception):
    pass


class _Fork(Exception):
    """raised at an opaque test: the driver re-runs the path with the next
    decision forced"""


class Machine:
    MAXPATHS = 256

    def __init__(self, prog, mod, header_names=("header",), symbols=None):
        self.prog = prog
        self.mod = mod
        self.header_names = set(header_names)
        self.symbols = symbols or {}

    # ------------------------------------------------------------------
    def outcomes(self, fi, header, args=None):
        """all (returns_none, header_model, return_value) outcomes of fi
        started on a copy of `header` (dict key -> sympy)"""
        results = []
        pending = [[]]
        seen = 0
        while pending:
            decisions = pending.pop()
            seen += 1
            if seen > self.MAXPATHS:
                raise GiveUp("more than %d paths" % self.MAXPATHS)
            self.decisions = list(decisions)
            self.cursor = 0
            self.new_forks = []
            h = dict(header)
            try:
                rv = self.call(fi, h, args or {})
            except _Fork:
                # extend with both choices at the new opaque test
                base = self.decisions[:self.cursor]
                pending.append(base + [True])
                pending.append(base + [False])
                continue
            results.append((rv is None, h, rv))
        return results

    def decide(self):
        if self.cursor < len(self.decisions):
            d = self.decisions[self.cursor]
            self.cursor += 1
            return d
        raise _Fork()

    # ------------------------------------------------------------------
    def call(self, fi, header, args):
        env = {}
        params = [a.arg for a in fi.node.args.args]
        defaults = fi.node.args.defaults
        for p, d in zip(params[len(params) - len(defaults):], defaults):
            env[p] = self.ev(d, {}, header)
        if fi.node.args.vararg is not None and \
                fi.node.args.vararg.arg in args:
            env[fi.node.args.vararg.arg] = args[fi.node.args.vararg.arg]
        for p in params:
            if p in args:
                env[p] = args[p]
            elif p in self.header_names:
                env[p] = HDR
            elif p in self.symbols:
                env[p] = self.symbols[p]
            elif p not in env:
                env[p] = OPAQUE
        try:
            self.block(fi.node.body, env, header)
        except _Return as r:
            return r.v
        return None

    def block(self, stmts, env, header):
        for st in stmts:
            self.stmt(st, env, header)

    def truth(self, v):
        if v is OPAQUE or isinstance(v, (sp.Basic,)) and not \
                isinstance(v, (sp.Integer, sp.Float, sp.Rational,
                               sp.logic.boolalg.BooleanAtom)):
            return self.decide()
        if isinstance(v, HeaderRef):
            return True
        return bool(v)

    def stmt(self, st, env, header):
        if isinstance(st, ast.Expr):
            if isinstance(st.value, ast.Constant):
                return
            self.ev(st.value, env, header)
        elif isinstance(st, ast.Assign):
            v = self.ev(st.value, env, header)
            for t in st.targets:
                self.store(t, v, env, header)
        elif isinstance(st, ast.AugAssign):
            cur = self.ev(st.target, env, header)
            v = self.ev(st.value, env, header)
            self.store(st.target, self.binop(st.op, cur, v), env, header)
        elif isinstance(st, ast.Delete):
            for t in st.targets:
                if isinstance(t, ast.Subscript) and \
                        self.ev(t.value, env, header) is HDR:
                    k = self.ev(t.slice, env, header)
                    if not isinstance(k, str):
                        raise GiveUp("del header[%s]" % norm(t.slice))
                    if k not in header:
                        raise _Return(("raises", "KeyError %s" % k))
                    del header[k]
                elif isinstance(t, ast.Name):
                    env.pop(t.id, None)
        elif isinstance(st, ast.If):
            if self.truth(self.ev(st.test, env, header)):
                self.block(st.body, env, header)
            else:
                self.block(st.orelse, env, header)
        elif isinstance(st, ast.For):
            seq = self.ev(st.iter, env, header)
            if isinstance(seq, (tuple, list)):
                broke = False
                for v in seq:
                    self.store(st.target, v, env, header)
                    try:
                        self.block(st.body, env, header)
                    except _Break:
                        broke = True
                        break
                    except _Continue:
                        continue
                if not broke:
                    self.block(st.orelse, env, header)
            else:
                if self.touches_header(st):
                    raise GiveUp("loop over an unknown sequence writes the "
                                 "header: %s" % norm(st, 60))
        elif isinstance(st, ast.While):
            if self.touches_header(st):
                raise GiveUp("while loop writes the header")
        elif isinstance(st, ast.Return):
            raise _Return(None if st.value is None
                          else self.ev(st.value, env, header))
        elif isinstance(st, ast.Raise):
            raise _Return(("raises", norm(st, 60)))
        elif isinstance(st, ast.Break):
            raise _Break()
        elif isinstance(st, ast.Continue):
            raise _Continue()
        elif isinstance(st, ast.With):
            for it in st.items:
                if it.optional_vars is not None:
                    self.store(it.optional_vars, OPAQUE, env, header)
            self.block(st.body, env, header)
        elif isinstance(st, ast.Try):
            self.block(st.body, env, header)
            self.block(st.orelse, env, header)
            self.block(st.finalbody, env, header)
        elif isinstance(st, (ast.Pass, ast.Import, ast.ImportFrom,
                             ast.Global, ast.Nonlocal, ast.Assert,
                             ast.FunctionDef)):
            return
        else:
            if self.touches_header(st):
                raise GiveUp("unsupported statement writes the header: %s"
                             % norm(st, 60))

    def touches_header(self, node):
        for x in ast.walk(node):
            if isinstance(x, ast.Subscript) and isinstance(
                    x.ctx, (ast.Store, ast.Del)) and \
                    isinstance(x.value, ast.Name) and \
                    x.value.id in self.header_names:
                return True
        return False

    def store(self, t, v, env, header):
        if isinstance(t, ast.Name):
            if t.id in self.header_names and (v is OPAQUE or v is HDR):
                # header = fits.getheader(...) / hdulist[0].header: the
                # model header
                env[t.id] = HDR
                return
            env[t.id] = v
        elif isinstance(t, (ast.Tuple, ast.List)):
            if isinstance(v, (tuple, list)) and len(v) == len(t.elts):
                for tt, vv in zip(t.elts, v):
                    self.store(tt, vv, env, header)
            else:
                for tt in t.elts:
                    self.store(tt, OPAQUE, env, header)
        elif isinstance(t, ast.Subscript):
            base = self.ev(t.value, env, header)
            if base is HDR:
                k = self.ev(t.slice, env, header)
                if not isinstance(k, str):
                    raise GiveUp("header[%s] = ..." % norm(t.slice))
                if isinstance(v, tuple) and v:
                    v = v[0]          # (value, comment)
                header[k] = v
        elif isinstance(t, ast.Attribute):
            # hdulist[0].header = header   etc.: no effect on the model
            return

    # ------------------------------------------------------------------
    def binop(self, op, a, b):
        if a is OPAQUE or b is OPAQUE or isinstance(a, HeaderRef) or \
                isinstance(b, HeaderRef):
            return OPAQUE
        try:
            if isinstance(op, ast.Add):
                return a + b
            if isinstance(op, ast.Sub):
                return a - b
            if isinstance(op, ast.Mult):
                return a * b
            if isinstance(op, ast.Div):
                if isinstance(a, int) and isinstance(b, int):
                    return sp.Rational(a, b)
                return a / b
            if isinstance(op, ast.FloorDiv):
                return sp.floor(sp.sympify(a) / b)
            if isinstance(op, ast.Mod):
                return sp.Mod(a, b)
            if isinstance(op, ast.Pow):
                return a ** b
        except Exception:
            return OPAQUE
        return OPAQUE

    def ev(self, e, env, header):
        if isinstance(e, ast.Constant):
            return e.value
        if isinstance(e, ast.Name):
            if e.id in env:
                return env[e.id]
            if e.id in self.header_names:
                return HDR
            if e.id in ("True", "False", "None"):
                return {"True": True, "False": False, "None": None}[e.id]
            # a module-level constant (tuple / list of literals, a literal)
            for st in getattr(self.mod, "tree", ast.Module(body=[])).body:
                if isinstance(st, ast.Assign) and len(st.targets) == 1 and \
                        isinstance(st.targets[0], ast.Name) and \
                        st.targets[0].id == e.id:
                    try:
                        v = ast.literal_eval(st.value)
                    except Exception:
                        return OPAQUE
                    return tuple(v) if isinstance(v, (list, tuple)) else v
            return OPAQUE
        if isinstance(e, (ast.Tuple, ast.List)):
            return tuple(self.ev(x, env, header) for x in e.elts)
        if isinstance(e, ast.Attribute):
            if e.attr == "header":
                return HDR
            return OPAQUE
        if isinstance(e, ast.Subscript):
            base = self.ev(e.value, env, header)
            if base is HDR:
                k = self.ev(e.slice, env, header)
                if isinstance(k, str):
                    if k not in header:
                        raise _Return(("raises", "KeyError %s" % k))
                    return header[k]
                return OPAQUE
            if isinstance(base, tuple):
                k = self.ev(e.slice, env, header)
                if isinstance(k, int) and -len(base) <= k < len(base):
                    return base[k]
            return OPAQUE
        if isinstance(e, ast.Compare) and len(e.ops) == 1:
            left = self.ev(e.left, env, header)
            right = self.ev(e.comparators[0], env, header)
            op = e.ops[0]
            if isinstance(op, (ast.In, ast.NotIn)):
                if right is HDR and isinstance(left, str):
                    r = left in header
                elif isinstance(right, (tuple, list)) and \
                        left is not OPAQUE and OPAQUE not in right:
                    r = left in right
                else:
                    return OPAQUE
                return r if isinstance(op, ast.In) else not r
            if isinstance(op, (ast.Is, ast.IsNot)):
                if left is OPAQUE or right is OPAQUE:
                    return OPAQUE
                r = left is right or (left is None and right is None)
                return r if isinstance(op, ast.Is) else not r
            if left is OPAQUE or right is OPAQUE:
                return OPAQUE
            if all(isinstance(x, (int, float, str, bool)) for x in (left,
                                                                   right)):
                return {ast.Eq: left == right, ast.NotEq: left != right,
                        ast.Lt: left < right, ast.LtE: left <= right,
                        ast.Gt: left > right,
                        ast.GtE: left >= right}.get(type(op), OPAQUE)
            return OPAQUE
        if isinstance(e, ast.BoolOp):
            res = None
            for v in e.values:
                x = self.ev(v, env, header)
                if x is OPAQUE or isinstance(x, sp.Basic):
                    res = OPAQUE
                    continue
                if isinstance(e.op, ast.And) and not x:
                    return x
                if isinstance(e.op, ast.Or) and x:
                    return x
                if res is not OPAQUE:
                    res = x
            return res
        if isinstance(e, ast.UnaryOp):
            v = self.ev(e.operand, env, header)
            if isinstance(e.op, ast.Not):
                if v is OPAQUE or isinstance(v, sp.Basic):
                    return OPAQUE
                return not v
            if v is OPAQUE:
                return OPAQUE
            if isinstance(e.op, ast.USub):
                return -v
            return v
        if isinstance(e, ast.BinOp):
            return self.binop(e.op, self.ev(e.left, env, header),
                              self.ev(e.right, env, header))
        if isinstance(e, ast.IfExp):
            if self.truth(self.ev(e.test, env, header)):
                return self.ev(e.body, env, header)
            return self.ev(e.orelse, env, header)
        if isinstance(e, (ast.GeneratorExp, ast.ListComp)) and \
                len(e.generators) == 1:
            g = e.generators[0]
            seq = self.ev(g.iter, env, header)
            if not isinstance(seq, (tuple, list)):
                return OPAQUE
            out = []
            for v in seq:
                env2 = dict(env)
                self.store(g.target, v, env2, header)
                if all(self.truth(self.ev(c, env2, header)) for c in g.ifs):
                    out.append(self.ev(e.elt, env2, header))
            return tuple(out)
        if isinstance(e, ast.Call):
            fn = norm(e.func)
            if fn in ("all", "any") and len(e.args) == 1:
                seq = self.ev(e.args[0], env, header)
                if isinstance(seq, tuple) and OPAQUE not in seq:
                    return all(seq) if fn == "all" else any(seq)
                return OPAQUE
            if fn in ("int", "float") and len(e.args) == 1:
                v = self.ev(e.args[0], env, header)
                return v if isinstance(v, (int, float, sp.Basic)) else OPAQUE
            if fn in ("tuple", "list") and len(e.args) == 1:
                v = self.ev(e.args[0], env, header)
                return v if isinstance(v, tuple) else OPAQUE
            if isinstance(e.func, ast.Attribute) and \
                    e.func.attr == "format" and \
                    isinstance(e.func.value, ast.Constant):
                args = [self.ev(a, env, header) for a in e.args]
                if all(isinstance(a, (str, int)) for a in args) and \
                        not e.keywords:
                    try:
                        return e.func.value.value.format(*args)
                    except Exception:
                        return OPAQUE
                return OPAQUE
            q = self.prog.resolve_name(self.mod, fn) \
                if isinstance(e.func, ast.Name) else None
            callee = self.prog.functions.get(q) if q else None
            if callee is not None and callee.module == self.mod.name and \
                    not callee.cls:
                params = [a.arg for a in callee.node.args.args]
                bound = {}
                vals_ = [self.ev(a, env, header) for a in e.args]
                for p, v_ in zip(params, vals_):
                    bound[p] = v_
                if callee.node.args.vararg is not None:
                    bound[callee.node.args.vararg.arg] = \
                        tuple(vals_[len(params):])
                for k in e.keywords:
                    if k.arg:
                        bound[k.arg] = self.ev(k.value, env, header)
                if any(v is HDR for v in bound.values()) or \
                        self.touches_header(callee.node):
                    # header parameters of the callee are whichever
                    # parameters receive the header
                    sub = Machine(self.prog, self.mod,
                                  [p for p, v in bound.items() if v is HDR]
                                  or self.header_names, self.symbols)
                    sub.decisions, sub.cursor = self.decisions, self.cursor
                    try:
                        rv = sub.call(callee, header, bound)
                    finally:
                        self.cursor = sub.cursor
                    return rv
            for a in e.args:
                self.ev(a, env, header)
            return OPAQUE
        return OPAQUE
