"""Degree-of-homogeneity analysis (dimensional analysis with one dimension:
"pixel value").  An estimator that must commute with  image -> k * image  may
only compare quantities of the same degree and may not carry an absolute
tolerance: `std < 1e-8`, `np.isclose(std, 0)` (atol = 1e-8 by default) treat a
faint image differently from the same image multiplied by 1e6.

degree 1 = scales with the pixel values, 0 = scale-free (counts, clip levels,
literals), None = unknown, POLY = the literal 0 (any degree)."""
from __future__ import annotations

import ast

from .core import norm, walk_no_nested

POLY = "poly"
SAME = {"std", "nanstd", "mean", "nanmean", "median", "nanmedian", "max",
        "min", "nanmax", "nanmin", "amax", "amin", "abs", "fabs", "absolute",
        "array", "asarray", "ravel", "flatten", "copy", "squeeze", "sum",
        "nansum", "sort", "sorted", "float", "ptp", "percentile",
        "nanpercentile", "clip", "float64", "float32"}
FREE = {"len", "size", "count_nonzero", "isfinite", "isnan", "isinf", "shape",
        "int", "range", "argmax", "argmin", "nanargmax", "nanargmin", "sign",
        "bool"}
TOL = {"isclose", "allclose"}


def degree(e, env):
    if isinstance(e, ast.Constant):
        if isinstance(e.value, bool) or e.value is None:
            return None
        if isinstance(e.value, (int, float)):
            return POLY if e.value == 0 else 0
        return None
    if isinstance(e, ast.Name):
        return env.get(e.id)
    if isinstance(e, ast.Attribute):
        if e.attr in ("size", "shape", "ndim"):
            return 0
        if e.attr in ("T", "real", "flat"):
            return degree(e.value, env)
        return env.get(norm(e))
    if isinstance(e, ast.Subscript):
        return degree(e.value, env)
    if isinstance(e, ast.UnaryOp):
        if isinstance(e.op, ast.Not):
            return 0
        return degree(e.operand, env)
    if isinstance(e, ast.BinOp):
        a, b = degree(e.left, env), degree(e.right, env)
        if isinstance(e.op, (ast.Add, ast.Sub)):
            if a == POLY:
                return b
            if b == POLY or a == b:
                return a
            return None
        if a is None or b is None:
            return None
        if isinstance(e.op, ast.Mult):
            if POLY in (a, b):
                return POLY
            return a + b
        if isinstance(e.op, (ast.Div, ast.FloorDiv)):
            if a == POLY:
                return POLY
            if b == POLY:
                return None
            return a - b
        if isinstance(e.op, ast.Pow) and isinstance(e.right, ast.Constant) \
                and isinstance(e.right.value, (int, float)) and a != POLY:
            return a * e.right.value
        return None
    if isinstance(e, ast.Call):
        short = norm(e.func).split(".")[-1]
        if short in FREE:
            return 0
        if short in ("sqrt",) and e.args:
            a = degree(e.args[0], env)
            return a / 2 if isinstance(a, (int, float)) else a
        if short in ("square",) and e.args:
            a = degree(e.args[0], env)
            return a * 2 if isinstance(a, (int, float)) else a
        if short in SAME:
            if isinstance(e.func, ast.Attribute) and not e.args:
                return degree(e.func.value, env)     # x.mean()
            if e.args:
                return degree(e.args[0], env)
        return None
    if isinstance(e, ast.IfExp):
        a, b = degree(e.body, env), degree(e.orelse, env)
        return a if a == b else (b if a == POLY else a if b == POLY
                                 else None)
    if isinstance(e, (ast.Tuple, ast.List)):
        return None
    return None


def analyse(fnode, seeds):
    """seeds: {name: degree}.  Returns (env, findings) with findings =
    [(node, message)] for comparisons of unequal degree and tolerance tests
    with an absolute part on data-scaled operands."""
    env = dict(seeds)
    for _ in range(4):
        for st in walk_no_nested(fnode):
            if isinstance(st, ast.Assign):
                d = degree(st.value, env)
                for t in st.targets:
                    if isinstance(t, ast.Name):
                        if d is not None and d != POLY and \
                                env.get(t.id, d) == d:
                            env[t.id] = d
                        elif d is not None and d != POLY and \
                                env.get(t.id) != d:
                            env[t.id] = None
                    elif isinstance(t, (ast.Tuple, ast.List)) and \
                            isinstance(st.value, (ast.Tuple, ast.List)) and \
                            len(t.elts) == len(st.value.elts):
                        for tt, vv in zip(t.elts, st.value.elts):
                            dd = degree(vv, env)
                            if isinstance(tt, ast.Name) and dd is not None \
                                    and dd != POLY:
                                env[tt.id] = dd
            elif isinstance(st, (ast.For, ast.comprehension)) and \
                    isinstance(st.target, ast.Name):
                d = degree(st.iter, env)
                if d is not None and d != POLY:
                    env[st.target.id] = d
    out = []
    for n in walk_no_nested(fnode):
        if isinstance(n, ast.Compare):
            left = n.left
            for op, right in zip(n.ops, n.comparators):
                if isinstance(op, (ast.Is, ast.IsNot, ast.In, ast.NotIn)):
                    left = right
                    continue
                a, b = degree(left, env), degree(right, env)
                if a is not None and b is not None and POLY not in (a, b) \
                        and a != b and (a != 0 or b != 0):
                    out.append((n, "%s (degree %g in the pixel values) is "
                                "compared with %s (degree %g)" %
                                (norm(left, 40), a, norm(right, 40), b)))
                left = right
        elif isinstance(n, ast.Call) and \
                norm(n.func).split(".")[-1] in TOL and len(n.args) >= 2:
            degs = [degree(a, env) for a in n.args[:2]]
            scaled = [d for d in degs if isinstance(d, (int, float)) and d]
            atol = [k.value for k in n.keywords if k.arg == "atol"]
            if len(n.args) >= 4:
                atol = [n.args[3]]
            zero_atol = atol and isinstance(atol[0], ast.Constant) and \
                atol[0].value == 0
            if scaled and not zero_atol:
                out.append((n, "%s tests a quantity that scales with the "
                            "pixel values against an ABSOLUTE tolerance "
                            "(atol defaults to 1e-8)" % norm(n, 50)))
    return env, out
