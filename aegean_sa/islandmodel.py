"""Role-based model of source_finder.find_islands shared by C02 and C11."""
from __future__ import annotations

import ast

from .core import AnalysisError, kwarg, names_in, norm, walk_no_nested


class IslandModel:
    def __init__(self, prog):
        self.prog = prog
        self.fi = prog.func("source_finder.find_islands")
        self.mod = prog.modules[self.fi.module]
        f = self.fi.node
        self.label_call = None
        self.find_call = None
        for s in walk_no_nested(f):
            if isinstance(s, ast.Call):
                d = prog.dotted(self.mod, s.func) if isinstance(
                    s.func, ast.Attribute) else prog.resolve_name(
                        self.mod, norm(s.func))
                if d == "scipy.ndimage.label":
                    self.label_call = s
                if d == "scipy.ndimage.find_objects":
                    self.find_call = s
        if self.label_call is None or self.find_call is None:
            raise AnalysisError("find_islands: calls resolving to "
                                "scipy.ndimage.label / find_objects not found")
        # names: label image, count
        self.lab = self.nlab = None
        for s in walk_no_nested(f):
            if isinstance(s, ast.Assign) and s.value is self.label_call and \
                    isinstance(s.targets[0], ast.Tuple) and \
                    len(s.targets[0].elts) == 2:
                self.lab = norm(s.targets[0].elts[0])
                self.nlab = norm(s.targets[0].elts[1])
        if self.lab is None:
            raise AnalysisError("find_islands: `labels, n = label(...)` "
                                "unpacking not recognised")
        # per-island loop
        self.loop = None
        for s in walk_no_nested(f):
            if isinstance(s, ast.For) and isinstance(s.iter, ast.Call) and \
                    norm(s.iter.func) == "range" and \
                    self.nlab in names_in(s.iter):
                self.loop = s
        if self.loop is None:
            raise AnalysisError("find_islands: per-island loop over "
                                "range(n) not found")
        self.ivar = norm(self.loop.target)
        # the labelled mask variable and snr
        self.mask_name = norm(self.label_call.args[0]) \
            if self.label_call.args else None

    # ---- own-pixel restriction -------------------------------------------
    def label_compare(self, e):
        """does expression e contain  labels[...] ==/!= i+1 ?"""
        for c in ast.walk(e):
            if isinstance(c, ast.Compare) and len(c.ops) == 1 and \
                    isinstance(c.ops[0], (ast.Eq, ast.NotEq)):
                sides = [c.left, c.comparators[0]]
                txt = [norm(x) for x in sides]
                has_lab = any(self.lab in names_in(x) for x in sides)
                has_id = any(t.replace(" ", "") in (self.ivar + "+1",
                                                    "1+" + self.ivar)
                             for t in txt)
                if has_lab and has_id:
                    return True
            if isinstance(c, ast.Call):
                for kw in ("labels", "index"):
                    k = kwarg(c, kw)
                    if k is not None and (self.lab in names_in(k) or
                                          self.ivar in names_in(k)):
                        return True
        return False

    def own_names(self):
        """{name: first line from which its value is restricted to the
        island's own pixels} (statements of the loop body in source order)"""
        own = {}
        body = sorted((s for s in ast.walk(self.loop)
                       if isinstance(s, ast.Assign)),
                      key=lambda s: s.lineno)
        changed = True
        while changed:
            changed = False
            for s in body:
                v = s.value
                dep = self.label_compare(v) or any(
                    n in own and own[n] <= s.lineno for n in names_in(v))
                for t in s.targets:
                    if isinstance(t, ast.Name):
                        if dep and t.id not in own:
                            own[t.id] = s.end_lineno + 1
                            changed = True
                    # data_box[island_mask] = nan -> data_box is own after
                    if isinstance(t, ast.Subscript) and \
                            isinstance(t.value, ast.Name) and any(
                                n in own and own[n] <= s.lineno
                                for n in names_in(t.slice)) and \
                            t.value.id not in own:
                        own[t.value.id] = s.end_lineno + 1
                        changed = True
        return own

    def restricted(self, e, own=None):
        own = self.own_names() if own is None else own
        return self.label_compare(e) or any(
            n in own and own[n] <= e.lineno for n in names_in(e))
