"""Role-based model of source_finder.find_islands shared by C02 and C11."""
from __future__ import annotations

import ast

from .core import AnalysisError, kwarg, names_in, norm, walk_no_nested


class IslandModel:
    def __init__(self, prog):
        self.prog = prog
        self.fi = prog.func("source_finder.find_islands")
        self.mod = prog.modules[self.fi.module]
        f = self.fi.node
        self.label_call = None
        self.find_call = None
        for s in walk_no_nested(f):
            if isinstance(s, ast.Call):
                d = prog.dotted(self.mod, s.func) if isinstance(
                    s.func, ast.Attribute) else prog.resolve_name(
                        self.mod, norm(s.func))
                if d == "scipy.ndimage.label":
                    self.label_call = s
                if d == "scipy.ndimage.find_objects":
                    self.find_call = s
        if self.label_call is None or self.find_call is None:
            raise AnalysisError("find_islands: calls resolving to "
                                "scipy.ndimage.label / find_objects not found")
        # names: label image, count
        self.lab = self.nlab = None
        for s in walk_no_nested(f):
            if isinstance(s, ast.Assign) and s.value is self.label_call and \
                    isinstance(s.targets[0], ast.Tuple) and \
                    len(s.targets[0].elts) == 2:
                self.lab = norm(s.targets[0].elts[0])
                self.nlab = norm(s.targets[0].elts[1])
        if self.lab is None:
            raise AnalysisError("find_islands: `labels, n = label(...)` "
                                "unpacking not recognised")
        # name holding the find_objects result
        self.boxes = None
        for s in walk_no_nested(f):
            if isinstance(s, ast.Assign) and s.value is self.find_call and \
                    isinstance(s.targets[0], ast.Name):
                self.boxes = s.targets[0].id
        # per-island loop: range(n)  or  enumerate(boxes)
        self.loop = None
        self.ivar = None
        self.label_off = 1
        for s in walk_no_nested(f):
            if not (isinstance(s, ast.For) and isinstance(s.iter, ast.Call)):
                continue
            fn = norm(s.iter.func)
            if fn == "range" and self.nlab in names_in(s.iter):
                self.loop, self.ivar = s, norm(s.target)
                a = [norm(x).replace(" ", "") for x in s.iter.args]
                # label of the visited group = loop variable + label_off
                if a in ([self.nlab], ["0", self.nlab]):
                    self.label_off = 1
                elif a in (["1", self.nlab + "+1"], ["1", "1+" + self.nlab]):
                    self.label_off = 0
                else:
                    self.label_off = None
            elif fn == "enumerate" and self.boxes and s.iter.args and \
                    norm(s.iter.args[0]) == self.boxes and \
                    isinstance(s.target, ast.Tuple) and \
                    len(s.iter.args) <= 2:
                start = s.iter.args[1] if len(s.iter.args) == 2 else \
                    kwarg(s.iter, "start")
                if start is None or norm(start) in ("0", "1"):
                    self.loop, self.ivar = s, norm(s.target.elts[0])
                    self.label_off = 1 if start is None or \
                        norm(start) == "0" else 0
        self.domain = None
        if self.loop is None:
            # a data-dependent pre-selection of labels:  for i in <labels>
            for s in walk_no_nested(f):
                if isinstance(s, ast.For) and isinstance(s.target, ast.Name) \
                        and self.boxes and any(
                            isinstance(x, ast.Subscript) and
                            norm(x.value) == self.boxes and
                            norm(x.slice) == s.target.id
                            for x in ast.walk(s)):
                    d = self.label_set(s.iter)
                    if d is not None:
                        self.loop, self.ivar, self.domain = \
                            s, s.target.id, d
        if self.loop is None:
            raise AnalysisError("find_islands: per-island loop over "
                                "range(n) / enumerate(boxes) not found")
        # names that are views of the label image (labels[...] cut-outs)
        self.lab_names = self._views(self.lab)
        # the labelled mask variable and snr
        self.mask_name = norm(self.label_call.args[0]) \
            if self.label_call.args else None

    # ---- label-set expressions (pre-selected island loops) ---------------
    def _def(self, name):
        ds = [s for s in walk_no_nested(self.fi.node)
              if isinstance(s, ast.Assign) and len(s.targets) == 1
              and isinstance(s.targets[0], ast.Name)
              and s.targets[0].id == name]
        return ds[0].value if len(ds) == 1 else None

    def label_set(self, e, depth=0):
        """Abstract value of an expression that enumerates labels of the
        label image: dict(cond=<mask ast or None>, zero='yes'|'no'|'maybe'
        (may the background label 0 be among the values), shift=<int added>,
        unique=<bool>, bad=<reason or None>); None = not a label set."""
        if depth > 10:
            return None
        PASS = ("set", "sorted", "list", "np.asarray", "np.array", "np.sort",
                "numpy.asarray", "numpy.array", "numpy.sort", "iter")
        if isinstance(e, ast.Name):
            if e.id == self.lab:
                return dict(cond=None, zero="maybe", shift=0, unique=False,
                            bad=None)
            d = self._def(e.id)
            return self.label_set(d, depth + 1) if d is not None else None
        if isinstance(e, ast.BinOp) and isinstance(e.op, (ast.Add, ast.Sub)) \
                and isinstance(e.right, ast.Constant) \
                and isinstance(e.right.value, int):
            v = self.label_set(e.left, depth + 1)
            if v is None:
                return None
            k = e.right.value if isinstance(e.op, ast.Add) else -e.right.value
            return dict(v, shift=v["shift"] + k)
        if isinstance(e, ast.BinOp) and isinstance(e.op, ast.Mult):
            for a, b in ((e.left, e.right), (e.right, e.left)):
                if norm(a) == self.lab:
                    return dict(cond=b, zero="maybe", shift=0, unique=False,
                                bad=None)
            return None
        if isinstance(e, ast.Call):
            fn = norm(e.func)
            if fn in ("np.unique", "numpy.unique") and len(e.args) == 1 \
                    and not e.keywords:
                v = self.label_set(e.args[0], depth + 1)
                return dict(v, unique=True) if v else None
            if fn in PASS and len(e.args) == 1:
                return self.label_set(e.args[0], depth + 1)
            if fn in ("np.where", "numpy.where") and len(e.args) == 3 and \
                    norm(e.args[1]) == self.lab and norm(e.args[2]) == "0":
                return dict(cond=e.args[0], zero="maybe", shift=0,
                            unique=False, bad=None)
            if fn in ("np.setdiff1d", "numpy.setdiff1d") and \
                    len(e.args) == 2 and norm(e.args[1]) in ("0", "[0]",
                                                             "(0,)"):
                v = self.label_set(e.args[0], depth + 1)
                return dict(v, zero="no", unique=True) if v else None
            if isinstance(e.func, ast.Attribute) and e.func.attr in (
                    "tolist", "astype", "ravel", "flatten", "copy"):
                return self.label_set(e.func.value, depth + 1)
            return None
        if isinstance(e, ast.Subscript):
            v = self.label_set(e.value, depth + 1)
            if v is None:
                return None
            sl = e.slice
            if isinstance(sl, ast.Slice):
                if sl.upper is None and sl.step is None and \
                        sl.lower is not None and norm(sl.lower) == "1":
                    if v["unique"] and v["zero"] == "yes":
                        return dict(v, zero="no")
                    return dict(v, bad="`%s` drops the first (smallest) "
                                "entry on the assumption that it is the "
                                "background label 0; when no selected value "
                                "is 0 (every pixel passes the selection) the "
                                "entry dropped is label 1 -- the first island "
                                "is never visited" % norm(e, 60))
                return dict(v, bad="positional slice `%s` of a label set" %
                            norm(e, 60))
            # boolean selections
            if norm(e.value) == self.lab or (isinstance(e.value, ast.Name)
                                             and not v["unique"]):
                if v["cond"] is None:
                    z = "no" if self._implies_labelled(sl) else "maybe"
                    return dict(v, cond=sl, zero=z)
            # u[u > 0] / u[u != 0] / u[np.nonzero(u)]
            base = norm(e.value)
            t = norm(sl).replace(" ", "")
            if t in (base + ">0", base + "!=0", "0<" + base, "0!=" + base,
                     base + ">=1", "np.nonzero(%s)" % base,
                     "numpy.nonzero(%s)" % base):
                return dict(v, zero="no")
            return None
        return None

    def _implies_labelled(self, cond):
        """does mask `cond` select only pixels of the labelled mask
        (x > seed  implies  x >= flood  because flood <= seed)?"""
        m = self._def(self.mask_name_()) if self.mask_name_() else None
        if not (isinstance(cond, ast.Compare) and isinstance(m, ast.Compare)
                and len(cond.ops) == 1 and len(m.ops) == 1):
            return False
        return norm(cond.left) == norm(m.left) and \
            isinstance(cond.ops[0], (ast.Gt, ast.GtE)) and \
            isinstance(m.ops[0], (ast.Gt, ast.GtE)) and \
            "seed" in norm(cond.comparators[0]) and \
            "flood" in norm(m.comparators[0])

    def mask_name_(self):
        a = self.label_call.args[0] if self.label_call.args else None
        return a.id if isinstance(a, ast.Name) else None

    def _views(self, base):
        """base plus every local name assigned a subscript of such a name"""
        out = {base}
        changed = True
        while changed:
            changed = False
            for s in ast.walk(self.fi.node):
                if isinstance(s, ast.Assign) and len(s.targets) == 1 and \
                        isinstance(s.targets[0], ast.Name) and \
                        isinstance(s.value, ast.Subscript) and \
                        isinstance(s.value.value, ast.Name) and \
                        s.value.value.id in out and \
                        s.targets[0].id not in out:
                    out.add(s.targets[0].id)
                    changed = True
        return out

    def label_texts(self):
        """the spellings of `label of the island being visited`"""
        if self.label_off == 0:
            return (self.ivar,)
        return (self.ivar + "+1", "1+" + self.ivar)

    # ---- own-pixel restriction -------------------------------------------
    def label_compare(self, e):
        """does expression e contain  labels[...] ==/!= i+1 ?"""
        for c in ast.walk(e):
            if isinstance(c, ast.Compare) and len(c.ops) == 1 and \
                    isinstance(c.ops[0], (ast.Eq, ast.NotEq)):
                sides = [c.left, c.comparators[0]]
                txt = [norm(x) for x in sides]
                has_lab = any(self.lab_names & names_in(x) for x in sides)
                has_id = any(t.replace(" ", "") in self.label_texts()
                             for t in txt)
                if has_lab and has_id:
                    return True
            if isinstance(c, ast.Call):
                for kw in ("labels", "index"):
                    k = kwarg(c, kw)
                    if k is not None and (self.lab_names & names_in(k) or
                                          self.ivar in names_in(k)):
                        return True
        return False

    def label_compare_in_defs(self, e, depth=0):
        """does e (or the definition of a local name in it) contain the
        own-label comparison?"""
        if self.label_compare(e):
            return True
        if depth > 3:
            return False
        for x in ast.walk(e):
            if isinstance(x, ast.Name):
                for st in ast.walk(self.loop):
                    if isinstance(st, ast.Assign) and any(
                            isinstance(t, ast.Name) and t.id == x.id
                            for t in st.targets) and \
                            self.label_compare_in_defs(st.value, depth + 1):
                        return True
        return False

    def own_names(self):
        """{name: first line from which its value is restricted to the
        island's own pixels} (statements of the loop body in source order)"""
        own = {}
        body = sorted((s for s in ast.walk(self.loop)
                       if isinstance(s, ast.Assign)),
                      key=lambda s: s.lineno)
        changed = True
        while changed:
            changed = False
            for s in body:
                v = s.value
                dep = self.label_compare(v) or any(
                    n in own and own[n] <= s.lineno for n in names_in(v))
                for t in s.targets:
                    if isinstance(t, ast.Name):
                        if dep and t.id not in own:
                            own[t.id] = s.end_lineno + 1
                            changed = True
                    # data_box[island_mask] = nan -> data_box is own after
                    if isinstance(t, ast.Subscript) and \
                            isinstance(t.value, ast.Name) and any(
                                n in own and own[n] <= s.lineno
                                for n in names_in(t.slice)) and \
                            t.value.id not in own:
                        own[t.value.id] = s.end_lineno + 1
                        changed = True
        return own

    def is_label_compare(self, c):
        """is c itself  labels[...] == i+1 ?"""
        if isinstance(c, ast.Compare) and len(c.ops) == 1 and \
                isinstance(c.ops[0], ast.Eq):
            sides = [c.left, c.comparators[0]]
            txt = [norm(x).replace(" ", "") for x in sides]
            return any(self.lab_names & names_in(x) for x in sides) and \
                any(t in self.label_texts() for t in txt)
        return False

    def narrowing(self, e, depth=0):
        """For a boolean mask expression that is restricted to the island's
        own pixels: the list of extra conditions that make it a proper
        SUBSET of the own pixels ([] = exactly the own pixels; None = shape
        not understood).  Conditions implied by membership (finiteness) do
        not count."""
        if self.is_label_compare(e):
            return []
        if isinstance(e, ast.Name) and depth < 6:
            defs = [s for s in ast.walk(self.loop)
                    if isinstance(s, ast.Assign) and any(
                        isinstance(t, ast.Name) and t.id == e.id
                        for t in s.targets)]
            if len(defs) == 1:
                return self.narrowing(defs[0].value, depth + 1)
            return None
        if isinstance(e, ast.Call) and e.args and (
                norm(e.func) in ("np.asarray", "np.array", "numpy.asarray",
                                 "np.copy") or
                isinstance(e.func, ast.Attribute) and
                e.func.attr in ("copy",)):
            return self.narrowing(e.args[0] if norm(e.func).startswith("np")
                                  else e.func.value, depth + 1)
        if isinstance(e, ast.BinOp) and isinstance(e.op, (ast.BitAnd,
                                                           ast.Mult)):
            out = []
            known = False
            for side in (e.left, e.right):
                sub = self.narrowing(side, depth + 1)
                if sub is not None:
                    known = True
                    out += sub
                elif isinstance(side, ast.Call) and norm(side.func) in (
                        "np.isfinite", "numpy.isfinite"):
                    pass
                else:
                    out.append(norm(side, 60))
            return out if known else None
        if isinstance(e, ast.Call) and norm(e.func) in (
                "np.logical_and", "numpy.logical_and") and len(e.args) == 2:
            return self.narrowing(ast.BinOp(left=e.args[0], op=ast.BitAnd(),
                                            right=e.args[1]), depth + 1)
        return None

    def other_label_term(self, p_):
        """labels != id,  or the complement of the exact own-pixel mask"""
        if isinstance(p_, ast.Compare) and len(p_.ops) == 1 and \
                isinstance(p_.ops[0], ast.NotEq) and self.label_compare(p_):
            return True
        inner = None
        if isinstance(p_, ast.UnaryOp) and isinstance(p_.op, ast.Invert):
            inner = p_.operand
        elif isinstance(p_, ast.Call) and p_.args and norm(p_.func) in (
                "np.logical_not", "np.bitwise_not", "np.invert",
                "numpy.logical_not"):
            inner = p_.args[0]
        return inner is not None and self.narrowing(inner) == []

    def blanking_masks(self):
        """[(blanking statement  box[mask] = nan, mask expression resolved to
        its definition)] inside the island loop"""
        out = []
        for st in ast.walk(self.loop):
            if isinstance(st, ast.Assign) and \
                    isinstance(st.targets[0], ast.Subscript) and \
                    norm(st.value) in ("np.nan", "numpy.nan"):
                mk = st.targets[0].slice
                if isinstance(mk, ast.Name):
                    defs = [d.value for d in ast.walk(self.loop)
                            if isinstance(d, ast.Assign) and
                            norm(d.targets[0]) == mk.id]
                    if len(defs) == 1:
                        mk = defs[0]
                out.append((st, mk))
        return out

    def restricted(self, e, own=None):
        own = self.own_names() if own is None else own
        return self.label_compare(e) or any(
            n in own and own[n] <= e.lineno for n in names_in(e))
