"""
Library summaries (trusted base) and repo conventions for the abstract
interpreter: numeric kinds first; unit / kind / index facets are layered on
top by units.py (UnitLib subclasses Lib).
"""
from __future__ import annotations

import ast

from .absint import (AV, BOOL, FLOAT, IFLOAT, INT, NONE, STR, TOP, container,
                     join)
from .core import norm

INT_ARRAY = container(INT, cls="ndarray")
FLOAT_ARRAY = container(FLOAT, cls="ndarray")

# callables whose result is an integer (array) -- healpy pixel queries etc.
INT_RESULT = {
    "healpy.query_disc", "healpy.query_polygon", "healpy.ang2pix",
    "healpy.vec2pix", "healpy.nside2npix", "healpy.order2nside",
    "numpy.arange", "numpy.argsort", "numpy.argmax", "numpy.argmin",
    "numpy.nanargmax", "numpy.nanargmin", "numpy.count_nonzero",
    "numpy.flatnonzero", "multiprocessing.cpu_count", "os.cpu_count",
}
INT_ARRAY_RESULT = {"healpy.query_disc", "healpy.query_polygon",
                    "healpy.ang2pix", "healpy.vec2pix", "numpy.arange",
                    "numpy.argsort", "numpy.flatnonzero"}
FLOAT_RESULT = {
    "numpy.sqrt", "numpy.sin", "numpy.cos", "numpy.tan", "numpy.arcsin",
    "numpy.arccos", "numpy.arctan", "numpy.arctan2", "numpy.radians",
    "numpy.degrees", "numpy.hypot", "numpy.exp", "numpy.log", "numpy.log10",
    "numpy.mean", "numpy.std", "numpy.median", "numpy.nanmean", "numpy.nanstd",
    "numpy.nanmedian", "math.sqrt", "math.sin", "math.cos", "math.tan",
    "math.log", "math.radians", "math.degrees", "math.hypot", "math.exp",
    "numpy.nanmax", "numpy.nanmin", "numpy.max", "numpy.min",
    "healpy.nside2pixarea", "healpy.nside2resol",
}
IFLOAT_RESULT = {"numpy.floor", "numpy.ceil", "numpy.round", "numpy.rint",
                 "numpy.trunc", "numpy.around"}


class Lib:
    """D-num summaries.  Every method returns None for 'not understood'."""

    trusted = [
        "python builtins: len/int/round/range/enumerate/zip/min/max/abs/"
        "float/sorted/list/set/tuple/sum",
        "numpy: where/indices/mgrid/unravel_index/floor/ceil/shape return "
        "integer (or integral) values as documented",
        "healpy: query_disc/query_polygon/ang2pix/vec2pix return integer "
        "pixel arrays",
        "lmfit >= 1.0: Parameter.value is a float after copy/pickle/fit "
        "(lmfit/parameter.py: _init_bounds/_getval coerce to float)",
    ]

    # ---- parameters ----------------------------------------------------
    def param_default(self, it, fi, name, default):
        if name in ("self", "cls") and fi.cls:
            return AV(num="obj", cls=fi.module + "." + fi.cls)
        return TOP

    def with_value(self, it, expr, v):
        return TOP

    def unpack(self, it, val, n, stmt):
        return None

    def module_const(self, it, name, v):
        return v

    def negate(self, it, node, v, res):
        return res

    def binop(self, it, op, l, r, res, node, lnode, rnode):
        return res

    def iter_elem(self, it, v, node):
        if v.cls == "dict":
            return TOP
        return None

    def compare(self, it, n, left, comps):
        return None

    def specialisations(self, fi):
        """optional list of {param: python constant | AV}: the function is
        analysed once per entry (flags that switch units/behaviour)"""
        return None

    def store_subscript(self, it, target, val, env, aug):
        return False

    # ---- attributes ------------------------------------------------------
    def attribute(self, it, n, base, env):
        a = n.attr
        if a == "shape":
            return container(INT, cls="shape")
        if a in ("size", "ndim", "nbytes"):
            return INT
        if a == "value" and isinstance(n.value, ast.Subscript):
            # <params>[<str key>].value  -- lmfit Parameter.value: a float
            # once the Parameters object went through deepcopy / pickle /
            # minimize (lmfit re-initialises bounds and coerces the value)
            pv = it.eval(n.value.value, env)
            if any(x.startswith("coerced") for x in pv.src):
                return AV(num="float", exact=False, src=frozenset(
                    {"lmfit.value.coerced"}) | frozenset(
                        x for x in pv.src if x.startswith("coerced")))
            return TOP
        if a == "params" and base.cls == "lmfit.MinimizerResult":
            return AV(num="obj", cls="lmfit.Parameters",
                      src=frozenset({"coerced:minimize-result"}))
        if a in ("start", "stop") and base.cls == "slice":
            return INT
        if a == "T" and base.elem is not None:
            return base
        if base.cls and base.cls.startswith(it.prog.__class__.__name__):
            pass
        # attributes initialised in a repo class's __init__
        c = base.cls
        if c and c.startswith("class:"):
            c = c[6:]
        if c in it.prog.classes:
            v = self.class_attr(it, c, a)
            if v is not None:
                return v
        return None

    def class_attr(self, it, cq, attr):
        return None

    # ---- subscripts ------------------------------------------------------
    def subscript(self, it, n, base, ivs, env):
        if base.cls == "shape":
            if ivs is None:
                return base
            return INT
        if base.cls == "find_objects":
            # f[i] -> tuple of slices ; f[i][k] -> slice
            return AV(num="obj", cls="slicetuple")
        if base.cls == "slicetuple":
            return AV(num="obj", cls="slice")
        return None

    # ---- calls -------------------------------------------------------------
    def call(self, it, n, dotted, recv, args, kwargs, env):
        f = n.func
        name = f.id if isinstance(f, ast.Name) else None
        if name and name not in env and dotted == name:
            r = self.builtin(it, n, name, args, kwargs)
            if r is not None:
                return r
        if dotted:
            if dotted == "lmfit.Parameters":
                return AV(num="obj", cls="lmfit.Parameters",
                          src=frozenset({"fresh"}))
            if dotted in ("copy.deepcopy", "copy.copy", "pickle.loads") and \
                    args and args[0].cls == "lmfit.Parameters":
                return args[0].with_(src=frozenset({"coerced:deepcopy"}))
            if dotted in ("lmfit.minimize",):
                pav = AV(num="obj", cls="lmfit.Parameters",
                         src=frozenset({"coerced:minimize-callback"}))
                if it.world is not None:
                    cbs = list(args[:1]) + [kwargs[k] for k in ("Dfun",)
                                            if k in kwargs]
                    for cb in cbs:
                        if cb.cls and cb.cls.startswith("func:"):
                            it.world.bind_callback(cb.cls[5:], 0, pav)
                return AV(num="obj", cls="lmfit.MinimizerResult")
            if dotted in INT_ARRAY_RESULT:
                return INT_ARRAY
            if dotted in INT_RESULT:
                return INT
            if dotted in IFLOAT_RESULT:
                if args and args[0].elem is not None:
                    return container(IFLOAT, cls="ndarray")
                return IFLOAT
            if dotted in FLOAT_RESULT:
                if args and args[0].elem is not None and \
                        not dotted.startswith("math."):
                    return container(FLOAT, cls="ndarray")
                return FLOAT
            if dotted in ("numpy.where", "numpy.nonzero",
                          "numpy.unravel_index"):
                if len(args) == 1 or dotted != "numpy.where":
                    return AV(num="obj", cls="indextuple", elem=INT_ARRAY
                              if dotted != "numpy.unravel_index" or
                              (args and args[0].elem is not None) else INT)
                if len(args) == 3:
                    return join(args[1], args[2]).with_(cval=None)
            if dotted in ("numpy.indices", "numpy.meshgrid"):
                return AV(num="obj", cls="indextuple", elem=INT_ARRAY)
            if dotted in ("scipy.ndimage.find_objects",):
                return AV(num="obj", cls="find_objects")
            if dotted in ("scipy.ndimage.label",):
                return AV(num="obj", elts=(INT_ARRAY, INT))
            if dotted in ("numpy.array", "numpy.asarray", "numpy.ravel",
                          "numpy.squeeze", "numpy.transpose", "numpy.sort",
                          "numpy.unique", "numpy.copy", "copy.deepcopy",
                          "copy.copy"):
                if args:
                    a0 = args[0]
                    if a0.elem is not None or a0.elts is not None:
                        el = a0.elem if a0.elem is not None else \
                            it.iter_elem(a0)
                        dt = kwargs.get("dtype")
                        return container(el, cls="ndarray") \
                            if dotted.startswith("numpy") else a0
                    if dotted.startswith("copy."):
                        return a0
            if dotted in ("numpy.empty", "numpy.empty_like"):
                return AV(num="obj", cls="empty")
            if dotted in ("numpy.zeros", "numpy.ones",
                          "numpy.zeros_like", "numpy.ones_like",
                          "numpy.full"):
                dt = kwargs.get("dtype")
                return container(FLOAT, cls="ndarray")
            if dotted == "numpy.prod":
                if args and args[0].elem is not None and \
                        args[0].elem.num == "int":
                    return INT
            if dotted == "numpy.isfinite" or dotted == "numpy.isnan":
                return BOOL if not (args and args[0].elem is not None) else \
                    container(BOOL, cls="ndarray")
        # methods by attribute name on known shapes
        if isinstance(f, ast.Attribute):
            a = f.attr
            if recv is None:
                recv = it.eval(f.value, env)
            if a in ("copy", "ravel", "flatten", "squeeze", "tolist",
                     "transpose") and recv.elem is not None:
                return recv
            if a in ("astype",) and recv.elem is not None and args:
                return recv
            if a in ("union", "intersection", "difference",
                     "symmetric_difference") and recv.cls == "set":
                el = recv.elem
                for x in args:
                    if x.elem is not None and el is not None:
                        el = join(el, x.elem)
                    else:
                        el = None
                return container(el or TOP, cls="set")
            if a == "keys" and recv.cls in ("dict", "lmfit.Parameters"):
                return container(STR if recv.cls != "dict" else TOP)
            if a == "format" and recv.num == "str":
                return STR
            if a in ("split", "strip", "replace", "lower", "upper") and \
                    recv.num == "str":
                return STR if a != "split" else container(STR)
            if a in ("start", "stop"):
                return None
        return None

    def builtin(self, it, n, name, args, kwargs):
        if name == "len":
            return INT
        if name == "int":
            return AV(num="int", exact=True,
                      cval=int(args[0].cval) if args and
                      isinstance(args[0].cval, (int, float)) and
                      args[0].cval == args[0].cval and
                      abs(args[0].cval) != float("inf") else None)
        if name == "round":
            if len(args) == 1:
                return INT
            return FLOAT
        if name == "float":
            return AV(num="float", exact=False,
                      cval=float(args[0].cval) if args and isinstance(
                          args[0].cval, (int, float)) else None)
        if name == "bool":
            return BOOL
        if name == "str" or name == "repr":
            return STR
        if name == "abs":
            return args[0].with_(cval=abs(args[0].cval) if isinstance(
                args[0].cval, (int, float)) else None) if args else None
        if name in ("min", "max"):
            vs = args
            if len(args) == 1:
                vs = [it.iter_elem(args[0])]
            r = vs[0] if vs else TOP
            for v in vs[1:]:
                r = join(r, v)
            return r.with_(cval=None)
        if name == "sum":
            if args:
                el = it.iter_elem(args[0])
                if el.num in ("int", "bool"):
                    return INT
                if el.num in ("float", "ifloat"):
                    return FLOAT
            return None
        if name == "range":
            for a, node in zip(args, n.args):
                for o in it.observers:
                    o.on_use(it, node, "range", a)
            return container(INT, cls="range")
        if name == "enumerate":
            el = it.iter_elem(args[0], n.args[0]) if args else TOP
            return container(AV(num="obj", elts=(INT, el)))
        if name == "zip":
            els = tuple(it.iter_elem(a, nn) for a, nn in zip(args, n.args))
            if any(isinstance(a, ast.Starred) for a in n.args):
                return container(TOP)
            return container(AV(num="obj", elts=els), cls="zip")
        if name in ("list", "tuple", "set", "sorted", "reversed", "frozenset"):
            if not args:
                return container(TOP, cls=name if name in ("list", "set")
                                 else None) if name != "set" else \
                    AV(num="obj", cls="set", elem=None)
            a0 = args[0]
            el = it.iter_elem(a0, n.args[0])
            cls = {"list": "list", "set": "set", "sorted": "list",
                   "tuple": "tuple", "frozenset": "set"}.get(name)
            if name in ("list", "tuple") and a0.elts is not None:
                return AV(num="obj", elts=a0.elts, cls=cls)
            return container(el, cls=cls)
        if name == "map":
            # map(np.array, xs) / map(float, xs) keep the elements' facets
            if len(args) == 2 and len(n.args) == 2 and \
                    norm(n.args[0]) in ("np.array", "numpy.array",
                                        "np.asarray", "float", "list"):
                return args[1]
            return container(TOP)
        if name in ("isinstance", "hasattr", "callable", "all", "any"):
            return BOOL
        if name == "slice":
            return AV(num="obj", cls="slice")
        if name == "divmod":
            if len(args) == 2 and args[0].num in ("int", "bool") and \
                    args[1].num in ("int", "bool"):
                return AV(num="obj", elts=(INT, INT))
            return AV(num="obj", elts=(IFLOAT, FLOAT))
        return None
