"""
E1 -- link check: resolve every attribute chain rooted at an imported
third-party module against the library as installed in the repository's own
environment (/venv).  The helper imports third-party libraries only -- never
the repository -- the way a linker reads a .so's symbol table.
"""
from __future__ import annotations

import ast
import builtins
import json
import os
import subprocess

from .core import PKG, AnalysisError, Program, norm, walk_no_nested

VENV_PY = os.environ.get("AEGEAN_VENV_PY", "/venv/bin/python")

HELPER = r'''
import importlib, json, sys, inspect
chains = json.load(sys.stdin)
out = {}
for ch in chains:
    parts = ch.split(".")
    obj = None
    k = 0
    # longest importable module prefix
    for i in range(len(parts), 0, -1):
        try:
            obj = importlib.import_module(".".join(parts[:i]))
            k = i
            break
        except Exception:
            continue
    if obj is None:
        out[ch] = {"ok": False, "missing": parts[0], "why": "module not importable"}
        continue
    ok = True
    for j in range(k, len(parts)):
        if not (inspect.ismodule(obj) or inspect.isclass(obj)):
            break            # instances / functions: stop, nothing to link
        try:
            obj = getattr(obj, parts[j])
        except Exception as e:
            out[ch] = {"ok": False, "missing": ".".join(parts[:j+1]),
                       "why": type(e).__name__}
            ok = False
            break
    if ok:
        out[ch] = {"ok": True}
ver = {}
for m in ("numpy", "scipy", "astropy", "healpy", "lmfit", "sklearn"):
    try:
        ver[m] = importlib.import_module(m).__version__
    except Exception as e:
        ver[m] = "unavailable: %r" % (e,)
json.dump({"chains": out, "versions": ver}, sys.stdout)
'''

_cache = {}


def external_chains(prog: Program):
    """[(FuncInfo|None, module, node, dotted, in_handler, guard)]"""
    sites = []
    for mi in prog.modules.values():
        ext_aliases = {a: t for a, t in mi.imports.items()
                       if not t.startswith(PKG) and not t.startswith(".")}
        # map statement -> enclosing function
        owner = {}
        for q, fi in prog.functions.items():
            if fi.module != mi.name:
                continue
            for n in walk_no_nested(fi.node):
                owner[n] = fi
        pm = {}
        for n in ast.walk(mi.tree):
            for c in ast.iter_child_nodes(n):
                pm[c] = n
        for n in ast.walk(mi.tree):
            if not isinstance(n, ast.Attribute):
                continue
            if isinstance(pm.get(n), ast.Attribute) and pm[n].value is n:
                continue          # not maximal
            root = n
            while isinstance(root, ast.Attribute):
                root = root.value
            if not isinstance(root, ast.Name) or root.id not in ext_aliases:
                continue
            d = prog.dotted(mi, n)
            if not d:
                continue
            # shadowed by a local variable of the same name?
            fi = owner.get(n)
            if fi is not None and root.id in _locals(fi.node):
                continue
            sites.append((fi, mi, n, d, _context(pm, n)))
    return sites


def _locals(fnode):
    out = set(a.arg for a in fnode.args.args + fnode.args.kwonlyargs)
    for n in walk_no_nested(fnode):
        if isinstance(n, ast.Name) and isinstance(n.ctx, ast.Store):
            out.add(n.id)
    return out


def _context(pm, n):
    """guard description: inside which except / if the site sits"""
    ctx = []
    cur = n
    while cur in pm:
        p = pm[cur]
        if isinstance(p, ast.ExceptHandler):
            if cur is p.type:
                ctx.append("except-clause type expression (evaluated only "
                           "when the try body raises)")
            else:
                ctx.append("inside handler 'except %s'" %
                           (norm(p.type) if p.type else ""))
        elif isinstance(p, ast.If) and cur is not p.test:
            br = "else of" if cur in p.orelse else "then of"
            ctx.append("%s 'if %s'" % (br, norm(p.test, 50)))
        elif isinstance(p, (ast.FunctionDef, ast.ClassDef)):
            break
        cur = p
    return ctx[::-1]


def resolve(chains):
    key = tuple(sorted(set(chains)))
    if key in _cache:
        return _cache[key]
    if not os.path.exists(VENV_PY):
        raise AnalysisError("E1: %s not found" % VENV_PY)
    env = dict(os.environ)
    env.pop("PYTHONPATH", None)
    try:
        p = subprocess.run([VENV_PY, "-I", "-c", HELPER],
                           input=json.dumps(list(key)), text=True,
                           capture_output=True, timeout=300, cwd="/",
                           env=env)
    except subprocess.TimeoutExpired:
        raise AnalysisError("E1 helper timed out")
    if p.returncode != 0:
        raise AnalysisError("E1 helper failed: %s" % p.stderr[-400:])
    res = json.loads(p.stdout)
    _cache[key] = res
    return res


def exception_attr_sites(prog: Program):
    """`except <Builtin> as e: ... e.attr` where attr is not an attribute of
    any of the caught builtin classes."""
    out = []
    for q, fi in prog.functions.items():
        for n in walk_no_nested(fi.node):
            if not isinstance(n, ast.ExceptHandler) or not n.name or \
                    n.type is None:
                continue
            types = n.type.elts if isinstance(n.type, ast.Tuple) else [n.type]
            classes = []
            for t in types:
                c = getattr(builtins, t.id, None) if isinstance(t, ast.Name) \
                    else None
                if not (isinstance(c, type) and
                        issubclass(c, BaseException)):
                    classes = None
                    break
                classes.append(c)
            if not classes:
                continue
            for m in ast.walk(n):
                if isinstance(m, ast.Attribute) and \
                        isinstance(m.value, ast.Name) and \
                        m.value.id == n.name and \
                        isinstance(m.ctx, ast.Load):
                    if not any(hasattr(c, m.attr) for c in classes):
                        out.append((fi, m, n, [c.__name__ for c in classes]))
    return out


def check(ctx, roots, rule="E1", what="entry points"):
    """Link-check every external symbol in functions reachable from
    `roots` (short names).  Records obligations / findings on ctx."""
    from . import callgraph
    prog = ctx.prog
    g = callgraph.build(prog)
    rq = []
    for r in roots:
        q = PKG + "." + r
        if q not in prog.functions:
            raise AnalysisError("E1 root %s not found" % r)
        rq.append(q)
    reach = callgraph.reachable(g, rq)
    sites = [s for s in external_chains(prog)
             if s[0] is not None and s[0].qualname in reach]
    ctx.rule(rule, "every attribute chain rooted at an imported third-party "
             "module, in a function reachable from the property's %s, "
             "resolves against the library installed in /venv; attributes "
             "read from a caught builtin exception exist on its class "
             "(an unresolved symbol raises on every execution that reaches "
             "it)" % what)
    res = resolve([s[3] for s in sites])
    ctx.trust("E1: installed library versions " +
              json.dumps(res["versions"], sort_keys=True))
    n = 0
    for fi, mi, node, d, guard in sites:
        r = res["chains"].get(d, {"ok": True})
        n += 1
        ctx.check(rule, fi, "symbol " + d, r["ok"],
                  "unresolved library symbol %s (%s: %s); reached via %s%s"
                  % (d, r.get("missing"), r.get("why"),
                     " -> ".join(callgraph.chain(g, rq, fi.qualname)),
                     ("; guard: " + "; ".join(guard)) if guard else
                     "; unconditional in this function"),
                  facts={"symbol": d, "guard": guard,
                         "versions": res["versions"]},
                  node=node)
    for fi, attr, handler, classes in exception_attr_sites(prog):
        if fi.qualname not in reach:
            continue
        n += 1
        ctx.check(rule, fi, "attribute .%s of caught %s" %
                  (attr.attr, "/".join(classes)), False,
                  "%s has no attribute '%s': the handler itself raises "
                  "AttributeError whenever it runs" %
                  ("/".join(classes), attr.attr), node=attr)
    return n


def argument_binding(ctx, rule, roots=None, modules=None, what=""):
    """Internal calls bind their positional arguments to the parameters they
    are named after: where a positional argument is a plain name that is ALSO
    the name of a parameter of the callee, it must sit at that parameter's
    position (`f(mask, frac, sigma)` against `def f(mask, sigma, frac)`
    silently crosses two options).  Scope: functions reachable from `roots`
    and / or the functions of `modules`."""
    from . import callgraph
    from .core import norm, walk_no_nested
    prog = ctx.prog
    ctx.rule(rule, "positional arguments reach the parameters they are named "
             "after in every call between functions of the package%s: a "
             "name passed positionally that is the name of ANOTHER "
             "parameter of the callee means two arguments are crossed" %
             ((" (" + what + ")") if what else ""))
    scope = set()
    if roots:
        g = callgraph.build(prog)
        scope |= set(callgraph.reachable(g, [PKG + "." + r for r in roots]))
    for q, fi in prog.functions.items():
        if modules and any(fi.module.endswith(m) for m in modules):
            scope.add(q)
    n = 0
    for q in sorted(scope):
        fi = prog.functions[q]
        mod = prog.modules[fi.module]
        for c in walk_no_nested(fi.node):
            if not isinstance(c, ast.Call) or not c.args:
                continue
            callee = None
            if isinstance(c.func, ast.Name):
                callee = prog.functions.get(prog.resolve_name(mod, c.func.id))
            elif isinstance(c.func, ast.Attribute):
                callee = prog.functions.get(prog.dotted(mod, c.func))
                if callee is None and norm(c.func.value) in ("self", "cls") \
                        and fi.cls:
                    callee = prog.functions.get("%s.%s.%s" % (
                        fi.module, fi.cls, c.func.attr))
            if callee is None:
                continue
            params = [p_ for p_ in callee.params if p_ not in ("self", "cls")]
            n += 1
            crossed = [(i, a.id, params[i]) for i, a in enumerate(c.args)
                       if isinstance(a, ast.Name) and a.id in params
                       and i < len(params) and params[i] != a.id]
            ctx.check(rule, fi, "argument order of " + norm(c, 60),
                      not crossed,
                      "argument %s is passed at the position of parameter "
                      "`%s` of %s" % (["`%s`" % x[1] for x in crossed],
                                      crossed[0][2] if crossed else "",
                                      callee.short), node=c)
    return n
