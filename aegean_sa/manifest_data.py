"""Table from which tools/gen_manifest.py writes MANIFEST.json."""

ENGINES = [
    {"name": "E0 program model", "path": "aegean_sa/core.py",
     "serves_properties": ["C%02d" % i for i in range(1, 21)],
     "kind_free_text": "ast loader, symbol/import tables, constant folder, "
                       "findings, evidence, known-findings handling"},
    {"name": "E0 CFG", "path": "aegean_sa/cfg.py",
     "serves_properties": ["C03", "C06", "C07", "C08", "C20"],
     "kind_free_text": "statement-level control-flow graph with "
                       "try/except/finally, dominators and path queries "
                       "(networkx)"},
    {"name": "E0 call graph", "path": "aegean_sa/callgraph.py",
     "serves_properties": ["C01", "C03", "C05", "C07", "C08", "C09", "C10",
                           "C11"],
     "kind_free_text": "resolved package call graph incl. function values"},
    {"name": "E1 link check", "path": "aegean_sa/link.py",
     "serves_properties": ["C01", "C03", "C05", "C08", "C09", "C10", "C11"],
     "kind_free_text": "resolves third-party attribute chains against the "
                       "libraries installed in /venv (symbol tables only)"},
    {"name": "E2 abstract interpreter", "path": "aegean_sa/absint.py",
     "serves_properties": ["C01", "C03", "C05", "C08", "C09", "C10", "C11",
                           "C12", "C14", "C16", "C19", "C20"],
     "kind_free_text": "AST-directed forward abstract interpretation with "
                       "numeric-kind / unit / index facets and library "
                       "summaries (lib.py, units.py)"},
    {"name": "E5 algebraic normal forms", "path": "aegean_sa/sym.py",
     "serves_properties": ["C03", "C04", "C12", "C15", "C17", "C19"],
     "kind_free_text": "value numbering of loop-free kernels into sympy "
                       "expressions, identity by canonical form"},
]

NOTES = ("All checks are static analyses of /repo's current source; see "
         "DESIGN.md. Exit codes: 0 pass (known findings printed), 1 "
         "VIOLATION, 2 ANALYSIS-ERROR (anchor vanished / idiom not "
         "recognised / instance floor not met).")

TODO = "check not built yet in this round (static design exists in DESIGN.md)"


def fill(add, na):
    add("C08",
        "numeric-kind abstract interpretation + CFG typestate + linear forms "
        "+ link check",
        "Decides structural necessary conditions of the region set algebra: "
        "integer pixel ids at every insertion, cache invalidation on every "
        "mutating path, operation-to-set-method table with demote/renorm "
        "ordering and depth guard, exact parent/children arithmetic in "
        "promotion/demotion, purity of query methods, level coverage of "
        "consumers, resolvable library symbols.",
        "healpy's pixelisation; exploration of operation histories (argued "
        "inductively from the per-method clauses).", "DESIGN.md §4 C08")
    for p in ["C%02d" % i for i in range(1, 21)]:
        if p != "C08":
            na[p] = TODO
