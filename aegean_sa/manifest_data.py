"""Table from which tools/gen_manifest.py writes MANIFEST.json."""

ENGINES = [
    {"name": "E0 program model", "path": "aegean_sa/core.py",
     "serves_properties": ["C%02d" % i for i in range(1, 21)],
     "kind_free_text": "ast loader, symbol/import tables, constant folder, "
                       "findings, evidence, known-findings handling"},
    {"name": "E0 CFG", "path": "aegean_sa/cfg.py",
     "serves_properties": ["C03", "C06", "C07", "C08", "C20"],
     "kind_free_text": "statement-level control-flow graph with "
                       "try/except/finally, dominators and path queries "
                       "(networkx)"},
    {"name": "E0 call graph", "path": "aegean_sa/callgraph.py",
     "serves_properties": ["C01", "C03", "C05", "C07", "C08", "C09", "C10",
                           "C11"],
     "kind_free_text": "resolved package call graph incl. function values"},
    {"name": "E1 link check", "path": "aegean_sa/link.py",
     "serves_properties": ["C01", "C03", "C05", "C08", "C09", "C10", "C11"],
     "kind_free_text": "resolves third-party attribute chains against the "
                       "libraries installed in /venv (symbol tables only)"},
    {"name": "E2 abstract interpreter", "path": "aegean_sa/absint.py",
     "serves_properties": ["C01", "C03", "C05", "C08", "C09", "C10", "C11",
                           "C12", "C14", "C16", "C19", "C20"],
     "kind_free_text": "AST-directed forward abstract interpretation with "
                       "numeric-kind / unit / index facets and library "
                       "summaries (lib.py, units.py)"},
    {"name": "E5 algebraic normal forms", "path": "aegean_sa/sym.py",
     "serves_properties": ["C03", "C04", "C12", "C15", "C17", "C19"],
     "kind_free_text": "value numbering of loop-free kernels into sympy "
                       "expressions, identity by canonical form"},
]

NOTES = ("All checks are static analyses of /repo's current source; see "
         "DESIGN.md. Exit codes: 0 pass (known findings printed), 1 "
         "VIOLATION, 2 ANALYSIS-ERROR (anchor vanished / idiom not "
         "recognised / instance floor not met).")

TODO = "check not built yet in this round (static design exists in DESIGN.md)"


# clauses added after the seeding / refactoring rounds (DESIGN.md 8.5, 10)
EXTRA = {
    "C01": " Also: integrated-flux formula (R7), every pixel-mask "
           "segmentation 8-connected (R8), forced / estimated noise and "
           "background maps over the four combinations (R9), axis roles of "
           "widths, negated angles, sexagesimal string kinds, scalar index "
           "axes and pending scale factors at contract sites."
           " No write through a view of the shared image / noise arrays "
           "in the blind fit (R10); the fitted pixels are blanked "
           "wherever another island's label is present (R11)."
           " The point-source shortcut for small islands is interpreted "
           "for 7 pixels and 3-pixel-wide islands (R12)."
           " The background is subtracted exactly once before "
           "segmentation (R13, shared with C02-R9)."
           " Standard errors from the Jacobian whitened like the fit "
           "(R14), argument binding over the blind-finding call graph "
           "(R15), negative sources mirror positive ones (R16)."
           " The great-circle formulae behind the sky sizes are exact and well conditioned at small separations (R17)."
           " The whitening matrix clips its eigenvalues relative to the largest one (R18); the rotation angle is fitted without bounds (R19).",
    "C02": " Also: the island loop visits all labels with the exact label "
           "slices, blanks a copy, and passes (row, column) offsets (R8)."
           " The image handed to find_islands has its background "
           "subtracted exactly once (R9)."
           " A pre-selected island loop enumerates exactly the seeded "
           "labels (label-set domain, R8); the guards of the "
           "background subtraction are interpreted over sample "
           "backgrounds (R9)."
           " Out-of-group pixels are marked with NaN, never with a "
           "number a pixel can take (R8)."
           " find_islands does not write into its arguments (R10)."
           " The seed test is aggregated over all own pixels (R2)."
           " Forced noise / background maps are not replaced by the estimate (R11)."
           " The own-pixel selector is true ON the island's label (R3); an "
           "island is skipped after blanking exactly when no finite pixel "
           "is left (R12).",
    "C03": " Also: sign of every value stored into err_* (R11), the island "
           "number stored is the island's own (R2)."
           " The sexagesimal formatters carry after the integer "
           "rounding and wrap afterwards (R12, R13; shared with C17)."
           " Island rows by role: extent, pixel count, component count, "
           "widths, selection parity (R9); flag bits reach the stored "
           "flags parameter (R14)."
           " The island cut-out excludes other islands' pixels (R15, "
           "shared with C01-R11)."
           " No state shared between SourceFinder instances (R16)."
           " The priorized fitting box is cut with row bounds from row quantities and column bounds from column quantities (R17); pa_limit / fix_shape are interpreted over sample values (R4)."
           " Island rows take their polarity the way the component fit does (R18); the formatters reproduce a reference decomposition over sample angles (R19); both RA wraps are interpreted (R4)."
           " The psf accessors hand positions to the conversions in (row, column) order (R20).",
    "C04": " Also: each err_* field depends on the stderr of its own "
           "parameter (R8, dependency analysis), covariance-model contract "
           "sites (R9), no narrow dtype in fitting.py (R7)."
           " The noise level of the error model is read from the "
           "island's own cut-out (R10)."
           " No loop-carried state in the component loops (R11); axis "
           "roles of the coordinate arrays handed to the derivative "
           "routines (R9)."
           " Fit, covariance and Fisher matrix select the same (finite) pixels (R12)."
           " The whitening floor is relative to the largest eigenvalue (R13); guarded (piecewise) derivative rows must be right on both branches (R1)."
           " The whitening factor evaluates to 1/sqrt(L), the floor is a "
           "fixed small fraction of the largest eigenvalue, the correlation "
           "matrix has unit amplitude (R13); the model function is the sum "
           "of its components with name-aligned parameters (R14); the "
           "1-sigma index starts at 0 (R4).",
    "C05": " Also: refit lower shape bound <= blind-fit lower bound (R7, "
           "symbolic with counter-example), default regrouping length in "
           "arcmin (R8)."
           " Cut-outs given as slice objects (R3, R4); no write through "
           "a view of the shared arrays in the refit (R9)."
           " Catalogues without psf columns keep their sources in "
           "resize (R10, interpreted for nan)."
           " The loops over islands, sources and batches run to "
           "completion (R11)."
           " Argument binding (R12), groupby only over sorted sequences "
           "(R13), axis of clip bounds (R6)."
           " Single-pixel look-ups are guarded at both ends of both axes (R14); the psf branch of resize is interpreted over sample sizes (R15)."
           " A Beam is built from a psf accessor value only after a finiteness test (R16).",
    "C06": " Also: double precision until the final cast (R6), row / column "
           "axis discipline of the worker (R7), plane addressing of 3-d / "
           "4-d inputs (R8)."
           " No NaN is replaced by a number inside the estimator (R9)."
           " Argument binding in BANE (R10), nothing memoised (R11)."
           " Every comparison in sigmaclip / sigma_filter is homogeneous in the pixel values, no absolute tolerance (R12)."
           " The background is combined by subtraction, the block holds every "
           "column (R1); a manually scaled block is read raw (R3); the box "
           "of every grid node, interpreted on sample nodes, is non-empty, "
           "starts at >= 0 and lies within half a box of the node (R13).",
    "C07": " Also: row / column axis discipline of the stripe halo and box "
           "(R7)."
           " The pool / barrier rule is decided when only one side is "
           "clamped (R1)."
           " Pool typestate: join only after close / terminate; names "
           "read before the release are bound on failure paths (R4)."
           " No finite barrier timeout (R3); exported buffer views are "
           "released before close() (R4)."
           " The closing node of each interpolation axis is >= the range stop for every stripe height (R8)."
           " The stripe count does not depend on the worker count when a request is given (R9)."
           " The background is removed from the whole loaded block, halo rows included (R10)."
           " The loaded block reaches half a box beyond the stripe on either "
           "side and stays inside the image (bounds interpreted for sample "
           "stripes, R11).",
    "C08": " Also: bypass paths of the set operations only where the "
           "operation is the identity (R3), the cache is never mutated in "
           "place (R9), no narrow integer / float dtype (R10), add_pixels "
           "adds (R11)."
           " Derived caches are reset with the demoted cache (R12)."
           " Membership answers are look-ups in the flattened set (R13, "
           "shared with C09-R6)."
           " Shape builders store inclusive-query pixels at the query "
           "level (R14), plain pickling (R15), the normaliser writes "
           "only levels 1..maxdepth (R6)."
           " Every given pixel is merged (R11), the area is count x pixel area of the deepest level (R8), union covers all deeper levels (R3)."
           " Only non-finite positions are forced to False, per position (R17).",
    "C09": " Also: membership look-up contract of numpy.isin (R6), the "
           "non-finite mask is exact and taken from values that are still "
           "non-finite (R3), angular-length vs coordinate kinds."
           " Cache aliasing (R7, shared with C08-R9)."
           " Nothing applied before the degin conversion uses an "
           "angular constant (R8)."
           " Every stored pixel list comes from the inclusive query and "
           "the storage level does not depend on the shape (R1)."
           " The depth clamp is interpreted for None / below / at / above maxdepth (R9); no fractional store into an inherited dtype (R10); the non-finite mask is decided per position (R3).",
    "C10": " Also: enumeration order of the pixel list vs reshape (R7), "
           "undefined coordinates never inside (R8), column-name kinds."
           " Paths that bypass the masked write exist only behind an "
           "emptiness test of the final mask (R3)."
           " The driver mask_file writes no pixel values itself; every "
           "plane goes through the 2-d routine (R3, R4)."
           " The image is not narrowed to a smaller float type (R9)."
           " Masked table cells become undefined positions (R10), "
           "nothing memoised in regions / MIMAS (R11)."
           " The membership look-up is called within numpy.isin's contract (R12)."
           " Coordinate columns reach the membership test with their mask (R10, callers included); the position list holds one entry per pixel in blocks of one row (R7)."
           " Blanks are stored into the image itself, not through a method result (R2).",
    "C11": " Also: the tested pixels are exactly the own pixels (R2), the "
           "flattening sees every stored level (R6)."
           " The region is never re-bound or dropped on a partial test; "
           "membership is decided in the island loop (R3)."
           " Derived caches of the membership test are reset with the "
           "demoted cache (R7)."
           " Membership answers are look-ups in the flattened set (R8)."
           " The stored region is the given object, unmodified (R4)."
           " The membership test is asked only by the island finders (R9).",
    "C12": " Also: cache aliasing (R6), vertex (lon, lat) order and RA in "
           "hours at SkyCoord (R4)."
           " No sign carried by an integer sexagesimal field in the DS9 "
           "writer (R4)."
           " The template's table is replaced on every path to the "
           "output (R3)."
           " Exports never iterate the level dictionary itself and the "
           "normaliser stays within levels 1..maxdepth (R1)."
           " MOC keywords go to the table HDU (R3); no masked overwrite in vec2sky (R7); corner vectors converted to degrees (R8); the set operations that precede an export (R9, shared with C08-R3).",
    "C13": " Also: parity analysis under image -> -image of the detection "
           "statistic, summit key, summit acceptance (R4) and of the "
           "catalogue fields (R5)."
           " Guards of load_globals on pixel data take the same value "
           "for negated data (R6)."
           " The err_int_flux computation is interpreted for a source "
           "and its mirror image (R7)."
           " The island summary picks the same pixel for an island and "
           "its negation (R8)."
           " The filter tests peak_flux only (R1); peak and trough filters are mirror images without a one-sided fill (R10).",
    "C14": " Also: off-image skip guards evaluated over orderings (R4)."
           " The guards are also interpreted for an undefined (NaN) "
           "centre (R4)."
           " Single-precision table cells are promoted to double (R7)."
           " Sources are placed with the inverse of the catalogue's "
           "transformation family (R9); outputs of make_residual (R8)."
           " Argument binding in AeRes (R10); sorting a pair of "
           "axis-typed values loses the axis role (R1)."
           " Threshold selection interpreted for frac in {None, 0, 0.0, 0.25} (R5); log-level dependent blocks bind nothing used later (R12); model centre = position - 1 (R13)."
           " The command line turns a non-positive --frac into None (R14).",
    "C15": " Also: node arrays not edited after their definition, "
           "decimation starts at pixel 0 (R3)."
           " Row and column extents of compress never influence each "
           "other (R5)."
           " The output file is written after the last header / data "
           "modification (R6)."
           " Raw values are scaled by BSCALE exactly once wherever "
           "files are opened unscaled (R7)."
           " Every key rescaled by compress is rescaled back by expand "
           "(R2); nothing memoised in fits_tools (R8)."
           " compress followed by expand restores every keyword and removes the BN_ keywords, interpreted over model headers (R2); the integer bookkeeping of compress is interpreted over sample sizes (R9); one HDU index (R10)."
           " The header returned for a compressed auxiliary file is the expanded header with the band's two changes (R11).",
    "C16": " Also: dependency of each output of the ellipse / vector "
           "transforms on its own inputs (R5), |cos(defect)| correction in "
           "both siblings (R7), no narrow dtype (R6)."
           " Position angles from two-argument arctangents (R8)."
           " No memoised or shared state in the conversions (R9)."
           " Forward and inverse WCS calls belong to one astropy family "
           "(R10)."
           " No snapping of computed coordinates to constants (R3), no "
           "in-place arithmetic on an inherited dtype (R11)."
           " Argument binding over wcs_helpers (R12)."
           " The pixel-plane halves of the vector / ellipse conversions are inverse (R13, interpreted over sample vectors); the constant pixel beam is the one __init__ stores (R14).",
    "C17": " Also: conditioning near zero separation (R6), purity of the "
           "vectorised primitives (R7), no narrow dtype (R8)."
           " The rounded seconds are an integer number of output "
           "quanta, not rescaled afterwards (R4)."
           " The placeholder is returned exactly for non-finite input "
           "(R9); no snapping in translate (R3)."
           " The quantum of the rounded total is one printed unit (R4)."
           " arcsin / arccos arguments are clamped (R10); no whole-array decision in the formula functions (R11); the formatters reproduce a reference decomposition (R12); the parser's arithmetic is D +- (M/60 + S/3600) (R5)."
           " The sign of a parsed angle is read from the first field (R5).",
    "C18": " Also: exhaustive type dispatch of the sqlite and FITS writers "
           "(R7), value provenance in the reader (R4)."
           " No reordering between catalogue and table rows (R8)."
           " The per-type outputs are independent of each other (R9)."
           " Column types are decided by all rows (R10)."
           " Exact float parsing on read (R11), nothing memoised in "
           "catalogs (R12)."
           " No value-substituting function (nulls) is applied to individual field values (R13)."
           " No NaN / masked entry becomes a number (R14).",
    "C19": " Also: no narrow dtype in the grouping pipeline (R8)."
           " Ratio 1 is the identity also for unknown (nan) psf (R7); "
           "the greedy variant joins the matched group exactly once "
           "(R9)."
           " groupby only over sorted sequences (R10), island and "
           "component numbers written together (R2)."
           " Record columns are filled with the attribute of their name (R12).",
    "C20": " Also: plane addressing of cubes with sibling agreement (R5), "
           "BSCALE applied exactly once (R6)."
           " No memoised or module-level state on the load path (R7)."
           " Compressed inputs recognised by keyword presence (R8)."
           " The whole loaded block is scaled by BSCALE (R6)."
           " Nothing memoised in fits_tools (R7)."
           " The band's header as a whole, plain and compressed input (R9); whole rows and NAXIS dispatch (R10).",
}


def fill(add0, na):
    def add(pid, tech, text, nd, ref):
        add0(pid, tech, text + EXTRA.get(pid, ""), nd, ref)
    add("C02",
        "role-anchored AST rules + flow-ordered data dependence + constant "
        "folding",
        "Decides structural necessary conditions of the island definition in "
        "find_islands / calc_bounding_box: full 3x3 connectivity, exact "
        "threshold comparisons and complement mask, own-label restriction of "
        "the seed test and region pixel list, no flux-truthiness membership, "
        "axis/offset pairing and +1 upper bounds of the bounding box and its "
        "consumers, seed monotonicity, disjointness term.",
        "scipy's labelling; behaviour on specific images.",
        "DESIGN.md §4 C02")
    add("C04",
        "value numbering into sympy + canonical-form identity, sibling "
        "agreement, def-use patterns",
        "Decides that every row of the analytic Jacobian is identically the "
        "partial derivative of the inlined model (theta in degrees), that row "
        "order agrees with every model builder / stderr loop, that the "
        "1-sigma index is global across components, that the 1-sigma vector "
        "is sqrt(diag(inv(J^T[C^-1]J))) with consistently whitened J, and "
        "that the Dfun wrapper matches the kws it is called with.",
        "floating-point accuracy; lmfit internals.", "DESIGN.md §4 C04")
    add("C07",
        "concurrency-structure analysis: roles, worker call-graph closure, "
        "CFG phases and path rules, uniformity taint",
        "Decides barrier arity vs pool size, the barrier protocol in worker "
        "code (no reset, uniform wait sequence), failure containment (abort "
        "before re-raise), shared-memory release on all normal and "
        "exceptional paths, per-phase cross-stripe race freedom and the "
        "stripe tiling idiom.",
        "OS-level multiprocessing behaviour, timing, the numerical effect of "
        "different stripe counts.", "DESIGN.md §4 C07")
    add("C08",
        "numeric-kind abstract interpretation + CFG typestate + linear forms "
        "+ link check",
        "Decides structural necessary conditions of the region set algebra: "
        "integer pixel ids at every insertion, cache invalidation on every "
        "mutating path, operation-to-set-method table with demote/renorm "
        "ordering and depth guard, exact parent/children arithmetic in "
        "promotion/demotion, purity of query methods, level coverage of "
        "consumers, resolvable library symbols.",
        "healpy's pixelisation; exploration of operation histories (argued "
        "inductively from the per-method clauses).", "DESIGN.md §4 C08")
    add("C10",
        "index-origin/axis abstract interpretation with taint to position "
        "sinks + boolean polarity tabulation + frame condition + link check",
        "Decides that the pixel grid handed to the WCS is (column,row) "
        "ordered with the announced origin and reaches sky_within in "
        "degrees, that blanking/keeping polarity matches the stated table "
        "for negate in {False,True}, that the only image write is "
        "data[mask]=nan, that cube planes are masked identically, and that "
        "all library symbols resolve.",
        "astropy WCS and HEALPix geometry; 4-d inputs with two "
        "non-degenerate extra axes.", "DESIGN.md §4 C10")
    add("C11",
        "index-origin/axis abstract interpretation + data dependence + "
        "forward taint (non-interference) + link check",
        "Decides that island pixels are converted to sky with matching axis "
        "offsets, (column,row) order and origin, that the tested pixels are "
        "the island's own, that region-derived values influence only the "
        "skip guard (so the restricted run is a filter of the unrestricted "
        "one), and the region loading cases.",
        "numerical equality of fitted values; healpy/astropy behaviour.",
        "DESIGN.md §4 C11")
    add("C12",
        "linear-form level coverage + sympy identity + role-anchored call "
        "argument rules",
        "Decides level coverage of all full-region consumers, the NUNIQ "
        "code identity 4*4**d+ipix, MOC header/column dependence on "
        "maxdepth/_uniq, healpy.boundaries arguments and one polygon per "
        "pixel, and the absence of pickling hooks with paired save/load.",
        "byte-level FITS/DS9 correctness.", "DESIGN.md §4 C12")
    add("C01",
        "unit / width-kind / index-origin abstract interpretation with "
        "contracts + interprocedural lmfit provenance + link check",
        "Decides the convention chain from image pixel to catalogue row for "
        "blind finding: every contracted call, catalogue-field store (live "
        "at exit) and return agrees in unit (deg/rad/arcsec/pix), width "
        "kind (sigma/FWHM), sky kind and pixel index type (row/col, 0/1 "
        "origin, frame); the initial model matches the parameter "
        "contracts; the residual/Jacobian wiring; lmfit values converted "
        "before int-only uses; all library symbols resolve.",
        "optimiser convergence, the numeric tolerances, the noise clause, "
        "BANE's estimates.", "DESIGN.md §4 C01")
    add("C03",
        "CFG dominance/path rules + syntactic value-domain closure + sympy "
        "identity + call-graph handler agreement + taint + link check",
        "Decides island-number injectivity across priorized batches "
        "(stride vs batch length) and the blind counter, component "
        "numbering, the flag and error value domains, the normalisation "
        "order fix_shape -> pa_limit -> RA wrap -> strings with pa_limit's "
        "post-condition, the int_flux formula, that nondeterminism reaches "
        "only uuids, that both drivers guard the fit with the NaN-model "
        "handler, the island summary's index origin, lmfit int conversions "
        "and library symbols.",
        "that fits succeed numerically; equality of repeated runs beyond "
        "absence of nondeterminism sources.", "DESIGN.md §4 C03")
    add("C05",
        "finite tabulation of stage predicates + paired-update/CFG rules + "
        "D-num abstract interpretation + sentinel agreement + unit contracts",
        "Decides the stage->vary table and its complement guards, the "
        "uuid/PRIORIZED copy-back pairing with the accepted-source list, "
        "integer-valued cut-out bounds that double as coordinate offsets, "
        "that only the frame shift by the matching axis offset rewrites "
        "parameters, the psf-column sentinel used by resize, and the "
        "units/kinds/index origins of the priorized model.",
        "numerical equality of refitted fluxes; blends.", "DESIGN.md §4 C05")
    add("C06",
        "offset-equivariance typing over the worker CFG + def-use patterns",
        "Decides that the background is subtracted from the whole loaded "
        "block with the matching background rows before the noise pass "
        "(shift invariance of the rms map), pass 1 = clipped mean / pass 2 "
        "= clipped std from the same symmetric clipping routine, BSCALE "
        "applied and removed exactly once, NaN masking of own rows after "
        "the last interpolated write under domask, and interpolation nodes "
        "spanning the evaluation grid with (NAXIS2, NAXIS1) outputs.",
        "statistical accuracy, range bounds, the blank-distance clause, "
        "compressed outputs.", "DESIGN.md §4 C06")
    add("C09",
        "unit/kind abstract interpretation with column arrays and flag "
        "specialisation + role-anchored argument rules + CFG last-writer",
        "Decides the healpy query flags and nside/depth agreement, the "
        "(lon,lat)->(colatitude,longitude) radians chain into healpy and "
        "back (specialised on degin / degrees), the units every in-package "
        "caller passes, that non-finite positions are forced to False "
        "last, that flattening covers all stored levels, scalar/vector/"
        "empty input shapes.",
        "the geometric covering guarantee (healpy's contract), area "
        "bounds.", "DESIGN.md §4 C09")
    add("C13",
        "finite tabulation + non-interference (read-set) + mirror-branch "
        "agreement with sympy + sign-agnostic-use rule",
        "Decides the polarity filter table over sign x flags, that the "
        "flags are read only by the filter, that the isnegative branches "
        "mirror the positive ones (extrema, curvature/clip conditions, "
        "amplitude bounds under amp -> -amp), and that every sign-agnostic "
        "use of pixel data (detection, summit ordering, summit snr) goes "
        "through abs().",
        "optimiser symmetry; islands containing both signs.",
        "DESIGN.md §4 C13")
    add("C14",
        "unit/kind/index abstract interpretation + structural window, sign "
        "and guard rules",
        "Decides arcsec->deg, FWHM->sigma, degrees and the 0-based centre "
        "on the 0-based grid at the model call; window half-widths using "
        "both axes and the rotation with factor >= 5 and axis-matched "
        "floor/ceil clipping; add/mask sign pairing and += accumulation; "
        "off-image guards before indexing; mask thresholds; position-wise "
        "column renaming.",
        "float32 accumulation error; the find->subtract residual.",
        "DESIGN.md §4 C14")
    add("C15",
        "writer/reader key tables + sympy inverse-map composition + CFG "
        "path rules",
        "Decides BN_* key agreement between compress / is_compressed "
        "(presence test) / expand on every success path, that expand's "
        "CRPIX map inverts compress's and CDELT/CD are scaled by the same "
        "factor both ways, stride == BN_CFAC == node spacing with node k "
        "at k*factor and row/column extents from NPX2/NPX1, and transparent "
        "expansion before slicing / shape comparison.",
        "values in the incomplete last cell; interpolation accuracy.",
        "DESIGN.md §4 C15")
    add("C16",
        "sibling agreement of inverse pair + unit/kind/index abstract "
        "interpretation of bodies against contracts",
        "Decides that pix2sky/sky2pix/psf_sky2pix share one origin literal "
        "and inverse (row,col)<->(x,y) swaps, that the vector/ellipse "
        "transforms feed degrees to translate/gcd/bear and radians to trig "
        "with no mixed deg/rad sums, return contracted units and kinds, and "
        "that psf look-ups return (major, minor, angle) on every branch.",
        "round-trip tolerances; non-orthogonality correction accuracy.",
        "DESIGN.md §4 C16")
    add("C17",
        "value numbering into sympy + canonical-form identity + "
        "quantise-before-split rule + parse/format agreement",
        "Decides that gcd/bear/translate are identically the reference "
        "spherical formulae (haversine identity, symmetry, position-angle "
        "pair, destination point), that every fixed-decimal sexagesimal "
        "field derives from a total quantised before splitting and hours "
        "are reduced mod 24 after rounding, and separator/sign/15x "
        "agreement between formatters and parsers.",
        "floating-point agreement to 1e-9 deg near 0/180 deg; triangle "
        "inequality numerics.", "DESIGN.md §4 C17")
    add("C18",
        "sibling / writer-reader agreement over class tables and dispatch "
        "lists",
        "Decides subclass-before-base classification, tuple-position and "
        "suffix/table-name pairing, names being initialised attributes "
        "iterated alike by reader and writer, FITS typing (32/64-bit ints, "
        "float err columns, string widths over the whole column) and that "
        "every advertised extension reaches a writer branch.",
        "numeric precision of astropy's writers; sqlite contents.",
        "DESIGN.md §4 C18")
    add("C19",
        "frame-condition (write-set) + sympy identities (embedding, chord, "
        "resize) + role-anchored argument rules",
        "Decides that regrouping writes only island/source labels, labels "
        "come from enumerate with a strictly flux-decreasing key, DBSCAN "
        "arguments, the unit-vector embedding, the arcsec->arcmin->deg->rad"
        "->chord conversion 2 sin(theta/2) at both call sites, the "
        "labels->groups partition and resize's identity/monotonicity.",
        "DBSCAN's implementation; the elliptical-distance variant's "
        "connectivity and permutation invariance.", "DESIGN.md §4 C19")
    add("C20",
        "exactness (D-num) rule + sympy floor identities + CFG path rule + "
        "finite tabulation of guards",
        "Decides that band boundaries are exact integer arithmetic, "
        "consecutive, starting at 0 and ending at NAXIS2; that NAXIS2 and "
        "CRPIX2 are adjusted on every path to a return (compressed inputs "
        "included); that the guards accept exactly 0 <= band0 < band1; and "
        "that data and header use the same row bounds.",
        "pixel values for scaled integer images.", "DESIGN.md §4 C20")
    for p in ["C%02d" % i for i in range(1, 21)]:
        na.setdefault(p, TODO)
