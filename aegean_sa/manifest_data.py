"""Table from which tools/gen_manifest.py writes MANIFEST.json."""

ENGINES = [
    {"name": "E0 program model", "path": "aegean_sa/core.py",
     "serves_properties": ["C%02d" % i for i in range(1, 21)],
     "kind_free_text": "ast loader, symbol/import tables, constant folder, "
                       "findings, evidence, known-findings handling"},
    {"name": "E0 CFG", "path": "aegean_sa/cfg.py",
     "serves_properties": ["C03", "C06", "C07", "C08", "C20"],
     "kind_free_text": "statement-level control-flow graph with "
                       "try/except/finally, dominators and path queries "
                       "(networkx)"},
    {"name": "E0 call graph", "path": "aegean_sa/callgraph.py",
     "serves_properties": ["C01", "C03", "C05", "C07", "C08", "C09", "C10",
                           "C11"],
     "kind_free_text": "resolved package call graph incl. function values"},
    {"name": "E1 link check", "path": "aegean_sa/link.py",
     "serves_properties": ["C01", "C03", "C05", "C08", "C09", "C10", "C11"],
     "kind_free_text": "resolves third-party attribute chains against the "
                       "libraries installed in /venv (symbol tables only)"},
    {"name": "E2 abstract interpreter", "path": "aegean_sa/absint.py",
     "serves_properties": ["C01", "C03", "C05", "C08", "C09", "C10", "C11",
                           "C12", "C14", "C16", "C19", "C20"],
     "kind_free_text": "AST-directed forward abstract interpretation with "
                       "numeric-kind / unit / index facets and library "
                       "summaries (lib.py, units.py)"},
    {"name": "E5 algebraic normal forms", "path": "aegean_sa/sym.py",
     "serves_properties": ["C03", "C04", "C12", "C15", "C17", "C19"],
     "kind_free_text": "value numbering of loop-free kernels into sympy "
                       "expressions, identity by canonical form"},
]

NOTES = ("All checks are static analyses of /repo's current source; see "
         "DESIGN.md. Exit codes: 0 pass (known findings printed), 1 "
         "VIOLATION, 2 ANALYSIS-ERROR (anchor vanished / idiom not "
         "recognised / instance floor not met).")

TODO = "check not built yet in this round (static design exists in DESIGN.md)"


def fill(add, na):
    add("C02",
        "role-anchored AST rules + flow-ordered data dependence + constant "
        "folding",
        "Decides structural necessary conditions of the island definition in "
        "find_islands / calc_bounding_box: full 3x3 connectivity, exact "
        "threshold comparisons and complement mask, own-label restriction of "
        "the seed test and region pixel list, no flux-truthiness membership, "
        "axis/offset pairing and +1 upper bounds of the bounding box and its "
        "consumers, seed monotonicity, disjointness term.",
        "scipy's labelling; behaviour on specific images.",
        "DESIGN.md §4 C02")
    add("C04",
        "value numbering into sympy + canonical-form identity, sibling "
        "agreement, def-use patterns",
        "Decides that every row of the analytic Jacobian is identically the "
        "partial derivative of the inlined model (theta in degrees), that row "
        "order agrees with every model builder / stderr loop, that the "
        "1-sigma index is global across components, that the 1-sigma vector "
        "is sqrt(diag(inv(J^T[C^-1]J))) with consistently whitened J, and "
        "that the Dfun wrapper matches the kws it is called with.",
        "floating-point accuracy; lmfit internals.", "DESIGN.md §4 C04")
    add("C07",
        "concurrency-structure analysis: roles, worker call-graph closure, "
        "CFG phases and path rules, uniformity taint",
        "Decides barrier arity vs pool size, the barrier protocol in worker "
        "code (no reset, uniform wait sequence), failure containment (abort "
        "before re-raise), shared-memory release on all normal and "
        "exceptional paths, per-phase cross-stripe race freedom and the "
        "stripe tiling idiom.",
        "OS-level multiprocessing behaviour, timing, the numerical effect of "
        "different stripe counts.", "DESIGN.md §4 C07")
    add("C08",
        "numeric-kind abstract interpretation + CFG typestate + linear forms "
        "+ link check",
        "Decides structural necessary conditions of the region set algebra: "
        "integer pixel ids at every insertion, cache invalidation on every "
        "mutating path, operation-to-set-method table with demote/renorm "
        "ordering and depth guard, exact parent/children arithmetic in "
        "promotion/demotion, purity of query methods, level coverage of "
        "consumers, resolvable library symbols.",
        "healpy's pixelisation; exploration of operation histories (argued "
        "inductively from the per-method clauses).", "DESIGN.md §4 C08")
    add("C10",
        "index-origin/axis abstract interpretation with taint to position "
        "sinks + boolean polarity tabulation + frame condition + link check",
        "Decides that the pixel grid handed to the WCS is (column,row) "
        "ordered with the announced origin and reaches sky_within in "
        "degrees, that blanking/keeping polarity matches the stated table "
        "for negate in {False,True}, that the only image write is "
        "data[mask]=nan, that cube planes are masked identically, and that "
        "all library symbols resolve.",
        "astropy WCS and HEALPix geometry; 4-d inputs with two "
        "non-degenerate extra axes.", "DESIGN.md §4 C10")
    add("C11",
        "index-origin/axis abstract interpretation + data dependence + "
        "forward taint (non-interference) + link check",
        "Decides that island pixels are converted to sky with matching axis "
        "offsets, (column,row) order and origin, that the tested pixels are "
        "the island's own, that region-derived values influence only the "
        "skip guard (so the restricted run is a filter of the unrestricted "
        "one), and the region loading cases.",
        "numerical equality of fitted values; healpy/astropy behaviour.",
        "DESIGN.md §4 C11")
    add("C12",
        "linear-form level coverage + sympy identity + role-anchored call "
        "argument rules",
        "Decides level coverage of all full-region consumers, the NUNIQ "
        "code identity 4*4**d+ipix, MOC header/column dependence on "
        "maxdepth/_uniq, healpy.boundaries arguments and one polygon per "
        "pixel, and the absence of pickling hooks with paired save/load.",
        "byte-level FITS/DS9 correctness.", "DESIGN.md §4 C12")
    for p in ["C%02d" % i for i in range(1, 21)]:
        na.setdefault(p, TODO)
