"""Precision discipline: where a result must be good to double precision, no
value on the way may be cast to a narrower floating-point (or integer) type."""
from __future__ import annotations

import ast

from .core import norm

NARROW_FLOAT = {"numpy.float32", "numpy.float16", "numpy.half",
                "numpy.single"}
NARROW_FLOAT_STR = {"f4", "<f4", ">f4", "float32", "f2", "float16", "e", "f",
                    "single", "half"}
NARROW_INT = {"numpy.int32", "numpy.int16", "numpy.int8", "numpy.uint32",
              "numpy.uint16", "numpy.uint8", "numpy.intc", "numpy.short"}
NARROW_INT_STR = {"i4", "<i4", "int32", "i2", "int16", "i1", "int8", "u4",
                  "uint32", "u2", "uint16", "i", "h"}


def narrow_uses(prog, fi, floats=True, ints=False):
    """nodes of fi that name a narrow dtype (as an attribute / imported name,
    or as a dtype string given to dtype= / astype())"""
    mod = prog.modules[fi.module]
    names = set()
    strs = set()
    if floats:
        names |= NARROW_FLOAT
        strs |= NARROW_FLOAT_STR
    if ints:
        names |= NARROW_INT
        strs |= NARROW_INT_STR
    out = []
    for x in ast.walk(fi.node):
        if isinstance(x, (ast.Attribute, ast.Name)):
            d = prog.dotted(mod, x) if isinstance(x, ast.Attribute) \
                else prog.resolve_name(mod, x.id)
            if d in names:
                out.append(x)
        if isinstance(x, ast.Call):
            for k in x.keywords:
                if k.arg == "dtype" and isinstance(k.value, ast.Constant) \
                        and k.value.value in strs:
                    out.append(k.value)
            if isinstance(x.func, ast.Attribute) and \
                    x.func.attr == "astype" and x.args and \
                    isinstance(x.args[0], ast.Constant) and \
                    x.args[0].value in strs:
                out.append(x.args[0])
    return out


def stmt_of(fnode, node):
    for st in ast.walk(fnode):
        if isinstance(st, ast.stmt) and not isinstance(
                st, (ast.FunctionDef, ast.If, ast.For, ast.While, ast.With,
                     ast.Try)) and any(x is node for x in ast.walk(st)):
            return st
    return node


def rule(ctx, prog, rid, shorts, text, why, floats=True, ints=False,
         floor=1):
    """no narrow dtype in the functions `shorts` (those that exist)"""
    ctx.rule(rid, text)
    n = 0
    for short in shorts:
        if callable(short):
            fis = [f for f in prog.functions.values() if short(f.short)]
        elif prog.has_func(short):
            fis = [prog.func(short)]
        else:
            fis = []
        for fi in fis:
            n += 1
            uses = narrow_uses(prog, fi, floats, ints)
            ctx.check(rid, fi, "no narrow dtype in " + fi.short, not uses,
                      "%s: %s" % (why, [norm(stmt_of(fi.node, u), 70)
                                        for u in uses[:3]]),
                      node=uses[0] if uses else fi.node)
    ctx.floor(rid, n, floor, "functions examined for narrow dtypes")
    return n


def nan_replaced(prog, fi):
    """constructs of fi that turn NaN (blank) into an ordinary number:
    nan_to_num(...), np.where(<isnan / ~isfinite test>, <number>, x), and
    x[<isnan / ~isfinite test>] = <number>; returns [(node, description)]"""
    mod = prog.modules[fi.module]

    def callee(c):
        return (prog.dotted(mod, c.func) if isinstance(c.func, ast.Attribute)
                else prog.resolve_name(mod, norm(c.func))) or norm(c.func)

    def blank_test(e, depth=0):
        for x in ast.walk(e):
            if isinstance(x, ast.Call) and callee(x).split(".")[-1] in (
                    "isnan", "isfinite", "isinf"):
                return True
            if isinstance(x, ast.Name) and depth < 3:
                for st in ast.walk(fi.node):
                    if isinstance(st, ast.Assign) and any(
                            isinstance(t, ast.Name) and t.id == x.id
                            for t in st.targets) and \
                            blank_test(st.value, depth + 1):
                        return True
        return False

    def number(e):
        return isinstance(e, ast.Constant) and isinstance(
            e.value, (int, float)) and not isinstance(e.value, bool) and \
            e.value == e.value
    out = []
    for x in ast.walk(fi.node):
        if isinstance(x, ast.Call):
            d = callee(x)
            if d.split(".")[-1] == "nan_to_num":
                out.append((x, "nan_to_num"))
            if d.split(".")[-1] == "where" and len(x.args) == 3 and \
                    blank_test(x.args[0]) and (number(x.args[1]) or
                                               number(x.args[2])):
                out.append((x, "where(blank, number, ...)"))
            if d.split(".")[-1] == "filled":
                # masked entries (how the VOTable / FITS readers hand back
                # NaN cells) replaced by a fill value: the default is 1e20
                # for floats, 999999 for integers
                fv = (x.args[0] if isinstance(x.func, ast.Attribute) and
                      x.args else x.args[1] if len(x.args) > 1 else None)
                for k in x.keywords:
                    if k.arg == "fill_value":
                        fv = k.value
                isnan = fv is not None and norm(fv).split(".")[-1] in (
                    "nan", "NaN", "NAN")
                if not isnan:
                    out.append((x, "masked entries filled with %s" %
                                ("the default fill value (1e20)"
                                 if fv is None else norm(fv))))
        if isinstance(x, ast.Assign) and \
                isinstance(x.targets[0], ast.Subscript) and \
                number(x.value) and blank_test(x.targets[0].slice):
            out.append((x, "blank entries overwritten with a number"))
    return out


def inplace_on_inherited_dtype(prog, fi):
    """`v = np.array(p)` (no dtype) takes the dtype of whatever the caller
    passed; a later in-place update of v (v[i] += e, v += e, v[i] = <float
    expression>) is cast back to that dtype -- integers truncate a
    fractional offset.  Returns [(statement, description)]."""
    mod = prog.modules[fi.module]
    inherited = {}
    for st in ast.walk(fi.node):
        if isinstance(st, ast.Assign) and len(st.targets) == 1 and \
                isinstance(st.targets[0], ast.Name) and \
                isinstance(st.value, ast.Call):
            c = st.value
            d = prog.dotted(mod, c.func) if isinstance(c.func, ast.Attribute) \
                else (prog.resolve_name(mod, norm(c.func)) or norm(c.func))
            if d in ("numpy.array", "numpy.asarray", "numpy.copy",
                     "numpy.asanyarray", "numpy.atleast_1d") and c.args and \
                    not any(k.arg == "dtype" for k in c.keywords) and \
                    len(c.args) < 2 and \
                    isinstance(c.args[0], ast.Name) and \
                    c.args[0].id in fi.params:
                inherited[st.targets[0].id] = st
        # v = <param>.copy()
        if isinstance(st, ast.Assign) and len(st.targets) == 1 and \
                isinstance(st.targets[0], ast.Name) and \
                isinstance(st.value, ast.Call) and \
                isinstance(st.value.func, ast.Attribute) and \
                st.value.func.attr == "copy" and not st.value.args and \
                isinstance(st.value.func.value, ast.Name) and \
                st.value.func.value.id in fi.params:
            inherited[st.targets[0].id] = st
    out = []

    def floaty(e):
        """an arithmetic expression that is not integral for integer
        operands: true division, a float literal, pi / e"""
        for x in ast.walk(e):
            if isinstance(x, ast.BinOp) and isinstance(x.op, ast.Div):
                return True
            if isinstance(x, ast.Constant) and isinstance(x.value, float):
                return True
            if isinstance(x, ast.Attribute) and x.attr in ("pi", "e") and \
                    norm(x.value) in ("np", "numpy", "math"):
                return True
            if isinstance(x, ast.Call) and \
                    norm(x.func).split(".")[-1] in (
                        "radians", "degrees", "sin", "cos", "tan", "sqrt",
                        "arcsin", "arccos", "arctan2", "deg2rad", "rad2deg"):
                return True
        return False
    for st in ast.walk(fi.node):
        if isinstance(st, ast.Assign) and len(st.targets) == 1 and \
                isinstance(st.targets[0], ast.Subscript):
            b = st.targets[0]
            while isinstance(b, ast.Subscript):
                b = b.value
            if isinstance(b, ast.Name) and b.id in inherited and \
                    isinstance(st.value, (ast.BinOp, ast.Call)) and \
                    floaty(st.value):
                out.append((st, "%s is %s, so it has the caller's dtype; "
                            "`%s` stores a fractional value into it (for "
                            "integer input the value is truncated: pi/2 - 0 "
                            "becomes 1)" %
                            (b.id, norm(inherited[b.id].value, 40),
                             norm(st, 50))))
        if isinstance(st, ast.AugAssign):
            b = st.target
            while isinstance(b, ast.Subscript):
                b = b.value
            if isinstance(b, ast.Name) and b.id in inherited and \
                    isinstance(st.op, (ast.Add, ast.Sub, ast.Mult, ast.Div)):
                out.append((st, "%s is %s, so it has the caller's dtype; "
                            "`%s` is cast back to it (an integer pixel "
                            "position truncates the fractional offset)" %
                            (b.id, norm(inherited[b.id].value, 40),
                             norm(st, 50))))
    return out
