"""C01 -- closed-loop recovery of an injected Gaussian (convention chain)."""
from __future__ import annotations

import ast

from .. import callgraph, link, rules_num, unitrules
from ..core import (PKG, AnalysisError, arg_or_kw, kwarg, names_in, norm,
                    walk_no_nested)

EXPLANATION = (
    "Static analysis of the blind-finding chain (source_finder, fitting, "
    "wcs_helpers, angle_tools). Decides the convention chain from image "
    "pixel to catalogue row, any break of which is an error of >= 1 pixel, "
    "a factor 2.35, 57.3 or 3600 -- far outside the stated tolerances: "
    "R1 unit / width-kind / index-origin abstract interpretation of every "
    "contracted call, every store to a contracted catalogue field (checked "
    "on the value live at function exit) and every contracted return, in all "
    "functions reachable from find_sources_in_image (xo + xmin + 1, "
    "sx*CC2FWHM, *3600, theta in degrees, ...); R2 the initial model "
    "(params.add(prefix+S, value=v)) matches the parameter-suffix contracts; "
    "R3 optimiser wiring: the residual is model - data on the finite-pixel "
    "mask whose indices are the x/y handed to the Jacobian; R4 every lmfit "
    "Parameter.value reaching an int-only context is converted "
    "(interprocedural provenance); R5 every library symbol reachable from "
    "the driver resolves. Convergence, tolerances and the noise clause are "
    "not decided.")
ASSUMPTIONS = [
    "contracts table in aegean_sa/units.py transcribes the docstrings "
    "(pixel (row,col) 1-based for WCSHelper, sigma vs FWHM, degrees)",
    "astropy/lmfit/numpy behave as summarised (trusted_base)",
]

DRIVER = "source_finder.SourceFinder.find_sources_in_image"

MUTANTS = [
    ("rotation angle bounded at +-180", "AegeanTools/source_finder.py",
     "            params.add(prefix + \"theta\", value=theta, vary=psf_vary)",
     "            params.add(prefix + \"theta\", value=theta, min=-180, max=180,\n"
     "                       vary=psf_vary)", "C01-R19"),
    ("eigenvalue floor taken from the smallest eigenvalue",
     "AegeanTools/fitting.py", "    minL = 1e-9*L[-1]", "    minL = 1e-9*L[0]",
     "C01-R18"),
    ("haversine longitude term written as (1 - cos)/2",
     "AegeanTools/angle_tools.py",
     "np.sin(np.radians(dlon) / 2) ** 2",
     "(1 - np.cos(np.radians(dlon))) / 2", "C01-R17"),
    ("lower amplitude bound of negative sources above the peak",
     "AegeanTools/source_finder.py",
     "                    amp * 1.05 - innerclip * rmsimg[xo, yo],\n",
     "                    amp * 1.05 + innerclip * rmsimg[xo, yo],\n",
     "C01-R16"),
    ("errors from a Jacobian that is not scaled by the noise",
     "AegeanTools/fitting.py",
     "            J = lmfit_jacobian(params, mask[0], mask[1], B=B, errs=errs)",
     "            J = lmfit_jacobian(params, mask[0], mask[1], B=B)", "C01-R14"),
    ("driver hands the background map to find_islands",
     "AegeanTools/source_finder.py",
     "bkg=np.zeros_like(data),", "bkg=global_data.bkgimg,", "C01-R13"),
    ("three-pixel-wide islands fixed to the psf",
     "AegeanTools/source_finder.py",
     "            min(data.shape) <= 2\n", "            min(data.shape) <= 3\n",
     "C01-R12"),
    ("seven-pixel islands fixed to the psf", "AegeanTools/source_finder.py",
     "        non_nan_pix = len(data[np.where(np.isfinite(data))].ravel())\n"
     "        if 4 <= non_nan_pix <= 6:",
     "        non_nan_pix = len(data[np.where(np.isfinite(data))].ravel())\n"
     "        if 4 <= non_nan_pix <= 8:", "C01-R12"),
    ("drop +1 in x_pix", "AegeanTools/source_finder.py",
     "x_pix = xo + xmin + 1", "x_pix = xo + xmin", "C01-R1"),
    ("swap offsets", "AegeanTools/source_finder.py",
     "y_pix = yo + ymin + 1", "y_pix = yo + xmin + 1", "C01-R1"),
    ("drop CC2FHWM", "AegeanTools/source_finder.py",
     "(x_pix, y_pix), sx * CC2FHWM, sy * CC2FHWM, theta",
     "(x_pix, y_pix), sx, sy * CC2FHWM, theta", "C01-R1"),
    ("drop *3600 on a", "AegeanTools/source_finder.py",
     "            source.a *= 3600  # arcseconds\n", "", "C01-R1"),
    ("60 for 3600", "AegeanTools/source_finder.py",
     "            source.b *= 3600\n", "            source.b *= 60\n",
     "C01-R1"),
    ("theta in radians", "AegeanTools/source_finder.py",
     "(x_pix, y_pix), sx * CC2FHWM, sy * CC2FHWM, theta",
     "(x_pix, y_pix), sx * CC2FHWM, sy * CC2FHWM, np.radians(theta)",
     "C01-R1"),
    ("swapped pixel tuple", "AegeanTools/source_finder.py",
     "(x_pix, y_pix), sx * CC2FHWM", "(y_pix, x_pix), sx * CC2FHWM",
     "C01-R1"),
    ("psf in degrees", "AegeanTools/source_finder.py",
     "source.psf_a = local_beam.a * 3600", "source.psf_a = local_beam.a",
     "C01-R1"),
    ("initial sx as fwhm", "AegeanTools/source_finder.py",
     "            sx = pixbeam.a * FWHM2CC\n            sy = pixbeam.b * "
     "FWHM2CC\n\n            # lmfit does silly things if we start with "
     "these\n            # two parameters being equal\n            sx = "
     "max(sx, sy * 1.01)\n\n            # constraints are based on the shape "
     "of the island\n            # sx,sy can become flipped so we set the "
     "min/max account for this\n            sx_min, sx_max = (\n"
     "                sy * 0.8,\n                max((max(xsize, ysize) + 1)",
     "            sx = pixbeam.a\n            sy = pixbeam.b * "
     "FWHM2CC\n\n            # lmfit does silly things if we start with "
     "these\n            # two parameters being equal\n            sx = "
     "max(sx, sy * 1.01)\n\n            # constraints are based on the shape "
     "of the island\n            # sx,sy can become flipped so we set the "
     "min/max account for this\n            sx_min, sx_max = (\n"
     "                sy * 0.8,\n                max((max(xsize, ysize) + 1)",
     "C01-R2"),
    ("lmfit value un-converted", "AegeanTools/source_finder.py",
     "for j in range(int(model[\"components\"].value)):",
     "for j in range(model[\"components\"].value):", "C01-R4"),
    ("removed numpy symbol", "AegeanTools/fitting.py",
     "except (np.linalg.LinAlgError, ValueError) as _:\n            C = None",
     "except (np.linalg.linalg.LinAlgError, ValueError) as _:\n"
     "            C = None", "C01-R5"),
    ("err_a in degrees", "AegeanTools/fitting.py",
     "source.err_a = gcd(ref[0], ref[1], offset[0], offset[1]) * 3600",
     "source.err_a = gcd(ref[0], ref[1], offset[0], offset[1])", "C01-R1"),
    ("residual on all pixels", "AegeanTools/fitting.py",
     "            return model - data[mask]\n",
     "            return model - data.ravel()\n", "C01-R3"),
    ("integrated flux with one conversion factor", "AegeanTools/source_finder.py",
     "source.int_flux = source.peak_flux * sx * sy * CC2FHWM ** 2 * np.pi",
     "source.int_flux = source.peak_flux * sx * sy * CC2FHWM * np.pi", "C01-R7"),
    ("summits labelled 4-connected (the repaired defect)",
     "AegeanTools/source_finder.py",
     "        l, n = label(a, structure=np.ones((3, 3)))\n        f = find_objects(l)",
     "        l, n = label(a)\n        f = find_objects(l)", "C01-R8"),
    ("BANE skipped when either map is forced (seed C01c)",
     "AegeanTools/source_finder.py",
     "        if (forced_rms is not None) and (forced_bkg is not None):\n            return",
     "        if (forced_rms is not None) or (forced_bkg is not None):\n            return", "C01-R9"),
    ("estimated background overwrites the forced one",
     "AegeanTools/source_finder.py",
     "        if forced_bkg is None:\n            self.global_data.bkgimg = bkg",
     "        if forced_rms is None:\n            self.global_data.bkgimg = bkg", "C01-R9"),
    ("neighbouring island left in the cut-out (seed C01d)",
     "AegeanTools/source_finder.py",
     "                          (l[xmin:xmax, ymin:ymax] != i + 1)",
     "                          (l[xmin:xmax, ymin:ymax] == 0)", "C01-R11"),
]
TWINS = [
    ("small-island guard written with a strict bound",
     "AegeanTools/source_finder.py",
     "            min(data.shape) <= 2\n", "            min(data.shape) < 3\n"),
    ("radians spelled out", "AegeanTools/wcs_helpers.py",
     "v_sx = (x + sx * np.cos(np.radians(theta)),",
     "v_sx = (x + sx * np.cos(theta * np.pi / 180),"),
    ("hoisted sum", "AegeanTools/source_finder.py",
     "x_pix = xo + xmin + 1", "x_off = xmin + 1\n            x_pix = xo + "
     "x_off"),
    ("scale via constant", "AegeanTools/source_finder.py",
     "            source.a *= 3600  # arcseconds\n",
     "            source.a = source.a * 3600.0\n"),
    ("fwhm product reordered", "AegeanTools/source_finder.py",
     "(x_pix, y_pix), sx * CC2FHWM, sy * CC2FHWM, theta",
     "(x_pix, y_pix), CC2FHWM * sx, CC2FHWM * sy, theta"),
]


def run(ctx):
    prog = ctx.prog
    g = callgraph.build(prog)
    dq = PKG + "." + DRIVER
    if dq not in prog.functions:
        raise AnalysisError("C01: driver %s not found" % DRIVER)
    reach = callgraph.reachable(g, [dq])
    shorts = {q[len(PKG) + 1:] for q in reach}
    # ---------------------------------------------------------------- R1
    ctx.rule("C01-R1", "units (deg/rad/arcsec/pix), width kinds (sigma/"
             "fwhm), sky kinds (lon/lat) and pixel index types (row/col, "
             "origin, frame) agree with the contracts at every contracted "
             "call, field store and return reachable from blind finding")
    unitrules.apply(ctx, "C01-R1", shorts,
                    kinds={"call", "store", "sink", "return"},
                    what="contracted calls/stores/returns reachable from "
                    "find_sources_in_image", floor=60)
    # ---------------------------------------------------------------- R2
    ctx.rule("C01-R2", "initial model: params.add(prefix+S, value=v) "
             "matches the suffix contract (xo row / yo col, sx,sy pixel "
             "sigma, theta degrees)")
    unitrules.apply(ctx, "C01-R2", shorts, kinds={"lmfit"},
                    report_rules=set(),
                    what="params.add sites reachable from blind finding",
                    floor=5)
    # ---------------------------------------------------------------- R3
    r3(ctx, prog)
    # ---------------------------------------------------------------- R6
    r6(ctx, prog)
    # ---------------------------------------------------------------- R7
    # integrated flux = peak * (Gaussian area in pixels) / (beam area in
    # pixels): the same formula rule as C03-R6
    from .c03 import r6 as int_flux_formula
    int_flux_formula(ctx, prog, prog.module("source_finder"), rule="C01-R7")
    # ---------------------------------------------------------------- R9
    r9(ctx, prog)
    # ---------------------------------------------------------------- R11
    isolation_rule(ctx, prog, "C01-R11")
    # ------------------------------------------------------------ frame rule
    ctx.rule("C01-R10", "fitting works on copies: no in-place write (masking with "
             "NaN, -=, fill) goes through a view of the shared image / "
             "noise / background arrays -- otherwise the pixels blanked for "
             "one island are missing for every island processed later, and "
             "which sources are measured depends on the processing order")
    from ..core import view_writes
    nvw = 0
    for short in ['source_finder.SourceFinder._fit_island', 'source_finder.SourceFinder.result_to_components', 'source_finder.SourceFinder.find_sources_in_image', 'source_finder.SourceFinder.estimate_lmfit_parinfo']:
        if not prog.has_func(short):
            continue
        fi_ = prog.func(short)
        nvw += 1
        vw = view_writes(fi_.node)
        ctx.check("C01-R10", fi_, "no write through a view of the shared arrays "
                  "in " + fi_.name, not vw,
                  "%s writes into %s, a view of %s (no copy in between)" %
                  ((norm(vw[0][0], 60), vw[0][1], vw[0][2]) if vw
                   else ("", "", "")), node=vw[0][0] if vw else fi_.node)
    ctx.floor("C01-R10", nvw, 2, "fitting functions examined for view writes")
    # ---------------------------------------------------------------- R8
    ctx.rule("C01-R8", "one peak, one component: every pixel-mask "
             "segmentation reachable from blind finding (islands AND the "
             "summits inside an island) labels with a full 3x3 structure -- "
             "with scipy's default cross, the two top pixels of a single "
             "Gaussian elongated along the pixel diagonal form two summits "
             "and the source is reported as two components")
    from .c02 import full3x3
    n8 = 0
    for q in sorted(reach):
        fi_ = prog.functions[q]
        mod_ = prog.modules[fi_.module]
        for c in walk_no_nested(fi_.node):
            if isinstance(c, ast.Call) and prog.dotted(mod_, c.func) in (
                    "scipy.ndimage.label", "scipy.ndimage.measurements.label"
            ) or (isinstance(c, ast.Call) and
                  isinstance(c.func, ast.Name) and
                  prog.resolve_name(mod_, c.func.id) in (
                      "scipy.ndimage.label",
                      "scipy.ndimage.measurements.label")):
                n8 += 1
                st_ = arg_or_kw(c, 1, "structure")
                ctx.check("C01-R8", fi_, "structure of " + norm(c, 70),
                          full3x3(prog, mod_, st_),
                          "structure=%s: diagonal neighbours are separate "
                          "labels, so one diagonal ridge (a single elongated "
                          "source) is split into several summits / islands" %
                          (norm(st_) if st_ is not None else "<default "
                           "cross>"), node=c)
    ctx.floor("C01-R8", n8, 2, "scipy.ndimage.label calls reachable from "
              "blind finding")
    r12_free_shape(ctx, prog)
    # the background is subtracted exactly once before the islands are
    # segmented (shared with C02-R9)
    from .c02 import r9_background
    r9_background(ctx, prog, rule="C01-R13")
    # the reported standard errors come from the Fisher matrix of the
    # Jacobian whitened exactly like the fit (shared with C04-R4 / R5)
    from .c04 import find_roles, r4_r5
    fit_, wrapper_, _jac, _dfun = find_roles(prog)
    r4_r5(ctx, prog, fit_, wrapper_, r4="C01-R14", r5="C01-R14")
    # negative sources are modelled as the mirror image of positive ones
    # (shared with C13-R3): same relation between peak and amplitude bounds
    from .c13 import r3 as mirror_branches
    mirror_branches(ctx, prog, rule="C01-R16")
    # the sky sizes / position angle of a component are measured with
    # angle_tools.gcd / bear / translate (WCSHelper.pix2sky_ellipse): the
    # formulae must be the exact ones and stay accurate for milli-arcsecond
    # pixels (shared with C17-R1..R3, R6)
    # covariance weighting (docov, the default): the whitening matrix clips
    # its eigenvalues relative to the largest one (shared with C04-R13)
    r19_theta_unbounded(ctx, prog)
    from .c04 import r13_whitening
    r13_whitening(ctx, prog, rule="C01-R18")
    from .c17 import formulae as _formulae
    _formulae(ctx, prog, {"R1": "C01-R17", "R2": "C01-R17", "R3": "C01-R17",
                          "R6": "C01-R17"})
    n15 = link.argument_binding(ctx, "C01-R15", roots=[DRIVER],
                                what="blind finding call graph")
    ctx.floor("C01-R15", n15, 20, "internal calls reachable from blind "
              "finding")
    # ---------------------------------------------------------------- R4
    n = rules_num.lmfit_int_uses(ctx, "C01-R4", reach)
    ctx.note("C01-R4: %d int-only uses of coerced lmfit values" % n)
    # count the conversions that discharge the rule (int(<...>.value))
    conv = 0
    for q in reach:
        for c in walk_no_nested(prog.functions[q].node):
            if isinstance(c, ast.Call) and norm(c.func) == "int" and c.args \
                    and isinstance(c.args[0], ast.Attribute) and \
                    c.args[0].attr == "value":
                conv += 1
                ctx.ob("C01-R4", prog.functions[q], "converted " +
                       norm(c), True, {}, c)
    ctx.floor("C01-R4", conv + n, 5, "lmfit values in int-only contexts")
    # ---------------------------------------------------------------- R5
    nl = link.check(ctx, [DRIVER], rule="C01-R5", what="blind-finding driver")
    ctx.floor("C01-R5", nl, 120, "library symbols reachable from blind "
              "finding")


def r3(ctx, prog):
    ctx.rule("C01-R3", "optimiser wiring: residual = model(*mask) - "
             "data[mask] with mask = where(isfinite(data)); the x/y given to "
             "the Jacobian are mask[0]/mask[1]; Dfun is the repo's Jacobian "
             "wrapper whose default is the analytic Jacobian")
    dl = prog.func("fitting.do_lmfit")
    mdef = [s for s in walk_no_nested(dl.node) if isinstance(s, ast.Assign)
            and norm(s.targets[0]) == "mask"]
    okm = len(mdef) == 1 and norm(mdef[0].value).replace(" ", "") in (
        "np.where(np.isfinite(data))", "numpy.where(numpy.isfinite(data))")
    ctx.check("C01-R3", dl, "mask definition", okm,
              "the fit mask must be the finite pixels of the data",
              node=mdef[0] if mdef else dl.node)
    res = prog.functions.get(dl.qualname + ".residual")
    if res is None:
        raise AnalysisError("C01-R3: residual closure not found")
    from .c08 import _resolve_local
    rets = [s for s in walk_no_nested(res.node) if isinstance(s, ast.Return)]
    okr = bool(rets)

    def cores(v):
        """the un-whitened residual expressions a returned value is made of"""
        if isinstance(v, ast.IfExp):
            return cores(v.body) + cores(v.orelse)
        if isinstance(v, ast.Call) and norm(v.func).endswith(".dot"):
            return cores(v.func.value)
        if isinstance(v, ast.Name):
            r = _resolve_local(res.node, v)
            return cores(r) if r is not v else [v]
        return [v]
    for s in rets:
        for core in cores(s.value):
            okr = okr and isinstance(core, ast.BinOp) and \
                isinstance(core.op, ast.Sub) and \
                norm(core.left) == "model" and \
                norm(core.right) == "data[mask]"
    ctx.check("C01-R3", res, "residual = model - data[mask]", okr,
              "the residual must compare the model with the data on the "
              "same (finite) pixels", node=rets[0] if rets else res.node)
    mcall = [s for s in walk_no_nested(res.node) if isinstance(s, ast.Assign)
             and norm(s.targets[0]) == "model"]
    okc = False
    if len(mcall) == 1 and isinstance(mcall[0].value, ast.Call):
        mc = mcall[0].value
        star = len(mc.args) == 1 and isinstance(mc.args[0], ast.Starred) \
            and norm(mc.args[0].value) == "mask" and not mc.keywords
        fn_ = mc.func
        if isinstance(fn_, ast.Name):
            fn_ = _resolve_local(res.node, fn_)
        okc = star and isinstance(fn_, ast.Call) and \
            norm(fn_.func).split(".")[-1] == "ntwodgaussian_lmfit"
    ctx.check("C01-R3", res, "model evaluated at *mask", okc,
              "the model must be evaluated at the mask's (row, col) indices",
              node=mcall[0] if mcall else res.node)
    mins = [c for c in walk_no_nested(dl.node) if isinstance(c, ast.Call) and
            norm(c.func) == "lmfit.minimize"]
    ctx.floor("C01-R3", len(mins), 1, "lmfit.minimize calls in do_lmfit")
    for c in mins:
        kws = kwarg(c, "kws")
        if isinstance(kws, ast.Name):
            kws = _resolve_local(dl.node, kws)
        if not isinstance(kws, ast.Dict):
            raise AnalysisError("C01-R3: kws= of lmfit.minimize is not a "
                                "dict display")
        d = {k.value: norm(v) for k, v in zip(kws.keys, kws.values)}
        ctx.check("C01-R3", dl, "kws x/y = mask[0]/mask[1]",
                  d.get("x") == "mask[0]" and d.get("y") == "mask[1]",
                  "the Jacobian must be evaluated at the same pixels as the "
                  "residual; kws=%s" % d, node=c)
        df = kwarg(c, "Dfun")
        if df is None:
            # Dfun may travel in a **kwargs dict:  {'Dfun': f}
            for x in walk_no_nested(dl.node):
                if isinstance(x, ast.Dict):
                    for k_, v_ in zip(x.keys, x.values):
                        if isinstance(k_, ast.Constant) and \
                                k_.value == "Dfun":
                            df = v_
        if df is not None:
            t = prog.resolve_name(prog.modules[dl.module], norm(df))
            fi = prog.functions.get(t)
            emp_default = None
            if fi is not None and "emp" in fi.params:
                a = fi.node.args
                defaults = dict(zip([x.arg for x in a.args][-len(a.defaults):],
                                    a.defaults))
                emp_default = defaults.get("emp")
            ctx.check("C01-R3", dl, "Dfun=%s defaults to the analytic "
                      "Jacobian" % norm(df),
                      fi is not None and isinstance(emp_default,
                                                    ast.Constant) and
                      emp_default.value is False,
                      "Dfun must be the wrapper around the analytic "
                      "Jacobian", node=c)


def r9(ctx, prog, rule="C01-R9"):
    """the noise / background maps are forced or estimated, independently"""
    import itertools
    ctx.rule(rule, "noise and background: for each of the four "
             "combinations of forced / not forced, _make_bkg_rms leaves the "
             "rms map = the forced value if given else the BANE estimate, and "
             "likewise the background map (path enumeration over the two "
             "None-tests)")
    fi = prog.func("source_finder.SourceFinder._make_bkg_rms")
    P = {"rms": None, "bkg": None}
    for p_ in fi.params:
        if "rms" in p_:
            P["rms"] = p_
        if "bkg" in p_:
            P["bkg"] = p_
    if None in P.values():
        raise AnalysisError("C01-R9: forced_rms / forced_bkg parameters")
    est = {}       # local name -> which estimated map it holds
    for s_ in walk_no_nested(fi.node):
        if isinstance(s_, ast.Assign) and isinstance(s_.value, ast.Call) and \
                norm(s_.value.func).endswith("filter_image") and \
                isinstance(s_.targets[0], ast.Tuple) and \
                len(s_.targets[0].elts) == 2:
            est[norm(s_.targets[0].elts[0])] = "bkg"     # returns (bkg, rms)
            est[norm(s_.targets[0].elts[1])] = "rms"
    if not est:
        raise AnalysisError("C01-R9: bkg, rms = filter_image(...) not found")

    class Unk(Exception):
        pass

    def ev(e, given):
        if isinstance(e, ast.Compare) and len(e.ops) == 1 and \
                isinstance(e.ops[0], (ast.Is, ast.IsNot, ast.Eq, ast.NotEq)) \
                and isinstance(e.comparators[0], ast.Constant) and \
                e.comparators[0].value is None and \
                isinstance(e.left, ast.Name):
            for k, nm in P.items():
                if e.left.id == nm:
                    isnone = not given[k]
                    return isnone if isinstance(
                        e.ops[0], (ast.Is, ast.Eq)) else not isnone
            raise Unk()
        if isinstance(e, ast.Name) and e.id in P.values():
            raise Unk()     # truthiness of a float: 0.0 is a valid level
        if isinstance(e, ast.Name):
            # a named test:  have_rms = forced_rms is not None
            from .c08 import _resolve_local
            r_ = _resolve_local(fi.node, e)
            if r_ is not e:
                return ev(r_, given)
            raise Unk()
        if isinstance(e, ast.UnaryOp) and isinstance(e.op, ast.Not):
            return not ev(e.operand, given)
        if isinstance(e, ast.BoolOp):
            vs = [ev(v, given) for v in e.values]
            return all(vs) if isinstance(e.op, ast.And) else any(vs)
        raise Unk()

    def run_block(stmts, given, state):
        """returns True when a return was executed"""
        for st in stmts:
            if isinstance(st, ast.Return):
                return True
            if isinstance(st, ast.If):
                try:
                    c = ev(st.test, given)
                except Unk:
                    from .c08 import _resolve_local as _rl
                    deep = set(names_in(st.test))
                    for nm_ in list(deep):
                        r_ = _rl(fi.node, ast.Name(id=nm_, ctx=ast.Load()))
                        if not isinstance(r_, ast.Name):
                            deep |= names_in(r_)
                    if deep & set(P.values()):
                        raise AnalysisError(
                            "C01-R9: test %s is not a None-test of the "
                            "forced values" % norm(st.test))
                    continue            # unrelated (logging ...) branch
                if run_block(st.body if c else st.orelse, given, state):
                    return True
                continue
            if isinstance(st, (ast.With, ast.Try)):
                if run_block(st.body, given, state):
                    return True
                continue
            if isinstance(st, ast.Assign):
                for t in st.targets:
                    base = t.value if isinstance(t, ast.Subscript) else t
                    nm = norm(base)
                    for k in ("rms", "bkg"):
                        if nm.endswith("." + k + "img"):
                            v = norm(st.value)
                            if v == P[k]:
                                state[k] = "forced"
                            elif est.get(v) == k:
                                state[k] = "estimated"
                            else:
                                state[k] = "other: " + v
        return False
    n = 0
    for gr, gb in itertools.product((False, True), repeat=2):
        given = {"rms": gr, "bkg": gb}
        state = {"rms": "initial zeros", "bkg": "initial zeros"}
        run_block(fi.node.body, given, state)
        want = {k: "forced" if given[k] else "estimated" for k in given}
        n += 1
        ctx.check(rule, fi, "rms %s, bkg %s -> %s" % (
            "forced" if gr else "not forced", "forced" if gb else
            "not forced", state), state == want,
            "with rms %s and bkg %s the maps end up as %s (expected %s): a "
            "map that is neither forced nor estimated stays at the all-zero "
            "array allocated by load_globals, so the background is taken "
            "as 0 / the signal-to-noise is x/0" % (
                "forced" if gr else "not forced", "forced" if gb else
                "not forced", state, want), node=fi.node)
    ctx.floor(rule, n, 4, "forced/estimated combinations")


def r19_theta_unbounded(ctx, prog, rule="C01-R19"):
    """the rotation angle is periodic: it is fitted without bounds"""
    ctx.rule(rule, "the rotation angle of a component is a periodic "
             "parameter and is handed to lmfit WITHOUT min / max: lmfit maps "
             "a bounded parameter through a transform whose derivative is "
             "zero at the bound, so an angle that starts on the bound (a "
             "pixel-frame beam angle of +-180: BPA = 180, or CDELT2 < 0) "
             "never moves, and the optimum may lie across the bound")
    n = 0
    for short in ("source_finder.SourceFinder.estimate_lmfit_parinfo",
                  "source_finder.estimate_parinfo_image",
                  "source_finder.SourceFinder._refit_islands"):
        if not prog.has_func(short):
            continue
        fi = prog.func(short)
        for c in walk_no_nested(fi.node):
            if isinstance(c, ast.Call) and isinstance(c.func, ast.Attribute) \
                    and c.func.attr == "add" and c.args and \
                    isinstance(c.args[0], ast.BinOp) and \
                    isinstance(c.args[0].right, ast.Constant) and \
                    c.args[0].right.value == "theta":
                n += 1
                bnd = [k.arg for k in c.keywords if k.arg in ("min", "max")
                       and not (isinstance(k.value, ast.Constant) and
                                k.value.value is None)]
                ctx.check(rule, fi, "theta added without bounds in " +
                          fi.name, not bnd and len(c.args) <= 3,
                          "theta is given %s: the fit cannot rotate past it "
                          "and cannot leave it when it starts there" % bnd,
                          node=c)
    ctx.floor(rule, n, 2, "params.add(prefix + 'theta') sites")


def r6(ctx, prog):
    ctx.rule("C01-R6", "initial-model bounds: sx and sy receive identical "
             "bound expressions (the optimiser may swap the axes; fix_shape "
             "swaps them back), the upper bound contains the island's "
             "longest side, and xo/yo are bounded symmetrically about the "
             "peak")
    n = 0
    for short in ("source_finder.SourceFinder.estimate_lmfit_parinfo",
                  "source_finder.estimate_parinfo_image"):
        if not prog.has_func(short):
            continue
        fi = prog.func(short)
        b = {}
        for s in walk_no_nested(fi.node):
            if isinstance(s, ast.Assign) and \
                    isinstance(s.targets[0], ast.Tuple) and \
                    isinstance(s.value, ast.Tuple) and \
                    len(s.targets[0].elts) == 2:
                names = [norm(e) for e in s.targets[0].elts]
                if names in (["sx_min", "sx_max"], ["sy_min", "sy_max"]):
                    b[names[0][:2]] = (s, [norm(e).replace(" ", "")
                                           for e in s.value.elts])
        # the same bounds written as separate assignments
        single = {}
        for s in walk_no_nested(fi.node):
            if isinstance(s, ast.Assign) and len(s.targets) == 1 and \
                    isinstance(s.targets[0], ast.Name) and \
                    s.targets[0].id in ("sx_min", "sx_max", "sy_min",
                                        "sy_max"):
                single.setdefault(s.targets[0].id, []).append(s)
        for ax in ("sx", "sy"):
            lo_, hi_ = single.get(ax + "_min", []), single.get(ax + "_max", [])
            if ax not in b and len(lo_) == 1 and len(hi_) == 1:
                pair = ast.Tuple(elts=[lo_[0].value, hi_[0].value],
                                 ctx=ast.Load())
                holder = ast.copy_location(ast.Assign(
                    targets=[ast.Tuple(elts=[lo_[0].targets[0],
                                             hi_[0].targets[0]],
                                       ctx=ast.Store())], value=pair), hi_[0])
                b[ax] = (holder, [norm(e).replace(" ", "")
                                  for e in pair.elts])
        if set(b) != {"sx", "sy"}:
            raise AnalysisError("C01-R6: sx/sy bound tuples not found in %s"
                                % short)
        n += 1
        ctx.check("C01-R6", fi, "sx bounds %s == sy bounds %s" %
                  (b["sx"][1], b["sy"][1]), b["sx"][1] == b["sy"][1],
                  "the bounds of sx and sy differ: the fit starts from the "
                  "beam orientation and grows whichever axis lies along the "
                  "source, so a source elongated along the other axis is "
                  "clamped by the tighter bound and its size and flux are "
                  "biased", node=b["sy"][0])
        from .c08 import _resolve_local
        upn = b["sy"][0].value.elts[1]
        upn = _resolve_local(fi.node, upn)
        up = norm(upn, 400).replace(" ", "")
        ctx.check("C01-R6", fi, "upper size bound " + up[:80],
                  "max(xsize,ysize)+1" in up and "FWHM2CC" in up,
                  "the upper bound must contain the island's longest side "
                  "(max(xsize, ysize)+1)*sqrt(2) converted to sigma",
                  node=b["sy"][0])
        import sympy as sp
        from .. import sym
        mod = prog.modules[fi.module]
        for ax in ("xo", "yo"):
            adds = [c for c in walk_no_nested(fi.node)
                    if isinstance(c, ast.Call) and
                    isinstance(c.func, ast.Attribute) and
                    c.func.attr == "add" and c.args and
                    isinstance(c.args[0], ast.BinOp) and
                    isinstance(c.args[0].right, ast.Constant) and
                    c.args[0].right.value == ax]
            if len(adds) != 1:
                raise AnalysisError("C01-R6: params.add for %s in %s" %
                                    (ax, short))
            c = adds[0]
            tr = sym.Translator(prog, mod, {}, free_symbols=True)
            sym.number_locals(tr, fi.node, c.lineno)
            try:
                v = tr.expr(kwarg(c, "value"))
                lo = tr.expr(kwarg(c, "min"))
                hi = tr.expr(kwarg(c, "max"))
                ok = sp.simplify((lo + hi) / 2 - v) == 0 and \
                    sp.simplify(hi - lo) != 0
            except (sym.Untranslatable, TypeError, AttributeError) as e:
                raise AnalysisError("C01-R6: bounds of %s: %s" % (ax, e))
            n += 1
            ctx.check("C01-R6", fi, "%s bounded symmetrically" % ax, ok,
                      "the bounds of %s must be symmetric about its initial "
                      "value: min=%s max=%s value=%s" % (ax, lo, hi, v),
                      node=c)
    ctx.floor("C01-R6", n, 3, "bound definitions in the model builders")


def r12_free_shape(ctx, prog):
    """the point-source shortcut of the parameter estimator applies only
    where a six-parameter fit is under-determined"""
    from ..concrete import Unknown, ev
    from ..core import as_update
    ctx.rule("C01-R12", "free shape wherever it is determined: an elliptical "
             "Gaussian has 6 parameters, 3 per axis (amplitude, centre, "
             "width), so an island with >= 7 finite pixels that is >= 3 "
             "pixels across in both directions is fitted with free shape -- "
             "the guards that fix small islands to the psf are interpreted "
             "for 7 pixels and for a 3 x 50 island and must not fire")
    fi = prog.func("source_finder.SourceFinder.estimate_lmfit_parinfo")
    body = list(walk_no_nested(fi.node))
    # number of finite pixels: name bound to len(...isfinite...)
    cnt = [s_.targets[0].id for s_ in body if isinstance(s_, ast.Assign)
           and isinstance(s_.targets[0], ast.Name)
           and any(isinstance(c_, ast.Call) and
                   norm(c_.func).split(".")[-1] in ("len", "count_nonzero",
                                                    "sum")
                   for c_ in ast.walk(s_.value))
           and "isfinite" in norm(s_.value)]
    flagv = sorted({(as_update(s_) or ("",))[0] for s_ in body
                    if isinstance(s_, (ast.Assign, ast.AugAssign))
                    and as_update(s_) and as_update(s_)[1] is ast.BitOr
                    and "flags." in as_update(s_)[2]})
    from ..concrete import with_locals
    base = {"flags.FITERRSMALL": 1, "flags.FIXED2PSF": 4, "flags.NOTFIT": 16}
    base = with_locals(fi.node, base)
    for f_ in flagv:
        base[f_] = 0
    n = 0
    # (1) the pixel-count chain, interpreted for 7 finite pixels
    for iff in body:
        if not (isinstance(iff, ast.If) and cnt and
                cnt[0] in names_in(iff.test)):
            continue
        # only the head of an if / elif chain
        chain, x = [], iff
        while True:
            chain.append((x.test, x.body))
            if len(x.orelse) == 1 and isinstance(x.orelse[0], ast.If):
                x = x.orelse[0]
            else:
                chain.append((None, x.orelse))
                break
        if any(iff is y for z in body if isinstance(z, ast.If)
               for y in z.orelse):
            continue
        env = dict(base)
        env[cnt[0]] = 7
        taken = None
        try:
            for t_, b_ in chain:
                if t_ is None or ev(t_, env):
                    taken = b_
                    break
        except Unknown as u:
            ctx.unknown_site("C01-R12", fi, "pixel-count guard not "
                             "interpreted (%s)" % u, node=iff)
            continue
        n += 1
        raised = [st for b in (taken or []) for st in ast.walk(b)
                  if isinstance(st, (ast.Assign, ast.AugAssign))
                  and as_update(st) and as_update(st)[1] is ast.BitOr
                  and "flags." in as_update(st)[2]]
        ctx.check("C01-R12", fi, "7 finite pixels: " + norm(iff.test, 50),
                  not raised, "an island with 7 finite pixels (one more "
                  "than the 6 parameters) is flagged `%s` and its shape "
                  "fixed to the psf" % (norm(raised[0]) if raised else ""),
                  node=iff)
    # (2) the single-summit shortcut, interpreted for a 3 x 50 island
    for iff in body:
        if not isinstance(iff, ast.If):
            continue
        fixes = [st for b in iff.body for st in ast.walk(b)
                 if isinstance(st, (ast.Assign, ast.AugAssign))
                 and as_update(st) and as_update(st)[1] is ast.BitOr
                 and "FIXED2PSF" in as_update(st)[2]]
        shp = [x for x in ast.walk(iff.test) if isinstance(x, ast.Attribute)
               and x.attr == "shape"]
        if not fixes or not shp:
            continue
        for dims in ([3, 50], [50, 3]):
            env = dict(base)
            for x in shp:
                env[norm(x)] = dims
                env[norm(x) + "[0]"] = dims[0]
                env[norm(x) + "[1]"] = dims[1]
            try:
                fires = bool(ev(iff.test, env))
            except Unknown as u:
                ctx.unknown_site("C01-R12", fi, "small-island guard not "
                                 "interpreted (%s)" % u, node=iff)
                break
            n += 1
            ctx.check("C01-R12", fi, "%d x %d island: %s" %
                      (dims[0], dims[1], norm(iff.test, 50)), not fires,
                      "an island %d x %d pixels (three samples across, "
                      "enough for amplitude, centre and width) takes the "
                      "point-source shortcut: a resolved source in it is "
                      "reported with the beam's shape and a wrong flux" %
                      tuple(dims), node=iff)
    ctx.floor("C01-R12", n, 3, "small-island guards interpreted")


def isolation_rule(ctx, prog, rule):
    """the island cut-out is blanked wherever another island's label is
    present (shared by C01-R11 and C03-R15)"""
    ctx.rule(rule, "isolation of the fitted pixels: the cut-out handed "
             "to the fit is blanked wherever a pixel carries ANOTHER "
             "island's label (the mask has a `labels != id` / `~own` term) "
             "-- otherwise a neighbour inside the bounding box is fitted as "
             "an extra summit of this island and again as its own island, "
             "and the island row counts pixels that were not detected as "
             "part of it")
    from ..islandmodel import IslandModel
    im_ = IslandModel(prog)
    bl = im_.blanking_masks()
    ctx.floor(rule, len(bl), 1, "NaN-blanking statements in the island "
              "loop")
    for st_, mk_ in bl:
        parts = []
        stack = [mk_]
        while stack:
            x_ = stack.pop()
            if isinstance(x_, ast.BinOp) and isinstance(x_.op, ast.BitOr):
                stack += [x_.left, x_.right]
            elif isinstance(x_, ast.Call) and norm(x_.func) in (
                    "np.logical_or", "numpy.logical_or"):
                stack += list(x_.args)
            else:
                parts.append(x_)
        ctx.check(rule, im_.fi, "blanking mask " + norm(mk_, 80),
                  any(im_.other_label_term(p_) for p_ in parts),
                  "the mask %s has no term excluding the pixels of other "
                  "labelled groups: a disjoint neighbour inside the box is "
                  "reported twice" % norm(mk_, 80), node=st_)
