"""C02 -- islands are exactly the seeded, flood-thresholded 8-connected groups."""
from __future__ import annotations

import ast

from ..core import (AnalysisError, arg_or_kw, kwarg, names_in, norm,
                    walk_no_nested)
from ..islandmodel import IslandModel

EXPLANATION = (
    "Static analysis of source_finder.find_islands and "
    "models.PixelIsland.calc_bounding_box, anchored on the calls that resolve "
    "to scipy.ndimage.label / find_objects. R1: the `structure` argument "
    "folds to a full 3x3 (8-connectivity). R2: the labelled mask is "
    "|im-bkg|/rms >= flood (non-strict), the seed test is > seed (strict), the "
    "per-island mask is (snr < flood) | (label != id) and no NaN-replacing "
    "call precedes the comparisons. R3: the values tested against the seed "
    "threshold and the pixel list given to the region test are data-dependent "
    "on the island's own label (flow-ordered dependence), not on the whole "
    "bounding box. R4: flux values reach boolean context only through "
    "comparisons / isfinite -- never dtype=bool or astype(bool). R5: each "
    "bounding-box entry k is built from indices of axis k plus the axis-k "
    "offset, upper bound = max index + 1, and consumers slice [lo:hi]. R6: "
    "the seed threshold occurs only on the small side of a >/>= test that "
    "enables acceptance (raising it can only remove islands). R7: each "
    "island's mask carries the other-label term (disjointness). scipy's "
    "labelling itself is trusted.")
ASSUMPTIONS = [
    "scipy.ndimage.label/find_objects: label ids are 1..n and "
    "find_objects()[k] is the bounding slice of label k+1",
    "comparisons with NaN are False (IEEE)",
]


MUTANTS = [
    ("own-pixel selector inverted", "AegeanTools/source_finder.py",
     "        own = l[xmin:xmax, ymin:ymax] == i + 1",
     "        own = l[xmin:xmax, ymin:ymax] != i + 1", "C02-R3"),
    ("islands kept only when nothing is left of them",
     "AegeanTools/source_finder.py",
     "        if not np.any(np.isfinite(data_box)):",
     "        if np.any(np.isfinite(data_box)):", "C02-R12"),
    ("forced noise level overwritten by the estimate",
     "AegeanTools/source_finder.py",
     "        if forced_rms is None:\n            self.global_data.rmsimg = rms",
     "        if forced_bkg is None:\n            self.global_data.rmsimg = rms",
     "C02-R11"),
    ("seed test on the pixel of highest flux", "AegeanTools/source_finder.py",
     "        if np.any(snr[xmin:xmax, ymin:ymax][own] > seed_clip):",
     "        pk = np.argmax(abs(im - bkg)[xmin:xmax, ymin:ymax][own])\n"
     "        if snr[xmin:xmax, ymin:ymax][own][pk] > seed_clip:", "C02-R2"),
    ("background subtracted in place from the caller's image",
     "AegeanTools/source_finder.py",
     "    snr = abs(im - bkg) / rms\n",
     "    im -= bkg\n    snr = abs(im - 0 * bkg) / rms\n", "C02-R10"),
    ("background subtracted only when it has positive pixels",
     "AegeanTools/source_finder.py",
     "        img -= self.global_data.bkgimg\n",
     "        if np.any(self.global_data.bkgimg > 0):\n"
     "            img -= self.global_data.bkgimg\n", "C02-R9"),
    ("default 4-connectivity", "AegeanTools/source_finder.py",
     "l, n = label(a, structure=np.ones((3, 3)))", "l, n = label(a)",
     "C02-R1"),
    ("strict flood", "AegeanTools/source_finder.py",
     "    a = snr >= flood_clip\n", "    a = snr > flood_clip\n", "C02-R2"),
    ("non-strict seed", "AegeanTools/source_finder.py",
     "if np.any(snr[xmin:xmax, ymin:ymax][own] > seed_clip):",
     "if np.any(snr[xmin:xmax, ymin:ymax][own] >= seed_clip):", "C02-R2"),
    ("mask tie", "AegeanTools/source_finder.py",
     "island_mask = (snr[xmin:xmax, ymin:ymax] < flood_clip) | \\",
     "island_mask = (snr[xmin:xmax, ymin:ymax] <= flood_clip) | \\",
     "C02-R2"),
    ("seed over the box", "AegeanTools/source_finder.py",
     "if np.any(snr[xmin:xmax, ymin:ymax][own] > seed_clip):",
     "if np.any(snr[xmin:xmax, ymin:ymax] > seed_clip):", "C02-R3"),
    ("region pixels over the box", "AegeanTools/source_finder.py",
     "                x, y = np.where(own)\n",
     "                x, y = np.where(snr[xmin:xmax, ymin:ymax] >= "
     "flood_clip)\n", "C02-R3"),
    ("no other-label term", "AegeanTools/source_finder.py",
     "island_mask = (snr[xmin:xmax, ymin:ymax] < flood_clip) | \\\n"
     "                          (l[xmin:xmax, ymin:ymax] != i + 1)",
     "island_mask = (snr[xmin:xmax, ymin:ymax] < flood_clip)", "C02-R"),
    ("truthiness bounding box", "AegeanTools/source_finder.py",
     "                np.isfinite(data_box),",
     "                np.array(np.nan_to_num(data_box), dtype=bool),",
     "C02-R4"),
    ("bbox upper bound", "AegeanTools/models.py",
     "self.bounding_box[0][1] = offsets[0] + cmax + 1",
     "self.bounding_box[0][1] = offsets[0] + cmax", "C02-R5"),
    ("bbox crossed offsets", "AegeanTools/models.py",
     "self.bounding_box[1][0] = offsets[1] + rmin",
     "self.bounding_box[1][0] = offsets[0] + rmin", "C02-R5"),
    ("nan replaced in snr", "AegeanTools/source_finder.py",
     "    snr = abs(im - bkg) / rms\n",
     "    snr = np.nan_to_num(abs(im - bkg) / rms)\n", "C02-R2"),
    ("seed used as upper bound", "AegeanTools/source_finder.py",
     "    if not np.any(a):",
     "    if not np.any(a) or np.all(snr < seed_clip / 2):", "C02-R6"),
    ("pre-selected labels drop the first entry",
     "AegeanTools/source_finder.py",
     "    islands = []\n    for i in range(n):",
     "    seeded = np.unique(l * (snr > seed_clip))[1:] - 1\n"
     "    islands = []\n    for i in seeded:", "C02-R8"),
    ("pre-selected labels keep the background",
     "AegeanTools/source_finder.py",
     "    islands = []\n    for i in range(n):",
     "    islands = []\n"
     "    for i in np.unique(l * (snr > seed_clip)) - 1:", "C02-R8"),
    ("last labelled group never visited", "AegeanTools/source_finder.py",
     "    for i in range(n):\n        xmin, xmax = f[i][0].start",
     "    for i in range(n - 1):\n        xmin, xmax = f[i][0].start", "C02-R8"),
    ("cut-out one row short", "AegeanTools/source_finder.py",
     "        xmin, xmax = f[i][0].start, f[i][0].stop\n        ymin, ymax = f[i][1].start, f[i][1].stop\n        # the pixels",
     "        xmin, xmax = f[i][0].start, f[i][0].stop - 1\n        ymin, ymax = f[i][1].start, f[i][1].stop\n        # the pixels", "C02-R8"),
    ("image blanked in place", "AegeanTools/source_finder.py",
     "            data_box = copy.deepcopy(im[xmin:xmax, ymin:ymax])",
     "            data_box = im[xmin:xmax, ymin:ymax]", "C02-R8"),
    ("background subtracted twice (seed C02d)", "AegeanTools/source_finder.py",
     "            bkg=np.zeros_like(data),", "            bkg=global_data.bkgimg,", "C02-R9"),
]
TWINS = [
    ("identically zero background not subtracted",
     "AegeanTools/source_finder.py",
     "        img -= self.global_data.bkgimg\n",
     "        if np.any(self.global_data.bkgimg != 0):\n"
     "            img -= self.global_data.bkgimg\n"),
    ("structure literal", "AegeanTools/source_finder.py",
     "l, n = label(a, structure=np.ones((3, 3)))",
     "l, n = label(a, structure=[[1, 1, 1], [1, 1, 1], [1, 1, 1]])"),
    ("own via island mask", "AegeanTools/source_finder.py",
     "                x, y = np.where(own)\n",
     "                x, y = np.where(l[xmin:xmax, ymin:ymax] == i + 1)\n"),
    ("island loop over the seeded labels only",
     "AegeanTools/source_finder.py",
     "    islands = []\n    for i in range(n):",
     "    islands = []\n"
     "    for i in np.unique(l[snr > seed_clip]) - 1:"),
    ("seeded labels with the zero entry filtered by value",
     "AegeanTools/source_finder.py",
     "    islands = []\n    for i in range(n):",
     "    u = np.unique(l * (snr > seed_clip))\n    seeded = u[u > 0] - 1\n"
     "    islands = []\n    for i in seeded:"),
]



def full3x3(prog, mod, e):
    if e is None:
        return False
    t = norm(e).replace(" ", "")
    if isinstance(e, ast.Call):
        d = prog.dotted(mod, e.func) if isinstance(e.func, ast.Attribute) \
            else prog.resolve_name(mod, norm(e.func))
        if d == "numpy.ones" and e.args:
            shp = prog.const_value(mod, e.args[0])
            return shp == (3, 3)
        if d == "scipy.ndimage.generate_binary_structure" and \
                len(e.args) == 2:
            return [prog.const_value(mod, a) for a in e.args] == [2, 2]
    if isinstance(e, (ast.List, ast.Tuple)) and len(e.elts) == 3:
        rows = [r for r in e.elts if isinstance(r, (ast.List, ast.Tuple))
                and len(r.elts) == 3]
        return len(rows) == 3 and all(
            prog.const_value(mod, x) in (1, True, 1.0)
            for r in rows for x in r.elts)
    if isinstance(e, ast.Call) and norm(e.func) in ("np.array",
                                                    "numpy.array") and e.args:
        return full3x3(prog, mod, e.args[0])
    return False


def run(ctx):
    prog = ctx.prog
    m = IslandModel(prog)
    fi, mod = m.fi, m.mod
    # ---------------------------------------------------------------- R1
    ctx.rule("C02-R1", "the labelling call uses a full 3x3 structure "
             "(diagonal neighbours connect)")
    st = arg_or_kw(m.label_call, 1, "structure")
    ctx.check("C02-R1", fi, "structure of " + norm(m.label_call, 70),
              full3x3(prog, mod, st),
              "structure=%s is not a full 3x3 element: with the default "
              "cross-shaped element diagonal pixels form separate islands" %
              (norm(st) if st is not None else "<default>"),
              node=m.label_call)
    # ---------------------------------------------------------------- R2
    ctx.rule("C02-R2", "mask = snr >= flood; seed test snr > seed; island "
             "mask = (snr < flood) | (label != id); snr = |im-bkg|/rms with "
             "no NaN replacement")
    params = fi.params
    seed_p = next((p for p in params if "seed" in p), None)
    flood_p = next((p for p in params if "flood" in p), None)
    if not seed_p or not flood_p:
        raise AnalysisError("C02: seed/flood parameters not found")
    # definition of the labelled mask
    mdef = [s for s in walk_no_nested(fi.node) if isinstance(s, ast.Assign)
            and norm(s.targets[0]) == m.mask_name]
    if len(mdef) != 1:
        raise AnalysisError("C02-R2: definition of the labelled mask %s not "
                            "unique" % m.mask_name)
    cmpn = mdef[0].value
    ok = isinstance(cmpn, ast.Compare) and len(cmpn.ops) == 1 and (
        (isinstance(cmpn.ops[0], ast.GtE) and
         norm(cmpn.comparators[0]) == flood_p) or
        (isinstance(cmpn.ops[0], ast.LtE) and norm(cmpn.left) == flood_p))
    ctx.check("C02-R2", fi, "flood mask " + norm(mdef[0]), ok,
              "the flood mask must be snr >= flood (non-strict)",
              node=mdef[0])
    snr_name = None
    if isinstance(cmpn, ast.Compare):
        side = cmpn.left if norm(cmpn.comparators[0]) == flood_p \
            else cmpn.comparators[0]
        snr_name = norm(side)
    sdef = [s for s in walk_no_nested(fi.node) if isinstance(s, ast.Assign)
            and norm(s.targets[0]) == snr_name]
    if len(sdef) != 1:
        raise AnalysisError("C02-R2: definition of %s not unique" % snr_name)
    from ..core import expand_locals
    sv = expand_locals(fi.node, sdef[0].value)
    shape_ok = isinstance(sv, ast.BinOp) and isinstance(sv.op, ast.Div) and \
        isinstance(sv.left, ast.Call) and norm(sv.left.func) in (
            "abs", "np.abs", "numpy.abs", "np.fabs") and \
        isinstance(sv.left.args[0], ast.BinOp) and \
        isinstance(sv.left.args[0].op, ast.Sub) and \
        norm(sv.left.args[0].left) == params[0] and \
        norm(sv.left.args[0].right) == params[1] and \
        norm(sv.right) == params[2]
    ctx.check("C02-R2", fi, "snr definition " + norm(sdef[0]), shape_ok,
              "signal-to-noise must be abs(%s - %s) / %s" % tuple(params[:3]),
              node=sdef[0])
    bad_calls = [c for c in ast.walk(sv) if isinstance(c, ast.Call) and
                 norm(c.func).split(".")[-1] in ("nan_to_num", "fillna",
                                                 "nanmax", "where")]
    ctx.check("C02-R2", fi, "no NaN replacement in snr", not bad_calls,
              "blank pixels must stay NaN so that every comparison on them "
              "is False", node=sdef[0])
    # seed tests
    seeds = [c for st in m.loop.body for c in ast.walk(st)
             if isinstance(c, ast.Compare) and seed_p in names_in(c)]
    ctx.floor("C02-R2", len(seeds), 1, "comparisons with the seed threshold")
    own = m.own_names()
    for c in seeds:
        strict = len(c.ops) == 1 and (
            (isinstance(c.ops[0], ast.Gt) and
             norm(c.comparators[0]) == seed_p) or
            (isinstance(c.ops[0], ast.Lt) and norm(c.left) == seed_p))
        ctx.check("C02-R2", fi, "seed test " + norm(c), strict,
                  "the seed test must be strictly greater than the seed "
                  "threshold", node=c)
        # ... and it asks whether ANY own pixel is above the threshold: the
        # comparison is aggregated with any() over the own pixels, or made
        # on the maximum of the signal-to-noise itself.  One selected pixel
        # (the brightest in flux, the first, the centre) is not the same
        # question when the noise varies across the island.
        pm_ = {}
        for st_ in m.loop.body:
            for x_ in ast.walk(st_):
                for ch_ in ast.iter_child_nodes(x_):
                    pm_[ch_] = x_
        up = pm_.get(c)
        any_form = isinstance(up, ast.Call) and (
            norm(up.func).split(".")[-1] == "any" or
            isinstance(up.func, ast.Attribute) and up.func.attr == "any")
        if isinstance(up, ast.Attribute) and up.attr == "any":
            any_form = True
        side_ = c.left if seed_p not in names_in(c.left) else \
            c.comparators[0]
        side_ = expand_locals(fi.node, side_)
        max_form = isinstance(side_, ast.Call) and \
            norm(side_.func).split(".")[-1] in ("max", "nanmax", "amax") \
            and snr_name in names_in(side_)
        picks = [x_ for x_ in ast.walk(side_) if isinstance(x_, ast.Call) and
                 norm(x_.func).split(".")[-1] in (
                     "argmax", "nanargmax", "argmin", "nanargmin",
                     "unravel_index")]
        ctx.check("C02-R2", fi, "seed test over all own pixels " +
                  norm(c, 60), (any_form or max_form) and not picks,
                  "the seed condition must hold for ANY pixel of the island "
                  "(np.any(snr[own] > seed) or max(snr[own]) > seed); here "
                  "it is evaluated on %s: an island whose pixel of highest "
                  "signal-to-noise is not that pixel is lost although it "
                  "has a seed" % ("a pixel picked by %s" % norm(picks[0], 50)
                                  if picks else "something else than all "
                                  "own pixels"), node=c)
    # island mask
    def other_label(p_):
        """labels != id,  or the complement of the exact own-pixel mask"""
        if isinstance(p_, ast.Compare) and len(p_.ops) == 1 and \
                isinstance(p_.ops[0], ast.NotEq) and m.label_compare(p_):
            return True
        inner = None
        if isinstance(p_, ast.UnaryOp) and isinstance(p_.op, ast.Invert):
            inner = p_.operand
        elif isinstance(p_, ast.Call) and p_.args and norm(p_.func) in (
                "np.logical_not", "np.bitwise_not", "np.invert",
                "numpy.logical_not"):
            inner = p_.args[0]
        return inner is not None and m.narrowing(inner) == []
    imask = None
    for s in ast.walk(m.loop):
        if isinstance(s, ast.Assign) and isinstance(s.value, ast.BinOp) and \
                isinstance(s.value.op, ast.BitOr) and (
                    m.label_compare(s.value) or
                    other_label(s.value.left) or other_label(s.value.right)):
            imask = s
    ctx.check("C02-R2", fi, "per-island mask", imask is not None,
              "no per-island mask of the form (snr < flood) | "
              "(labels != id) found", node=m.loop)
    if imask is not None:
        parts = [imask.value.left, imask.value.right]
        snr_views = m._views(snr_name)
        lt = [p for p in parts if isinstance(p, ast.Compare) and
              len(p.ops) == 1 and isinstance(p.ops[0], ast.Lt) and
              norm(p.comparators[0]) == flood_p and
              snr_views & names_in(p.left)]
        ne = [p for p in parts if other_label(p)]
        ctx.check("C02-R2", fi, "island mask " + norm(imask, 100),
                  len(lt) == 1 and len(ne) == 1,
                  "the island mask must be exactly the complement of "
                  "(snr >= flood) & (labels == id)", node=imask)
        ctx.rule("C02-R7", "islands are disjoint: the per-island mask "
                 "excludes pixels carrying another label")
        ctx.check("C02-R7", fi, "other-label term in " + norm(imask, 80),
                  len(ne) == 1, "without the labels != id term two islands "
                  "sharing a bounding box would share pixels", node=imask)
        # the mask handed to the island object is this mask
        setm = [c for c in ast.walk(m.loop) if isinstance(c, ast.Call) and
                isinstance(c.func, ast.Attribute) and
                c.func.attr == "set_mask"]
        ctx.check("C02-R7", fi, "island.set_mask argument",
                  bool(setm) and all(c.args and norm(c.args[0]) ==
                                     norm(imask.targets[0]) for c in setm),
                  "the island's mask must be the per-island mask",
                  node=setm[0] if setm else m.loop)
    r8_loop(ctx, prog, m)
    r9_background(ctx, prog)
    # ---------------------------------------------------------------- R12
    from .. import concrete as _c12
    ctx.rule("C02-R12", "an island is skipped after blanking exactly when "
             "no finite pixel is left: the skipping test over "
             "isfinite(<blanked box>) is interpreted for a box with and "
             "without finite pixels")
    n12 = 0
    from ..core import expand_locals as _xl12
    blanked = {norm(st.targets[0].value) for st in ast.walk(m.loop)
               if isinstance(st, ast.Assign) and
               isinstance(st.targets[0], ast.Subscript) and
               norm(st.value).split(".")[-1] in ("nan", "NaN", "NAN")}
    import copy as _cp12

    def _subst12(test):
        # named intermediates of the blanked box (unmasked = isfinite(box))
        defs = {}
        for a_ in ast.walk(m.loop):
            if isinstance(a_, ast.Assign) and len(a_.targets) == 1 and \
                    isinstance(a_.targets[0], ast.Name):
                defs.setdefault(a_.targets[0].id, []).append(a_.value)

        class _S(ast.NodeTransformer):
            def visit_Name(self, nd):
                if nd.id not in blanked and len(defs.get(nd.id, [])) == 1 \
                        and any(isinstance(x, ast.Name) and x.id in blanked
                                for x in ast.walk(defs[nd.id][0])):
                    return _cp12.deepcopy(defs[nd.id][0])
                return nd
        return ast.fix_missing_locations(_S().visit(_cp12.deepcopy(test)))
    for st in ast.walk(m.loop):
        if not (isinstance(st, ast.If) and st.body and
                isinstance(st.body[-1], ast.Continue)):
            continue
        test = _subst12(st.test)
        hit = [x for x in ast.walk(test) if isinstance(x, ast.Name) and
               x.id in blanked]
        if not hit or not any(
                isinstance(c_, ast.Call) and norm(c_.func).split(".")[-1] in
                ("isfinite", "isnan") for c_ in ast.walk(test)):
            continue
        arg = hit[0].id
        n12 += 1
        bad12 = []
        nan = float("nan")
        try:
            for smp, want in (([nan, nan, nan], True),
                              ([nan, 2.0, nan], False),
                              ([1.0, 2.0, 3.0], False)):
                got = bool(_c12.ev(test, {arg: smp}))
                if got != want:
                    bad12.append((smp, got))
        except _c12.Unknown as e:
            ctx.unknown_site("C02-R12", fi, "emptiness test %s not "
                             "interpreted (%s)" % (norm(test, 50), e), node=st)
            continue
        ctx.check("C02-R12", fi, "skip iff nothing finite is left: " +
                  norm(test, 50), not bad12,
                  "for the blanked box %s the island is %s" %
                  ((bad12[0][0], "skipped" if bad12[0][1] else "kept")
                   if bad12 else ("", "")), node=st)
    if n12 == 0:
        ctx.unknown_site("C02-R12", fi, "no `if <no finite pixel left>: "
                         "continue` test found in the island loop",
                         node=m.loop)
    # islands are found in the maps that were GIVEN: a forced noise level /
    # background is not replaced by the internal estimate (shared with
    # C01-R9)
    from .c01 import r9 as _forced_maps
    _forced_maps(ctx, prog, rule="C02-R11")
    # ---------------------------------------------------------------- R10
    ctx.rule("C02-R10", "find_islands is a function of its arguments: it "
             "does not write into the image / background / noise arrays it "
             "is given (in-place arithmetic, subscript stores) -- a second "
             "call on the same arrays (e.g. with a higher seed threshold) "
             "must see the same data")
    arrs = [p_ for p_ in fi.params if p_ in ("im", "bkg", "rms")]
    if len(arrs) != 3:
        raise AnalysisError("C02-R10: parameters im / bkg / rms")
    wr = []
    for st in walk_no_nested(fi.node):
        tg = st.targets if isinstance(st, ast.Assign) else (
            [st.target] if isinstance(st, ast.AugAssign) else [])
        for t in tg:
            b = t
            while isinstance(b, ast.Subscript):
                b = b.value
            if isinstance(b, ast.Name) and b.id in arrs and (
                    isinstance(st, ast.AugAssign) or b is not t):
                wr.append(st)
    ctx.check("C02-R10", fi, "no write into the argument arrays", not wr,
              "`%s` modifies the caller's array: the islands of a later call "
              "on the same image (another seed / flood threshold) are "
              "computed from altered data" % (norm(wr[0], 50) if wr else ""),
              node=wr[0] if wr else fi.node)
    # ---------------------------------------------------------------- R3
    ctx.rule("C02-R3", "the seed test and the region pixel list are "
             "restricted to the island's own label, not the whole bounding "
             "box")
    for c in seeds:
        operand = c.left if norm(c.comparators[0]) == seed_p \
            else c.comparators[0]
        ctx.check("C02-R3", fi, "seed test operand " + norm(operand, 70),
                  m.restricted(operand, own) or m.restricted(c, own),
                  "the seed test looks at every pixel of the bounding box: a "
                  "bright pixel of a neighbouring island inside the box "
                  "seeds an island none of whose own pixels exceeds the "
                  "seed threshold", node=c)
    # ... and to the island's OWN label: a selector defined with
    # `labels != id` picks the pixels of every other group in the box
    def _polarity_bad(e):
        for x in ast.walk(e):
            if isinstance(x, ast.Name):
                for st in ast.walk(m.loop):
                    if isinstance(st, ast.Assign) and any(
                            isinstance(t, ast.Name) and t.id == x.id
                            for t in st.targets) and \
                            isinstance(st.value, ast.Compare) and \
                            len(st.value.ops) == 1 and \
                            isinstance(st.value.ops[0], ast.NotEq) and \
                            m.label_compare(st.value):
                        return st
            if isinstance(x, ast.Compare) and len(x.ops) == 1 and \
                    isinstance(x.ops[0], ast.NotEq) and m.label_compare(x):
                return x
        return None
    for c in seeds:
        operand = c.left if norm(c.comparators[0]) == seed_p \
            else c.comparators[0]
        b_ = _polarity_bad(operand)
        ctx.check("C02-R3", fi, "seed test selects the own label: " +
                  norm(operand, 60), b_ is None,
                  "the selector `%s` is true for the pixels that do NOT "
                  "carry the island's label: the seed test looks at the "
                  "other groups in the box" % (norm(b_, 60) if b_ is not None
                                               else ""), node=c)
    wheres = [c for c in ast.walk(m.loop) if isinstance(c, ast.Call) and
              norm(c.func) in ("np.where", "numpy.where", "np.nonzero")]
    for c in wheres:
        ctx.check("C02-R3", fi, "pixel list " + norm(c, 70),
                  (m.restricted(c.args[0], own) and
                   _polarity_bad(c.args[0]) is None) if c.args else False,
                  "the pixel list used for the region test contains the "
                  "pixels of other islands inside the bounding box",
                  node=c)
    # ---------------------------------------------------------------- R4
    ctx.rule("C02-R4", "flux values reach boolean context only through "
             "comparisons or isfinite/isnan")
    n4 = 0
    for c in ast.walk(fi.node):
        if not isinstance(c, ast.Call):
            continue
        dt = kwarg(c, "dtype")
        isbool = dt is not None and norm(dt) in ("bool", "np.bool_",
                                                 "numpy.bool_", "'bool'")
        if isinstance(c.func, ast.Attribute) and c.func.attr == "astype" \
                and c.args and norm(c.args[0]) in ("bool", "np.bool_"):
            isbool = True
            arg = c.func.value
        elif isbool and c.args:
            arg = c.args[0]
        else:
            continue
        n4 += 1
        # is the converted value already boolean (a comparison / isfinite)?
        already = _is_boolean(fi.node, arg)
        ctx.check("C02-R4", fi, "bool conversion " + norm(c, 70), already,
                  "flux values are converted to bool: a finite island pixel "
                  "whose value is exactly 0.0 is dropped from the mask and "
                  "from the bounding box; use np.isfinite(...)", node=c)
    ctx.note("C02-R4 examined %d bool conversions" % n4)
    # ---------------------------------------------------------------- R5
    r5(ctx, prog)
    # ---------------------------------------------------------------- R6
    ctx.rule("C02-R6", "seed monotonicity: the seed threshold is only used "
             "as the small side of a >/>= comparison")
    loads = [n for n in ast.walk(fi.node) if isinstance(n, ast.Name) and
             n.id == seed_p and isinstance(n.ctx, ast.Load)]
    pm = {}
    for x in ast.walk(fi.node):
        for ch in ast.iter_child_nodes(x):
            pm[ch] = x
    for n in loads:
        p = pm.get(n)
        ok = isinstance(p, ast.Compare) and len(p.ops) == 1 and (
            (isinstance(p.ops[0], (ast.Gt, ast.GtE)) and
             p.comparators[0] is n) or
            (isinstance(p.ops[0], (ast.Lt, ast.LtE)) and p.left is n))
        if isinstance(p, (ast.Call,)) and norm(p.func).startswith("log"):
            continue
        ctx.check("C02-R6", fi, "use of %s in %s" % (seed_p, norm(p, 60)),
                  ok, "the seed threshold is used other than as a lower "
                  "bound: raising it could add islands", node=n)


def _is_boolean(fnode, e, depth=0):
    if depth > 5:
        return False
    if isinstance(e, ast.Compare):
        return True
    if isinstance(e, ast.Call) and norm(e.func).split(".")[-1] in (
            "isfinite", "isnan", "logical_and", "logical_or", "logical_not",
            "bitwise_not"):
        return True
    if isinstance(e, ast.UnaryOp) and isinstance(e.op, (ast.Invert, ast.Not)):
        return _is_boolean(fnode, e.operand, depth + 1)
    if isinstance(e, ast.BinOp) and isinstance(e.op, (ast.BitOr, ast.BitAnd)):
        return _is_boolean(fnode, e.left, depth + 1) and \
            _is_boolean(fnode, e.right, depth + 1)
    if isinstance(e, ast.Name):
        defs = [s for s in walk_no_nested(fnode) if isinstance(s, ast.Assign)
                and any(norm(t) == e.id for t in s.targets)]
        return bool(defs) and all(_is_boolean(fnode, d.value, depth + 1)
                                  for d in defs)
    return False


def _const_addend(e):
    """sum of integer literals added at the top level of e (a + b + 1)"""
    if isinstance(e, ast.BinOp) and isinstance(e.op, (ast.Add, ast.Sub)):
        sign = 1 if isinstance(e.op, ast.Add) else -1
        r = e.right.value if isinstance(e.right, ast.Constant) and \
            isinstance(e.right.value, int) else 0
        l = _const_addend(e.left)
        return l + sign * r
    if isinstance(e, ast.Constant) and isinstance(e.value, int):
        return e.value
    return 0


def r5(ctx, prog):
    ctx.rule("C02-R5", "bounding_box[k] = (offsets[k] + min index along "
             "axis k, offsets[k] + max index + 1); np.any(mask, axis=j) "
             "yields indices of axis 1-j; consumers slice [lo:hi]")
    fi = prog.func("models.PixelIsland.calc_bounding_box")
    data_p, off_p = fi.params[1], fi.params[2]
    # flow of "indices of the occupied positions along axis k":
    #   np.any(data, axis=j) leaves axis 1-j; np.where / np.nonzero / [0]
    #   keep the axis; X[[0, -1]] yields (min index, max index)
    env = {}
    lohi = {}

    def axis_of(e):
        """(axis, is_minmax_pair) or None"""
        if isinstance(e, ast.Name):
            return env.get(e.id)
        if isinstance(e, ast.Call):
            fn = norm(e.func)
            if fn in ("np.any", "numpy.any") and e.args and \
                    norm(e.args[0]) == data_p:
                ax = kwarg(e, "axis")
                if ax is None and len(e.args) > 1:
                    ax = e.args[1]
                if isinstance(ax, ast.Constant) and ax.value in (0, 1):
                    return (1 - ax.value, False)
            if fn in ("np.where", "numpy.where", "np.nonzero",
                      "numpy.nonzero", "np.flatnonzero") and \
                    len(e.args) == 1:
                return axis_of(e.args[0])
        if isinstance(e, ast.Subscript):
            base = axis_of(e.value)
            if base is None:
                return None
            if isinstance(e.slice, ast.Constant) and e.slice.value == 0:
                return base
            if isinstance(e.slice, ast.List) and \
                    [norm(x) for x in e.slice.elts] == ["0", "-1"]:
                return (base[0], True)
        return None
    for s in sorted((x for x in walk_no_nested(fi.node)
                     if isinstance(x, ast.Assign)), key=lambda x: x.lineno):
        t = s.targets[0]
        r = axis_of(s.value)
        if isinstance(t, ast.Name):
            if r is not None:
                env[t.id] = r
            else:
                env.pop(t.id, None)
        elif isinstance(t, ast.Tuple) and len(t.elts) == 2 and \
                r is not None and r[1]:
            lohi[norm(t.elts[0])] = (r[0], "min")
            lohi[norm(t.elts[1])] = (r[0], "max")
    if len(lohi) != 4:
        raise AnalysisError("C02-R5: min/max index idiom not recognised in "
                            "calc_bounding_box (found %s)" % lohi)
    stores = 0
    for s in walk_no_nested(fi.node):
        if isinstance(s, ast.Assign) and \
                isinstance(s.targets[0], ast.Subscript) and \
                norm(s.targets[0]).startswith("self.bounding_box["):
            t = s.targets[0]
            try:
                k = t.value.slice.value
                which = t.slice.value
            except AttributeError:
                raise AnalysisError("C02-R5: bounding_box store %s" % norm(s))
            stores += 1
            v = s.value
            names = names_in(v)
            src = [n for n in names if n in lohi]
            offs = [x for x in ast.walk(v) if isinstance(x, ast.Subscript)
                    and norm(x.value) == off_p]
            plus1 = _const_addend(v) == 1
            if _const_addend(v) not in (0, 1):
                plus1 = None
            ok = len(src) == 1 and len(offs) == 1 and \
                lohi[src[0]][0] == k and \
                getattr(offs[0].slice, "value", None) == k and \
                lohi[src[0]][1] == ("min" if which == 0 else "max") and \
                plus1 == (which == 1)
            ctx.check("C02-R5", fi, "store " + norm(s), ok,
                      "bounding_box[%s][%s] must be offsets[%s] + %s index "
                      "of axis %s%s" % (k, which, k,
                                        "min" if which == 0 else "max", k,
                                        " + 1" if which == 1 else ""),
                      {"uses": src and lohi[src[0]]}, s)
    ctx.floor("C02-R5", stores, 4, "bounding_box stores")
    # consumers
    n = 0
    for q, f in prog.functions.items():
        for s in walk_no_nested(f.node):
            if isinstance(s, ast.Assign) and \
                    norm(s.value).endswith(".bounding_box") and \
                    isinstance(s.targets[0], (ast.List, ast.Tuple)):
                flat = [norm(e) for p in s.targets[0].elts
                        for e in getattr(p, "elts", [])]
                if len(flat) != 4:
                    continue
                r0, r1, c0, c1 = flat
                for sub in walk_no_nested(f.node):
                    if isinstance(sub, ast.Subscript) and \
                            isinstance(sub.slice, ast.Tuple) and \
                            len(sub.slice.elts) == 2 and all(
                                isinstance(e, ast.Slice)
                                for e in sub.slice.elts):
                        a, b = sub.slice.elts
                        used = {norm(x) for x in (a.lower, a.upper, b.lower,
                                                  b.upper) if x is not None}
                        if used & set(flat) and used <= set(flat):
                            n += 1
                            ok = (norm(a.lower), norm(a.upper), norm(b.lower),
                                  norm(b.upper)) == (r0, r1, c0, c1)
                            ctx.check("C02-R5", f, "consumer slice " +
                                      norm(sub, 70), ok,
                                      "the bounding box must be consumed as "
                                      "[rowlo:rowhi, collo:colhi]", node=sub)
    ctx.floor("C02-R5", n, 2, "consumer slices of bounding boxes")


def _base_name(e):
    while isinstance(e, ast.Subscript):
        e = e.value
    return norm(e)


def r8_loop(ctx, prog, m):
    """every labelled group is visited, over exactly its label-slice, on a
    private copy of its pixels"""
    fi = m.fi
    ctx.rule("C02-R8", "every labelled group is visited with its exact "
             "find_objects slice: the island loop runs over range(n) / "
             "enumerate(boxes) for all n labels, the cut-out bounds are the "
             "slice's start / stop (no arithmetic), the pixel values are "
             "blanked on a COPY of the cut-out, the bounding-box offsets are "
             "(row offset, column offset), and PixelIsland.set_mask stores "
             "the mask it is given")
    lp = m.loop
    fn = norm(lp.iter.func) if isinstance(lp.iter, ast.Call) and \
        m.domain is None else None
    if fn == "range":
        ok = m.label_off is not None
        ctx.check("C02-R8", fi, "island loop " + norm(lp.iter), ok,
                  "the loop must visit all %s labelled groups (labels are "
                  "1..%s: range(%s) with label = index + 1, or range(1, %s "
                  "+ 1) with label = index); found %s: the remaining "
                  "groups are never reported" % (m.nlab, m.nlab, m.nlab,
                                                 m.nlab, norm(lp.iter)),
                  node=lp)
        # the find_objects slice of label L is boxes[L - 1]
        want = m.ivar if m.label_off == 1 else m.ivar + "-1"
        subs = [x for x in ast.walk(lp) if isinstance(x, ast.Subscript)
                and m.boxes and norm(x.value) == m.boxes]
        for x in subs:
            ctx.check("C02-R8", fi, "slice of the visited label " + norm(x),
                      norm(x.slice).replace(" ", "") == want,
                      "find_objects returns the slice of label L at index "
                      "L - 1: with this loop the slice must be %s[%s]; "
                      "found %s (the pixels of one group are cut out with "
                      "the box of another)" % (m.boxes, want, norm(x)),
                      node=x)
    elif m.domain is not None:
        d = m.domain
        ctx.check("C02-R8", fi, "pre-selected island loop " + norm(lp.iter),
                  d["bad"] is None, "the island loop runs over a "
                  "pre-selected set of labels: %s" % d["bad"], node=lp)
        if d["bad"] is None:
            ctx.check("C02-R8", fi, "pre-selected labels exclude the "
                      "background", d["zero"] == "no",
                      "the label set of the island loop may contain the "
                      "background label 0 (index -1 = the LAST island's "
                      "slice with a label that matches nothing)", node=lp)
            ctx.check("C02-R8", fi, "pre-selected labels shifted to slice "
                      "indices", d["shift"] == -1,
                      "labels are 1..n, find_objects slices are indexed "
                      "0..n-1: the loop variable must be label - 1 (found "
                      "label %+d)" % d["shift"], node=lp)
            # the selection may not be stronger than the seed test
            seeds = [c for st in lp.body for c in ast.walk(st)
                     if isinstance(c, ast.Compare) and len(c.ops) == 1
                     and "seed" in norm(c)]
            cnd = d["cond"]
            ok = isinstance(cnd, ast.Compare) and len(cnd.ops) == 1 and \
                bool(seeds) and any(
                    type(cnd.ops[0]) is type(c.ops[0]) or
                    isinstance(cnd.ops[0], ast.GtE)
                    for c in seeds) and any(
                        norm(cnd.comparators[0]) == norm(c.comparators[0])
                        and _base_name(cnd.left) == _base_name(c.left)
                        for c in seeds)
            ctx.check("C02-R8", fi, "pre-selection %s vs seed test" %
                      (norm(cnd, 50) if cnd is not None else "none"), ok,
                      "the pre-selection of labels must not be stronger "
                      "than the seed test of the loop body (same statistic, "
                      "same threshold, > or >=); otherwise seeded groups are "
                      "never visited", node=lp)
    else:
        ctx.ob("C02-R8", fi, "island loop " + norm(lp.iter), True, {}, lp)
    # cut-out bounds
    n = 0
    for st in ast.walk(lp):
        if not isinstance(st, ast.Assign):
            continue
        pairs = []
        if isinstance(st.targets[0], ast.Tuple) and \
                isinstance(st.value, ast.Tuple) and \
                len(st.targets[0].elts) == len(st.value.elts):
            pairs = list(zip(st.targets[0].elts, st.value.elts))
        elif isinstance(st.targets[0], ast.Name):
            pairs = [(st.targets[0], st.value)]
        for t, v in pairs:
            txt = norm(v)
            if not (".start" in txt or ".stop" in txt):
                continue
            n += 1
            ok = isinstance(v, ast.Attribute) and v.attr in ("start", "stop")
            ctx.check("C02-R8", fi, "cut-out bound %s = %s" % (norm(t), txt),
                      ok, "the bound must be the slice's own start / stop; "
                      "arithmetic on it drops (or adds) a row / column of "
                      "the island", node=st)
    ctx.floor("C02-R8", n, 4, "cut-out bounds taken from the label slices")
    # blanking happens on a copy
    blank = [st for st in ast.walk(lp) if isinstance(st, ast.Assign) and
             isinstance(st.targets[0], ast.Subscript) and
             norm(st.value) in ("np.nan", "numpy.nan")]
    # pixels outside the group marked with a value that a pixel can have
    NAN = ("np.nan", "numpy.nan", "float('nan')")
    sentinel = [st for st in ast.walk(lp) if isinstance(st, ast.Assign) and (
        (isinstance(st.targets[0], ast.Subscript) and
         isinstance(st.value, ast.Constant) and
         isinstance(st.value.value, (int, float)) and
         not isinstance(st.value.value, bool) and
         m.label_compare_in_defs(st.targets[0].slice)) or
        (isinstance(st.value, ast.Call) and
         norm(st.value.func) in ("np.where", "numpy.where") and
         len(st.value.args) == 3 and
         isinstance(st.value.args[1], ast.Constant) and
         not isinstance(st.value.args[1].value, bool) and
         m.label_compare_in_defs(st.value.args[0])))]
    for st in sentinel:
        ctx.check("C02-R8", fi, "out-of-group pixels marked with " +
                  norm(st, 60), False,
                  "pixels outside the group are marked with the number %s, "
                  "which a pixel of the group can have as its value (a zero "
                  "pixel on a non-zero background is significant): "
                  "membership must be marked with NaN and read with "
                  "isfinite" % (norm(st.value) if isinstance(
                      st.value, ast.Constant) else norm(st.value.args[1])),
                  node=st)
    if sentinel and not blank:
        return
    for st in blank:
        base = st.targets[0].value
        defs = [d for d in ast.walk(lp) if isinstance(d, ast.Assign) and
                norm(d.targets[0]) == norm(base)]
        copied = bool(defs) and all(
            isinstance(d.value, ast.Call) and (
                norm(d.value.func) in ("copy.deepcopy", "copy.copy",
                                       "np.copy", "np.array", "numpy.array",
                                       "numpy.copy", "deepcopy") or
                isinstance(d.value.func, ast.Attribute) and
                d.value.func.attr in ("copy", "astype"))
            for d in defs)
        ctx.check("C02-R8", fi, "blanked array %s is a copy" % norm(base),
                  copied, "%s is a view of the image: blanking it writes "
                  "NaN into the image itself, so pixels of neighbouring "
                  "groups inside the box vanish for the islands visited "
                  "later (and for the fit)" % norm(base), node=st)
    ctx.floor("C02-R8", len(blank), 1, "NaN-blanking statements in the loop")
    # set_mask keeps its argument
    sm = prog.func("models.PixelIsland.set_mask")
    st = [x for x in walk_no_nested(sm.node) if isinstance(x, ast.Assign) and
          norm(x.targets[0]) == "self.mask"]
    ctx.check("C02-R8", sm, "set_mask stores its argument",
              len(st) == 1 and len(sm.params) > 1 and
              norm(st[0].value) == sm.params[1],
              "PixelIsland.set_mask must store the given mask unchanged",
              node=st[0] if st else sm.node)


BKG_SAMPLES = {"all zero": [0.0, 0.0, 0.0], "positive": [1.0, 2.0, 3.0],
               "negative": [-1.0, -2.0, -3.0], "mixed": [-1.0, 0.0, 2.0]}


def bkg_guards(ctx, rule, lg, subs, stores, symmetric=False):
    """Paths of load_globals that reach the store of the image without the
    background subtraction: allowed only behind a guard that holds exactly
    when the background is identically zero (subtracting it is the
    identity).  The guard is interpreted over sample backgrounds.  With
    symmetric=True the question is instead whether each guard takes the same
    value for a background and its negation."""
    from ..cfg import CFG, ENTRY, EXIT
    from ..concrete import Unknown, ev
    g = CFG(lg.node)
    sub_nodes = {n for st in subs for n in g.nodes_for_stmt(st)}
    first = min(st.lineno for st in subs)
    dst = [n for st in stores if st.lineno > first
           for n in g.nodes_for_stmt(st)] or [EXIT]
    if not sub_nodes or not dst:
        raise AnalysisError("%s: subtraction / store of the image not in "
                            "the flow graph of load_globals" % rule)
    bmap = [norm(x) for x in ast.walk(lg.node)
            if isinstance(x, ast.Attribute) and x.attr == "bkgimg"]
    imap = [norm(x) for x in ast.walk(lg.node)
            if isinstance(x, ast.Attribute) and x.attr == "img"] + ["img"]

    def value(test, sample, sign=1):
        env = {k: [sign * v for v in sample] for k in set(bmap)}
        env.update({k: [sign * (v + 5.0) for v in sample] for k in set(imap)})
        return ev(test, env)
    if symmetric:
        n = 0
        for nd in g.g:
            if g.kind.get(nd) != "if":
                continue
            t_ = g.stmt[nd].test
            if not (set(bmap) | set(imap)) & {norm(x) for x in ast.walk(t_)}:
                continue
            try:
                diff = [k for k, smp in BKG_SAMPLES.items()
                        if value(t_, smp) != value(t_, smp, -1)]
            except Unknown as u:
                ctx.unknown_site(rule, lg, "guard %s on pixel data not "
                                 "interpreted (%s)" % (norm(t_, 50), u),
                                 node=g.stmt[nd])
                continue
            n += 1
            ctx.check(rule, lg, "guard on pixel data " + norm(t_, 60),
                      not diff, "the guard takes a different value for a %s "
                      "background and for its negation: the negated image "
                      "(with negated background) is prepared differently, so "
                      "fluxes are not simply negated" % "/".join(diff),
                      node=g.stmt[nd])
        return n
    for d in dst:
        bypass = g.path_avoiding(ENTRY, d, sub_nodes)
        if not bypass:
            ctx.ob(rule, lg, "every path to the image store subtracts the "
                   "background", True, {}, g.stmt[d])
            continue
        decided = False
        for k_, nd in enumerate(bypass[:-1]):
            if g.kind.get(nd) != "if":
                continue
            t_ = g.stmt[nd].test
            if not set(bmap) & {norm(x) for x in ast.walk(t_)}:
                continue
            lab = g.g[nd][bypass[k_ + 1]].get("label")
            try:
                taken = [k for k, smp in BKG_SAMPLES.items()
                         if bool(value(t_, smp)) == (lab == "T")]
            except Unknown as u:
                raise AnalysisError("%s: guard %s of the background "
                                    "subtraction not interpreted (%s)" %
                                    (rule, norm(t_, 60), u))
            decided = True
            ctx.check(rule, lg, "background subtraction skipped when " +
                      ("" if lab == "T" else "not ") + norm(t_, 60),
                      taken == ["all zero"],
                      "the subtraction is skipped for a background that is "
                      "%s; only an identically zero background may be "
                      "skipped -- otherwise the image keeps its background "
                      "and islands are segmented on |image + bkg| / rms" %
                      " / ".join(x for x in taken if x != "all zero"),
                      node=g.stmt[nd])
        if not decided:
            raise AnalysisError("%s: a path stores the image without the "
                                "background subtraction and no guard on the "
                                "background explains it: %s" %
                                (rule, g.describe(bypass)[-4:]))


def r9_background(ctx, prog, rule="C02-R9"):
    """the background is subtracted exactly once before segmentation"""
    from ..core import as_update
    from .c08 import _resolve_local
    ctx.rule(rule, "the background map is subtracted exactly once: "
             "load_globals stores the image with the background already "
             "subtracted, so the driver hands find_islands (which computes "
             "|im - bkg| / rms itself) a ZERO background together with that "
             "image -- or the raw image together with the background map, "
             "never the subtracted image and the map")
    lg = prog.func("source_finder.SourceFinder.load_globals")
    subs = [st for st in walk_no_nested(lg.node)
            if isinstance(st, (ast.Assign, ast.AugAssign)) and
            (as_update(st) or (None, None, ""))[1] is ast.Sub and
            "bkgimg" in (as_update(st) or (None, None, ""))[2]]
    stores = [st for st in walk_no_nested(lg.node) if isinstance(st, ast.Assign)
              and norm(st.targets[0]).endswith("global_data.img")]
    subtracted = False
    for st in subs:
        tgt = as_update(st)[0]
        if any(norm(x.value) == tgt and x.lineno > st.lineno
               for x in stores) or tgt.endswith("global_data.img"):
            subtracted = True
    ctx.ob(rule, lg, "global_data.img is stored %s the background "
           "subtraction (%d subtraction statement(s))" %
           ("after" if subtracted else "WITHOUT", len(subs)), True, {},
           subs[0] if subs else lg.node)
    if subtracted:
        bkg_guards(ctx, rule, lg, subs, stores)
    dr = prog.func("source_finder.SourceFinder.find_sources_in_image")
    calls = [c for c in walk_no_nested(dr.node) if isinstance(c, ast.Call)
             and norm(c.func) == "find_islands"]
    ctx.floor(rule, len(calls), 1, "find_islands calls in the driver")
    for c in calls:
        im = kwarg(c, "im") or (c.args[0] if c.args else None)
        bk = kwarg(c, "bkg") or (c.args[1] if len(c.args) > 1 else None)
        if im is None or bk is None:
            raise AnalysisError("C02-R9: im / bkg arguments of find_islands")
        imr = im
        for _ in range(3):
            if isinstance(imr, ast.Name):
                imr = _resolve_local(dr.node, imr)
        from_globals = norm(imr).endswith("global_data.img")
        bkr = bk
        for _ in range(3):
            if isinstance(bkr, ast.Name):
                bkr = _resolve_local(dr.node, bkr)
        zero = (isinstance(bkr, ast.Constant) and bkr.value == 0) or (
            isinstance(bkr, ast.Call) and norm(bkr.func) in (
                "np.zeros_like", "np.zeros", "numpy.zeros_like",
                "numpy.zeros"))
        is_map = "bkgimg" in norm(bkr)
        if not from_globals:
            ctx.unknown_site(rule, dr, "image argument %s of "
                             "find_islands not traced to global_data.img" %
                             norm(im), node=c)
            continue
        ok = (subtracted and zero) or (not subtracted and is_map)
        ctx.check(rule, dr, "find_islands(im=%s, bkg=%s)" %
                  (norm(im), norm(bk, 40)), ok,
                  "the image handed to find_islands has the background %s "
                  "and the bkg argument is %s: islands are segmented on "
                  "|image - %s*bkg| / rms, so groups below the thresholds "
                  "become islands where the background is negative and "
                  "seeded islands vanish where it is positive" % (
                      "already subtracted" if subtracted else "NOT "
                      "subtracted", "the background map" if is_map else
                      "zero" if zero else norm(bk, 40),
                      "2" if subtracted and is_map else "0"), node=c)
