"""C03 -- every output catalogue is internally consistent and reproducible."""
from __future__ import annotations

import ast

import sympy as sp

from .. import callgraph, link, rules_num, sym, unitrules
from ..cfg import CFG, ENTRY, EXIT
from ..core import (PKG, AnalysisError, arg_or_kw, as_update, kwarg, names_in,
                    norm, walk_no_nested)

EXPLANATION = (
    "Static analysis of the blind and priorized drivers in source_finder.py, "
    "fitting.errors/covar_errors and the models. R1: island numbers are "
    "injective across priorized batches (the start id handed to each batch "
    "is k*batch_size with the batching guard, or a running sum) and come "
    "from one counter in blind mode. R2: component numbers are the index of "
    "a range/enumerate from 0 over the model's components. R3: every value "
    "that can reach a flags field is built from the flags.* constants, 0, or "
    "another flags value (D-bits, syntactic closure). R4: on every path to "
    "sources.append the order fix_shape -> pa_limit -> RA wrap -> strings "
    "holds (CFG dominance) and pa_limit's loops exit with -90 < pa <= 90. "
    "R5: every literal that can reach an err_* field or a parameter's "
    "stderr is ERR_MASK/-1 (or NaN for the island placeholder). R6: "
    "int_flux == peak*(sx*K)*(sy*K)*pi / (a_pix*b_pix*pi) (sympy). R7: "
    "nondeterminism sources reachable from the drivers flow only into "
    ".uuid / shared-memory names. R8: both drivers guard the per-island fit "
    "with the AegeanNaNModelError handler. R9: the island summary position "
    "uses the same 1-based convention as components and its fallback index "
    "is integer. R10: lmfit int conversions and link check over both "
    "drivers. Numerical success of fits is not decided.")
ASSUMPTIONS = ["lmfit/numpy/scipy behave as summarised in the evidence "
               "trusted_base", "uuid4 values are unique"]

DRIVERS = ["source_finder.SourceFinder.find_sources_in_image",
           "source_finder.SourceFinder.priorized_fit_islands"]
FLAG_NAMES = ["FITERRSMALL", "FITERR", "FIXED2PSF", "FIXEDCIRCULAR",
              "NOTFIT", "WCSERR", "PRIORIZED"]


MUTANTS = [
    ("pa wrap steps away from the interval", "AegeanTools/source_finder.py",
     "    while pa <= -90:\n        pa += 180", "    while pa <= -90:\n        pa -= 180",
     "C03-R4"),
    ("RA of exactly 0 wrapped to 360", "AegeanTools/source_finder.py",
     "            if source.ra < 0:\n                source.ra += 360\n"
     "            source.ra_str",
     "            if source.ra <= 0:\n                source.ra += 360\n"
     "            source.ra_str", "C03-R4"),
    ("island row negative as soon as one pixel is negative",
     "AegeanTools/source_finder.py",
     "            if source.peak_flux < 0:\n"
     "                source.peak_flux = np.nanmin(kappa_sigma)",
     "            if np.nanmin(kappa_sigma) < 0:\n"
     "                source.peak_flux = np.nanmin(kappa_sigma)",
     "C03-R18"),
    ("row bound of the refit box clamped with the column count",
     "AegeanTools/source_finder.py",
     "                xmax = max(xmax, min(shape[0], x + xwidth // 2 + 1))",
     "                xmax = max(xmax, min(shape[1], x + xwidth // 2 + 1))",
     "C03-R17"),
    ("a SourceFinder method memoised", "AegeanTools/source_finder.py",
     "    def _load_aux_image(self, image, auxfile):",
     "    @lru_cache(maxsize=None)\n    def _load_aux_image(self, image, auxfile):",
     "C03-R16"),
    ("island cut-out keeps the pixels of other islands",
     "AegeanTools/source_finder.py",
     "                          (l[xmin:xmax, ymin:ymax] != i + 1)",
     "                          (l[xmin:xmax, ymin:ymax] == 0)", "C03-R15"),
    ("flags parameter stores the copy taken before NOTFIT is raised",
     "AegeanTools/source_finder.py",
     "params.add(prefix + \"flags\", value=summit_flag, vary=False)",
     "params.add(prefix + \"flags\", value=flag, vary=False)", "C03-R14"),
    ("istart = i", "AegeanTools/source_finder.py",
     "g, stage, outerclip, istart=i*group_size)",
     "g, stage, outerclip, istart=i)", "C03-R1"),
    ("batch of 21", "AegeanTools/source_finder.py",
     "if len(island_group) >= group_size:",
     "if len(island_group) > group_size:", "C03-R1"),
    ("blind counter not incremented", "AegeanTools/source_finder.py",
     "            isle_num += 1\n            scalars",
     "            scalars", "C03-R1"),
    ("component number from 1", "AegeanTools/source_finder.py",
     "            source.source = j\n", "            source.source = j + 1\n",
     "C03-R2"),
    ("foreign flag value", "AegeanTools/source_finder.py",
     "                src_flags |= flags.WCSERR\n",
     "                src_flags |= 128\n", "C03-R3"),
    ("flag added arithmetically", "AegeanTools/source_finder.py",
     "                ns.flags |= flags.PRIORIZED\n",
     "                ns.flags += flags.PRIORIZED\n", "C03-R3"),
    ("pa_limit before fix_shape", "AegeanTools/source_finder.py",
     "            fix_shape(source)\n            # limit the pa to be in "
     "(-90,90]\n            source.pa = pa_limit(source.pa)\n",
     "            source.pa = pa_limit(source.pa)\n            fix_shape("
     "source)\n", "C03-R4"),
    ("pa_limit closed at -90", "AegeanTools/source_finder.py",
     "    while pa <= -90:\n        pa += 180", "    while pa < -90:\n"
     "        pa += 180", "C03-R4"),
    ("strings before wrap", "AegeanTools/source_finder.py",
     "            if source.ra < 0:\n                source.ra += 360\n"
     "            source.ra_str = dec2hms(source.ra)\n",
     "            source.ra_str = dec2hms(source.ra)\n"
     "            if source.ra < 0:\n                source.ra += 360\n",
     "C03-R4"),
    ("error marker -2", "AegeanTools/fitting.py",
     "            onesigma = [ERR_MASK] * len(mask[0])",
     "            onesigma = [-2] * len(mask[0])", "C03-R5"),
    ("err zero", "AegeanTools/fitting.py",
     "        source.err_ra = source.err_dec = -1\n\n    if model[prefix + "
     "'theta'].vary and np.isfinite(err_theta):",
     "        source.err_ra = source.err_dec = 0\n\n    if model[prefix + "
     "'theta'].vary and np.isfinite(err_theta):", "C03-R5"),
    ("int_flux without pi", "AegeanTools/source_finder.py",
     "source.int_flux = source.peak_flux * sx * sy * CC2FHWM ** 2 * np.pi",
     "source.int_flux = source.peak_flux * sx * sy * CC2FHWM ** 2",
     "C03-R6"),
    ("no handler in priorized", "AegeanTools/source_finder.py",
     "                try:\n                    result, _ = do_lmfit(idata, "
     "params, B=B)\n                except AegeanNaNModelError:\n"
     "                    # as in blind mode: an island that cannot be fit "
     "is\n                    # skipped instead of aborting the whole run\n"
     "                    self.log.debug(\n                        \" fit of "
     "island {0} failed: skipping\".format(inum))\n                    "
     "continue\n",
     "                result, _ = do_lmfit(idata, params, B=B)\n", "C03-R8"),
    ("island position 0-based", "AegeanTools/source_finder.py",
     "xy = positions[0][0] + xmin + 1, positions[1][0] + ymin + 1",
     "xy = positions[0][0] + xmin, positions[1][0] + ymin", "C03-R9"),
    ("float fallback index", "AegeanTools/source_finder.py",
     "positions = [[kappa_sigma.shape[0] // 2],",
     "positions = [[kappa_sigma.shape[0] / 2],", "C03-R9"),
    ("time-dependent value", "AegeanTools/source_finder.py",
     "            source.residual_mean = residual[0]\n",
     "            import time\n            source.residual_mean = "
     "residual[0] + 0 * time.time()\n", "C03-R7"),
    ("signed integrated-flux error (seed C03c)", "AegeanTools/fitting.py",
     "        source.err_int_flux = abs(source.int_flux * np.sqrt(sqerr))",
     "        source.err_int_flux = source.int_flux * np.sqrt(sqerr)", "C03-R11"),
    ("island field takes the component index", "AegeanTools/source_finder.py",
     "            source.island = isle_num\n            source.source = j",
     "            source.island = j\n            source.source = j", "C03-R2"),
    ("RA wrapped before the rounding (seed C03d)", "AegeanTools/angle_tools.py",
     "    h %= 24\n", "    h = h\n", "C03-R12"),
]
TWINS = [
    ("stride reordered", "AegeanTools/source_finder.py",
     "g, stage, outerclip, istart=i*group_size)",
     "g, stage, outerclip, istart=group_size*i)"),
]



def run(ctx):
    prog = ctx.prog
    sf = prog.module("source_finder")
    r1(ctx, prog, sf)
    r2(ctx, prog)
    r3(ctx, prog)
    r4(ctx, prog)
    r5(ctx, prog)
    r6(ctx, prog, sf)
    r7(ctx, prog)
    r8(ctx, prog)
    r9(ctx, prog)
    from .c13 import r8_island_peak
    r8_island_peak(ctx, prog, rule="C03-R18", polarity=True)
    ctx.rule("C03-R20", "psf_a / psf_b of a row are the beam AT the source: "
             "the psf accessors of WCSHelper hand (row, column) positions "
             "to the pixel <-> sky conversions in the order those expect "
             "(index-type contracts; a transposed position gives the beam "
             "of another place in a wide field, and int_flux = peak a b / "
             "(psf_a psf_b) no longer holds)")
    unitrules.apply(ctx, "C03-R20",
                    lambda sh: sh.startswith("wcs_helpers.WCSHelper.get_"),
                    kinds={"call", "return", "sink", "store"},
                    what="contract sites in the psf accessors", floor=4)
    ctx.rule("C03-R17", "the fitting box of a priorized island is cut with "
             "row bounds made of row quantities and column bounds made of "
             "column quantities (a row bound clamped with the number of "
             "columns gives an empty box on a tall image: nanmax of nothing "
             "raises and the run aborts instead of flagging)")
    unitrules.apply(ctx, "C03-R17",
                    {"source_finder.SourceFinder._refit_islands"},
                    kinds={"sink"},
                    report_rules={"idx-slice-axis", "idx-crossed"},
                    what="cut-outs of _refit_islands", floor=None)
    r11(ctx, prog)
    r14_flags_reach(ctx, prog)
    from .c01 import isolation_rule
    isolation_rule(ctx, prog, "C03-R15")
    from ..core import shared_state
    ctx.rule("C03-R16", "reproducibility within one process: every "
             "SourceFinder has its own catalogue and data -- no method "
             "appends to / stores into a container defined at class or "
             "module level (and not re-bound per instance in __init__), and "
             "nothing is memoised")
    n16 = 0
    for q, f16 in sorted(prog.functions.items()):
        if f16.cls != "SourceFinder" or not f16.module.endswith(
                "source_finder"):
            continue
        n16 += 1
        st = shared_state(prog, f16)
        ctx.check("C03-R16", f16, "%s keeps no state shared between "
                  "instances" % f16.short, not st,
                  "%s: the second run in a process also reports the rows of "
                  "the first (duplicate (island, source) pairs and uuids)" %
                  "; ".join(d for _, d in st[:3]),
                  node=st[0][0] if st else f16.node)
    ctx.floor("C03-R16", n16, 8, "methods of SourceFinder")
    # the strings agree with the decimal coordinates: formatter rules shared
    # with C17 (quantise before splitting, hours mod 24 after rounding)
    from .c17 import sexagesimal
    sexagesimal(ctx, prog, prog.module("angle_tools"), R4="C03-R12", R5="C03-R13")
    from .c17 import r12_formatters
    r12_formatters(ctx, prog, "C03-R19")
    # ---------------------------------------------------------------- R10
    g = callgraph.build(prog)
    reach = callgraph.reachable(g, [PKG + "." + d for d in DRIVERS])
    n = rules_num.lmfit_int_uses(ctx, "C03-R10", reach)
    ctx.note("C03-R10: %d int-only uses of coerced lmfit values found" % n)
    nl = link.check(ctx, DRIVERS, rule="C03-R10",
                    what="blind and priorized drivers")
    ctx.floor("C03-R10", nl, 150, "library symbols reachable from the "
              "drivers")


# --------------------------------------------------------------------------
def r1(ctx, prog, sf):
    ctx.rule("C03-R1", "island ids are unique: blind mode uses one "
             "monotonically incremented counter; priorized batches start at "
             "k*batch_size (batches hold <= batch_size islands) or at a "
             "running sum of batch lengths")
    pr = prog.func("source_finder.SourceFinder.priorized_fit_islands")
    calls = [c for c in walk_no_nested(pr.node) if isinstance(c, ast.Call)
             and norm(c.func) == "self._refit_islands"]
    if len(calls) != 1:
        raise AnalysisError("C03-R1: call to _refit_islands not unique")
    c = calls[0]
    istart = kwarg(c, "istart")
    if istart is None and len(c.args) >= 4:
        istart = c.args[3]
    loop = None
    for lp in walk_no_nested(pr.node):
        if isinstance(lp, ast.For) and any(x is c for x in ast.walk(lp)):
            loop = lp
    if loop is None or istart is None:
        raise AnalysisError("C03-R1: batch loop / istart not found")
    # batching guard:  a batch is closed when len(batch) >= G  (max length G)
    # or  > G  (max length G+1)
    gs = None
    extra = 0
    for s in walk_no_nested(pr.node):
        # the guard that closes a batch: its body queues the batch and
        # starts a new (empty) one
        if isinstance(s, ast.If) and isinstance(s.test, ast.Compare) and \
                norm(s.test.left).startswith("len(") and \
                isinstance(s.test.ops[0], (ast.GtE, ast.Gt, ast.Eq)) and \
                any(isinstance(b, ast.Assign) and
                    isinstance(b.value, ast.List) and not b.value.elts
                    for b in s.body):
            gs = norm(s.test.comparators[0])
            extra = 1 if isinstance(s.test.ops[0], ast.Gt) else 0
    idx = None
    if isinstance(loop.iter, ast.Call) and norm(loop.iter.func) == \
            "enumerate" and isinstance(loop.target, ast.Tuple):
        idx = norm(loop.target.elts[0])
        if gs is None and loop.iter.args:
            # batches cut by slicing:  [g[s:s + G] for s in range(0, n, G)]
            from .c08 import _resolve_local
            lc = _resolve_local(pr.node, loop.iter.args[0])
            if isinstance(lc, ast.ListComp) and len(lc.generators) == 1 and \
                    not lc.generators[0].ifs and \
                    isinstance(lc.elt, ast.Subscript) and \
                    isinstance(lc.elt.slice, ast.Slice) and \
                    isinstance(lc.generators[0].iter, ast.Call) and \
                    norm(lc.generators[0].iter.func) == "range" and \
                    len(lc.generators[0].iter.args) == 3:
                var = norm(lc.generators[0].target)
                lo_, hi_ = lc.elt.slice.lower, lc.elt.slice.upper
                step = lc.generators[0].iter.args[2]
                start0 = lc.generators[0].iter.args[0]
                width = None
                if lo_ is not None and norm(lo_) == var and \
                        isinstance(hi_, ast.BinOp) and \
                        isinstance(hi_.op, ast.Add):
                    if norm(hi_.left) == var:
                        width = hi_.right
                    elif norm(hi_.right) == var:
                        width = hi_.left
                if width is not None and norm(start0) == "0":
                    ctx.check("C03-R1", pr, "batches %s" % norm(lc, 70),
                              norm(width) == norm(step),
                              "slices of width %s taken every %s elements: "
                              "islands are %s" %
                              (norm(width), norm(step),
                               "fitted twice or skipped"), node=lc)
                    gs = norm(width)
                    extra = 0
    if isinstance(istart, ast.Name):
        from .c08 import _resolve_local
        istart = _resolve_local(pr.node, istart)
    t = norm(istart).replace(" ", "")
    ok_stride = False
    stride_form = idx is not None and gs is not None and \
        isinstance(istart, ast.BinOp) and isinstance(istart.op, ast.Mult) and \
        idx in (norm(istart.left), norm(istart.right))
    if stride_form:
        other = istart.right if norm(istart.left) == idx else istart.left
        sv = prog.const_value(sf, other)
        if sv is None and isinstance(other, ast.Name):
            d = [x for x in walk_no_nested(pr.node) if isinstance(x, ast.Assign)
                 and norm(x.targets[0]) == other.id]
            if len(d) == 1:
                sv = prog.const_value(sf, d[0].value)
        gv = None
        gd = [x for x in walk_no_nested(pr.node) if isinstance(x, ast.Assign)
              and norm(x.targets[0]) == gs]
        if len(gd) == 1:
            gv = prog.const_value(sf, gd[0].value)
        if norm(other) == gs and extra == 0:
            ok_stride = True
        elif isinstance(sv, int) and isinstance(gv, int):
            ok_stride = sv >= gv + extra
        if not ok_stride:
            ctx.check("C03-R1", pr, "batch start id " + norm(istart), False,
                      "batches hold up to %s%s islands but consecutive "
                      "batches start only %s ids apart: the last island of "
                      "batch k and the first island of batch k+1 receive the "
                      "same island number" %
                      (gs, "+1" if extra else "", norm(other)),
                      {"istart": norm(istart), "max_batch": "%s+%d" %
                       (gs, extra)}, c)
    # running sum idiom: a name incremented by len(<batch>) in the loop
    ok_sum = False
    if isinstance(istart, ast.Name):
        for s in ast.walk(loop):
            if isinstance(s, ast.AugAssign) and \
                    norm(s.target) == istart.id and \
                    isinstance(s.op, ast.Add) and \
                    norm(s.value).startswith("len("):
                ok_sum = True
    if ok_stride or ok_sum:
        ctx.ob("C03-R1", pr, "batch start id " + norm(istart), True,
               {"idiom": "stride" if ok_stride else "running sum"}, c)
    elif stride_form:
        pass
    elif idx is not None and t == idx:
        ctx.check("C03-R1", pr, "batch start id " + norm(istart), False,
                  "batch k (of up to %s islands) is numbered from k: batch 0 "
                  "uses ids 0..%s-1, batch 1 uses 1..%s, ... -- the same "
                  "island number is given to different islands, so "
                  "(island, source) pairs repeat in the catalogue" %
                  (gs, gs, gs), {"istart": norm(istart), "batch": gs}, c)
    else:
        raise AnalysisError("C03-R1: start id expression %s not recognised"
                            % norm(istart))
    rf = prog.func("source_finder.SourceFinder._refit_islands")
    en = [lp for lp in walk_no_nested(rf.node) if isinstance(lp, ast.For)
          and isinstance(lp.iter, ast.Call) and
          norm(lp.iter.func) == "enumerate" and
          kwarg(lp.iter, "start") is not None]
    ok = len(en) == 1 and norm(kwarg(en[0].iter, "start")) == "istart"
    inum = norm(en[0].target.elts[0]) if ok else None
    ifd = [x for x in walk_no_nested(rf.node) if isinstance(x, ast.Call) and
           norm(x.func) == "IslandFittingData"]
    ok = ok and len(ifd) == 1 and ifd[0].args and \
        norm(ifd[0].args[0]) == inum
    ctx.check("C03-R1", rf, "island id = enumerate(group, start=istart)", ok,
              "the island number must be the batch-offset enumeration index",
              node=en[0] if en else rf.node)
    # blind mode
    fs = prog.func("source_finder.SourceFinder.find_sources_in_image")
    incs = [s for s in walk_no_nested(fs.node) if isinstance(s, ast.AugAssign)
            and isinstance(s.op, ast.Add) and norm(s.value) == "1"]
    ifd = [x for x in walk_no_nested(fs.node) if isinstance(x, ast.Call) and
           norm(x.func) == "IslandFittingData"]
    ok = len(ifd) == 1 and ifd[0].args and any(
        norm(s.target) == norm(ifd[0].args[0]) for s in incs)
    if ok:
        cnt = norm(ifd[0].args[0])
        g = CFG(fs.node)
        inc_nodes = [n for n, s in g.stmt.items() if s in incs and
                     norm(s.target) == cnt]
        use_nodes = [n for n, s in g.stmt.items() if g.kind[n] == "stmt" and
                     any(x is ifd[0] for x in ast.walk(s))]
        # every construction is preceded by exactly one increment since the
        # previous construction: no path use -> use avoiding the increment
        ok = bool(use_nodes) and all(
            g.path_avoiding(u, u, inc_nodes) is None for u in use_nodes)
    ctx.check("C03-R1", fs, "blind island counter", ok,
              "two islands can receive the same number (the counter is not "
              "incremented between two IslandFittingData constructions)",
              node=ifd[0] if ifd else fs.node)


def r2(ctx, prog):
    ctx.rule("C03-R2", "source.source is the loop index of "
             "range(components)")
    rc = prog.func("source_finder.SourceFinder.result_to_components")
    st = [s for s in walk_no_nested(rc.node) if isinstance(s, ast.Assign)
          and isinstance(s.targets[0], ast.Attribute) and
          s.targets[0].attr == "source"]
    ok = False
    for s in st:
        for lp in walk_no_nested(rc.node):
            if isinstance(lp, ast.For) and s in lp.body and \
                    norm(lp.target) == norm(s.value) and \
                    isinstance(lp.iter, ast.Call) and \
                    norm(lp.iter.func) == "range" and \
                    len(lp.iter.args) == 1 and \
                    "components" in norm(lp.iter.args[0]):
                ok = True
    ctx.check("C03-R2", rc, "component number store", ok,
              "components of an island must be numbered 0..n-1 by the "
              "range(components) index", node=st[0] if st else rc.node)
    # the island number of every source built here is the island's own
    from .c08 import _resolve_local
    ist = [s for s in walk_no_nested(rc.node) if isinstance(s, ast.Assign)
           and isinstance(s.targets[0], ast.Attribute) and
           s.targets[0].attr == "island"]
    for s in ist:
        v = s.value
        for _ in range(3):
            if isinstance(v, ast.Name):
                v = _resolve_local(rc.node, v)
        ctx.check("C03-R2", rc, "island number store " + norm(s),
                  isinstance(v, ast.Attribute) and v.attr == "isle_num",
                  "the island field must be the island's own number "
                  "(island_data.isle_num); found %s: sources of different "
                  "islands share (island, source) pairs" % norm(s.value),
                  node=s)
    if len(ist) < 1:
        raise AnalysisError("C03-R2: no store to <source>.island in "
                            "result_to_components")
    pref = [s for s in walk_no_nested(rc.node) if isinstance(s, ast.Assign)
            and norm(s.targets[0]) == "prefix"]
    ctx.check("C03-R2", rc, "parameter prefix uses the same index",
              bool(pref) and all("format(j)" in norm(s.value) or
                                 norm(s.value).endswith("format(%s)" %
                                                        norm(st[0].value))
                                 for s in pref) if st else False,
              "the parameters read for component j must be c{j}_*",
              node=pref[0] if pref else rc.node)


def r3(ctx, prog):
    ctx.rule("C03-R3", "flag domain: only flags.* constants, 0, other flag "
             "values or int(<model flags parameter>) reach a flags "
             "field/variable")
    fl = prog.module("flags")
    consts = set(fl.consts)
    missing = [n for n in FLAG_NAMES if n not in consts]
    ctx.check("C03-R3", "flags", "documented flag constants present",
              not missing, "missing %s" % missing)
    vals = [prog.const_value(fl, fl.consts[n]) for n in FLAG_NAMES
            if n in consts]
    ctx.check("C03-R3", "flags", "flag bits distinct single bits",
              len(set(vals)) == len(vals) and all(
                  isinstance(v, int) and v > 0 and v & (v - 1) == 0
                  for v in vals), "flag constants must be distinct powers of "
              "two: %s" % vals)
    n = 0
    for q, fi in prog.functions.items():
        if fi.module not in (PKG + ".source_finder", PKG + ".fitting"):
            continue
        flagvars = {"is_flag", "src_flags", "summit_flag", "flag", "isflags"}
        for s in walk_no_nested(fi.node):
            tgt = val = None
            badop = None
            if isinstance(s, ast.AugAssign) and isinstance(
                    s.op, (ast.BitOr, ast.BitAnd)):
                tgt, val = s.target, s.value
            elif isinstance(s, ast.AugAssign):
                tgt, val, badop = s.target, s.value, type(s.op).__name__
            elif isinstance(s, ast.Assign):
                tgt, val = s.targets[0], s.value
            if tgt is None:
                continue
            tn = norm(tgt)
            isflag = (isinstance(tgt, ast.Attribute) and
                      tgt.attr == "flags") or tn in flagvars or \
                (isinstance(tgt, ast.Attribute) and tgt.attr == "value" and
                 "flags" in tn)
            if not isflag:
                continue
            n += 1
            if badop:
                ctx.check("C03-R3", fi, "flag update " + norm(s, 70), False,
                          "flags are combined arithmetically (%s): when the "
                          "bit is already set the carry produces an "
                          "undocumented bit and clears the intended one" %
                          badop, node=s)
                continue
            ok = _flag_expr(val, flagvars)
            ctx.check("C03-R3", fi, "flag value " + norm(s, 70), ok,
                      "a value outside the documented flag bits can reach a "
                      "flags field", node=s)
        # params.add(prefix + 'flags', value=...)
        for c in walk_no_nested(fi.node):
            if isinstance(c, ast.Call) and isinstance(c.func, ast.Attribute) \
                    and c.func.attr == "add" and c.args and \
                    norm(c.args[0]).endswith("'flags'"):
                v = kwarg(c, "value")
                n += 1
                ctx.check("C03-R3", fi, "flags parameter " + norm(c, 70),
                          v is not None and _flag_expr(v, flagvars),
                          "the flags parameter is initialised with a value "
                          "outside the flag domain", node=c)
    ctx.floor("C03-R3", n, 15, "stores to flag fields/variables")


def _flag_expr(v, flagvars):
    if isinstance(v, ast.Constant):
        return v.value == 0
    if isinstance(v, ast.Attribute):
        if norm(v.value) == "flags" and v.attr in FLAG_NAMES:
            return True
        if v.attr == "flags":
            return True
        if v.attr == "value" and "flags" in norm(v):
            return True
    if isinstance(v, ast.Name):
        return v.id in flagvars
    if isinstance(v, ast.BinOp) and isinstance(v.op, (ast.BitOr, ast.BitAnd)):
        return _flag_expr(v.left, flagvars) and _flag_expr(v.right, flagvars)
    if isinstance(v, ast.Call) and norm(v.func) == "int" and v.args:
        return _flag_expr(v.args[0], flagvars)
    return False


def r4(ctx, prog):
    ctx.rule("C03-R4", "shape normalisation order on every path to "
             "sources.append: fix_shape -> pa_limit -> RA wrap -> strings; "
             "pa_limit exits with -90 < pa <= 90")
    rc = prog.func("source_finder.SourceFinder.result_to_components")
    g = CFG(rc.node)

    def nodes(pred):
        return [n for n, s in g.stmt.items()
                if g.kind[n] in ("stmt", "if") and pred(s)]
    comp_loop = [lp for lp in rc.node.body if isinstance(lp, ast.For)]
    if not comp_loop:
        raise AnalysisError("C03-R4: component loop not found")
    body = comp_loop[0]
    inbody = lambda s: any(s is x for x in ast.walk(body))
    fix = nodes(lambda s: inbody(s) and isinstance(s, ast.Expr) and
                isinstance(s.value, ast.Call) and
                norm(s.value.func) == "fix_shape")
    pal = nodes(lambda s: inbody(s) and isinstance(s, ast.Assign) and
                norm(s.targets[0]) == "source.pa" and
                isinstance(s.value, ast.Call) and
                norm(s.value.func) == "pa_limit")
    scale = nodes(lambda s: inbody(s) and isinstance(s, ast.AugAssign) and
                  norm(s.target) in ("source.a", "source.b"))
    # the RA wrap: an `if` on source.ra whose body shifts source.ra, or
    # source.ra = <helper of the module>(...)
    def _is_wrap(s):
        if isinstance(s, ast.If) and \
                any(isinstance(x, ast.Attribute) and norm(x) == "source.ra"
                    for x in ast.walk(s.test)) and \
                any(isinstance(b, (ast.Assign, ast.AugAssign)) and
                    norm(b.targets[0] if isinstance(b, ast.Assign)
                         else b.target) == "source.ra" for b in s.body):
            return True
        if isinstance(s, ast.Assign) and \
                norm(s.targets[0]) == "source.ra" and \
                isinstance(s.value, ast.Call) and \
                isinstance(s.value.func, ast.Name) and \
                len(s.value.args) == 1:
            q_ = prog.resolve_name(prog.modules[rc.module],
                                   s.value.func.id)
            return q_ in prog.functions
        return False
    # (looked for in the program as written: a wrap helper that the loader
    # inlined is a three-statement sequence, the call is one statement)
    rawp = ctx.raw_prog()
    rc_raw = rawp.func("source_finder.SourceFinder.result_to_components")
    g_raw = CFG(rc_raw.node)
    _prog_saved, prog_w = prog, rawp

    def _is_wrap_raw(s):
        nonlocal_prog = prog_w
        if isinstance(s, ast.Assign) and \
                norm(s.targets[0]) == "source.ra" and \
                isinstance(s.value, ast.Call) and \
                isinstance(s.value.func, ast.Name) and \
                len(s.value.args) == 1:
            q_ = nonlocal_prog.resolve_name(
                nonlocal_prog.modules[rc_raw.module], s.value.func.id)
            return q_ in nonlocal_prog.functions
        return _is_wrap(s) if isinstance(s, ast.If) else False
    loops_raw = [lp for lp in rc_raw.node.body if isinstance(lp, ast.For)]
    in_raw = lambda s: any(s is x for x in ast.walk(loops_raw[0]))
    wrap = [n for n, s in g_raw.stmt.items()
            if g_raw.kind[n] in ("stmt", "if") and in_raw(s) and
            _is_wrap_raw(s)]
    strs_raw = [n for n, s in g_raw.stmt.items()
                if g_raw.kind[n] == "stmt" and in_raw(s) and
                isinstance(s, ast.Assign) and
                norm(s.targets[0]) in ("source.ra_str", "source.dec_str")]
    strs = nodes(lambda s: inbody(s) and isinstance(s, ast.Assign) and
                 norm(s.targets[0]) in ("source.ra_str", "source.dec_str"))
    app = nodes(lambda s: inbody(s) and isinstance(s, ast.Expr) and
                isinstance(s.value, ast.Call) and
                norm(s.value.func) == "sources.append")
    if not (fix and pal and wrap and strs and app):
        raise AnalysisError("C03-R4: anchors missing fix=%s pa_limit=%s "
                            "wrap=%s strings=%s append=%s" %
                            (len(fix), len(pal), len(wrap), len(strs),
                             len(app)))
    a = app[0]
    ctx.check("C03-R4", rc, "fix_shape before pa_limit",
              g.dominates(fix[0], pal[0]) and fix[0] != pal[0],
              "pa_limit must run after fix_shape (which adds 90 deg)",
              node=g.stmt[pal[0]])
    ctx.check("C03-R4", rc, "unit scaling before fix_shape", all(
        g.dominates(s, fix[0]) for s in scale),
        "a/b must be final before a>=b is enforced", node=g.stmt[fix[0]])
    ctx.check("C03-R4", rc, "pa_limit reaches every append",
              g.dominates(pal[0], a), "a path appends a source whose pa was "
              "not limited", node=g.stmt[a])
    # no later writers of a, b, pa between pa_limit and append
    later = nodes(lambda s: inbody(s) and isinstance(
        s, (ast.Assign, ast.AugAssign)) and any(
            norm(t) in ("source.a", "source.b", "source.pa")
            for t in (s.targets if isinstance(s, ast.Assign)
                      else [s.target])))
    bad = [n for n in later if n not in pal and n not in scale and
           g.dominates(pal[0], n) and g.path_avoiding(n, a, []) is not None
           and not g.dominates(n, fix[0])]
    bad = [n for n in bad if g.stmt[n].lineno > g.stmt[pal[0]].lineno]
    ctx.check("C03-R4", rc, "no writer of a/b/pa after pa_limit", not bad,
              "a/b/pa are modified after normalisation: %s" %
              [norm(g.stmt[n]) for n in bad],
              node=g.stmt[bad[0]] if bad else g.stmt[pal[0]])
    for s in strs_raw:
        ctx.check("C03-R4", rc, "RA wrap before " + norm(g_raw.stmt[s], 50),
                  g_raw.dominates(wrap[0], s), "the sexagesimal strings "
                  "must be computed from the wrapped RA",
                  node=g_raw.stmt[s])
    from .. import concrete as _cw
    allwraps = [st for st in walk_no_nested(rc_raw.node) if _is_wrap_raw(st)]
    prog = rawp
    rc_w = rc_raw
    ctx.floor("C03-R4", len(allwraps), 2, "RA wraps (component and island "
              "rows)")
    for w in allwraps:
      # interpreted: 0 <= ra < 360 afterwards, and values already in range
      # (0 included) are left alone
      badw = []
      if True:
        for v_ in (-190.5, -10.0, -1e-9, 0.0, 0, 1e-9, 10.0, 359.999):
            env_ = {"source.ra": v_}
            try:
                if isinstance(w, ast.Assign):
                    # source.ra = _wrap(<value>): the helper is interpreted
                    # on the sample (whatever expression it is handed)
                    q_ = prog.resolve_name(prog.modules[rc_w.module],
                                           w.value.func.id)
                    h_ = prog.functions[q_]
                    out_h, _e = _cw.call(h_.node, {h_.params[0]: v_})
                    env_["source.ra"] = out_h
                else:
                    _cw.run([w], env_)
            except _cw.Unknown as e:
                raise AnalysisError("C03-R4: RA wrap: %s" % e)
            out_ = env_["source.ra"]
            want_ = v_ + 360 if v_ < 0 else v_
            if out_ != want_ or not (0 <= out_ < 360):
                badw.append((v_, out_))
        ctx.check("C03-R4", rc, "RA wrap `%s` over 8 sample values" %
                  norm(w.test if isinstance(w, ast.If) else w, 50), not badw,
                  "a right ascension of %s comes out as %s: the wrap must add "
                  "360 to negative values only, leaving 0 <= ra < 360" %
                  (badw[0] if badw else ("", "")), node=w)
    prog = _prog_saved
    # pa_limit post-condition: the function is interpreted (our evaluator,
    # not python) over angles on both sides of each boundary
    from .. import concrete
    pl = prog.func("source_finder.pa_limit")
    p = pl.params[0]
    bad = []
    samples = [-450.0, -270.0, -180.0, -90.5, -90.0, -89.5, -45.0, 0.0, 45.0,
               89.5, 90.0, 90.5, 180.0, 269.5, 270.0, 450.0, 810.0]
    for v in samples:
        try:
            out, _ = concrete.call(pl.node, {p: v})
        except concrete.Unknown as e:
            if "does not terminate" in str(e):
                # 10000 iterations on a sample angle: the wrap never returns
                bad.append((v, "no value: the loop never terminates"))
                continue
            raise AnalysisError("C03-R4: cannot interpret pa_limit: %s" % e)
        if out is None or not (-90 < out <= 90) or \
                abs((out - v) / 180.0 - round((out - v) / 180.0)) > 1e-12:
            bad.append((v, out))
    ctx.check("C03-R4", pl, "pa_limit maps every sample angle into "
              "(-90, 90] by multiples of 180", not bad,
              "pa_limit(%s) gives %s" % (bad[0] if bad else ("", "")),
              node=pl.node)
    fx = prog.func("source_finder.fix_shape")
    src = fx.params[0]
    bad = []
    for a, b in ((1.0, 2.0), (2.0, 1.0), (1.5, 1.5)):
        env = {src + ".a": a, src + ".b": b, src + ".pa": 10.0,
               src + ".err_a": 0.1 * a, src + ".err_b": 0.1 * b}
        try:
            concrete.call(fx.node, env)
        except concrete.Unknown as e:
            raise AnalysisError("C03-R4: cannot interpret fix_shape: %s" % e)
        if a < b:
            want = {src + ".a": b, src + ".b": a, src + ".pa": 100.0,
                    src + ".err_a": 0.1 * b, src + ".err_b": 0.1 * a}
        else:
            want = dict(env0 := {src + ".a": a, src + ".b": b,
                                 src + ".pa": 10.0, src + ".err_a": 0.1 * a,
                                 src + ".err_b": 0.1 * b})
        got = {k: env.get(k) for k in want}
        if got != want:
            bad.append(((a, b), got))
    ctx.check("C03-R4", fx, "fix_shape swaps a/b, err_a/err_b and adds 90",
              not bad, "a<b must swap the axes and their errors and rotate pa "
              "by 90 deg, a>=b must change nothing: %s" %
              (bad[0] if bad else "",), node=fx.node)


SIGNED_FIELDS = {"peak_flux", "int_flux", "dec", "background", "pa",
                 "residual_mean"}
NONNEG_CALLS = {"abs", "np.abs", "numpy.abs", "np.fabs", "np.sqrt",
                "numpy.sqrt", "math.sqrt", "np.hypot", "math.hypot", "gcd",
                "np.std", "np.nanstd", "np.linalg.norm", "len", "np.exp",
                "math.exp", "np.square", "sky_sep", "dist_rhumb"}


def sign_of(fnode, e, depth=0):
    """'+'  provably >= 0;  '-1' the documented sentinel;  '?' may be
    negative (a signed quantity not wrapped in abs());  None unknown"""
    from .c08 import _resolve_local
    if depth > 8:
        return None
    if isinstance(e, ast.Constant) and isinstance(e.value, (int, float)) \
            and not isinstance(e.value, bool):
        return "+" if e.value >= 0 else ("-1" if e.value == -1 else "?")
    if isinstance(e, ast.UnaryOp) and isinstance(e.op, ast.USub):
        if isinstance(e.operand, ast.Constant) and e.operand.value == 1:
            return "-1"
        inner = sign_of(fnode, e.operand, depth + 1)
        return "?" if inner in ("+", "?") else None
    if isinstance(e, ast.Name):
        if e.id == "ERR_MASK":
            return "-1"
        r = _resolve_local(fnode, e)
        if r is not e:
            return sign_of(fnode, r, depth + 1)
        return None
    if isinstance(e, ast.Attribute):
        if e.attr == "stderr" or e.attr.startswith("err_"):
            return "+"            # an uncertainty (or its -1 marker) itself
        if norm(e) in ("np.nan", "numpy.nan", "np.pi", "math.pi"):
            return "+"
        if e.attr in SIGNED_FIELDS:
            return "?"
        if e.attr == "value" and isinstance(e.value, ast.Subscript) and \
                "amp" in norm(e.value.slice):
            return "?"
        return None
    if isinstance(e, ast.Call):
        fn = norm(e.func)
        if fn in NONNEG_CALLS or fn.split(".")[-1] in ("gcd", "sky_sep"):
            return "+"
        return None
    if isinstance(e, ast.BinOp):
        l_, r_ = sign_of(fnode, e.left, depth + 1), \
            sign_of(fnode, e.right, depth + 1)
        if isinstance(e.op, (ast.Mult, ast.Div)):
            if "?" in (l_, r_):
                return "?"
            if l_ == "+" and r_ == "+":
                return "+"
            return None
        if isinstance(e.op, ast.Add):
            if l_ == "+" and r_ == "+":
                return "+"
            return "?" if "?" in (l_, r_) else None
        if isinstance(e.op, ast.Sub):
            return "?" if (l_ is not None and r_ is not None) else None
        if isinstance(e.op, ast.Pow):
            if isinstance(e.right, ast.Constant) and \
                    isinstance(e.right.value, int) and e.right.value % 2 == 0:
                return "+"
            return l_ if l_ == "+" else None
        return None
    if isinstance(e, ast.IfExp):
        a_, b_ = sign_of(fnode, e.body, depth + 1), \
            sign_of(fnode, e.orelse, depth + 1)
        if "?" in (a_, b_):
            return "?"
        return a_ if a_ == b_ else None
    if isinstance(e, ast.Subscript):
        return sign_of(fnode, e.value, depth + 1)
    return None


def r11(ctx, prog):
    ctx.rule("C03-R11", "sign of the uncertainties: a value stored into an "
             "err_* field is non-negative by construction (abs, sqrt, hypot, "
             "a great-circle distance, an lmfit stderr, products of these) "
             "or the -1 marker; a product with a signed quantity (peak / "
             "integrated flux, dec, pa) must be wrapped in abs()")
    n = 0
    for q, fi in prog.functions.items():
        if fi.module not in (PKG + ".source_finder", PKG + ".fitting",
                             PKG + ".cluster"):
            continue
        for s in walk_no_nested(fi.node):
            if not isinstance(s, (ast.Assign, ast.AugAssign)):
                continue
            tgs = s.targets if isinstance(s, ast.Assign) else [s.target]
            flat = []
            for t in tgs:
                flat += list(t.elts) if isinstance(t, (ast.Tuple, ast.List)) \
                    else [t]
            errt = [t for t in flat if isinstance(t, ast.Attribute) and
                    t.attr.startswith("err_")]
            if not errt:
                continue
            vals = [s.value]
            if isinstance(s, ast.Assign) and \
                    isinstance(s.value, (ast.Tuple, ast.List)) and \
                    len(tgs) == 1 and isinstance(tgs[0], (ast.Tuple,
                                                          ast.List)):
                vals = [v for t, v in zip(tgs[0].elts, s.value.elts)
                        if t in errt]
            for v in vals:
                sg = sign_of(fi.node, v)
                n += 1
                if sg is None:
                    ctx.unknown_site("C03-R11", fi, "sign of %s not derived"
                                     % norm(s, 60), node=s)
                    continue
                ctx.check("C03-R11", fi, "sign of " + norm(s, 70), sg != "?",
                          "the stored uncertainty takes the sign of a signed "
                          "quantity (no abs()): for a negative source it is "
                          "negative -- neither positive nor the -1 marker",
                          node=s)
    ctx.floor("C03-R11", n, 20, "stores to err_* fields")


def r5(ctx, prog):
    ctx.rule("C03-R5", "literals that can reach an err_* field or a "
             "parameter's stderr are ERR_MASK / -1 (NaN only for the island "
             "placeholder)")
    n = 0
    fit = prog.module("fitting")
    em = prog.const_value(fit, fit.consts.get("ERR_MASK")) \
        if "ERR_MASK" in fit.consts else None
    ctx.check("C03-R5", "fitting", "ERR_MASK == -1", em == -1.0,
              "ERR_MASK must be -1 (found %r)" % em)
    for q, fi in prog.functions.items():
        if fi.module not in (PKG + ".source_finder", PKG + ".fitting"):
            continue
        if "pragma: no cover" in ast.get_source_segment(
                prog.modules[fi.module].source, fi.node).split("\n")[0]:
            continue
        for s in walk_no_nested(fi.node):
            if not isinstance(s, ast.Assign):
                continue
            tg = [t for t in s.targets if isinstance(t, ast.Attribute) and
                  (t.attr.startswith("err_") or t.attr == "stderr")]
            if not tg:
                continue
            lits = _literals(fi.node, s.value)
            for lit, node in lits:
                n += 1
                ok = lit in (-1, -1.0) or (tg[0].attr == "stderr" and
                                           lit != lit) or \
                    (lit != lit and "int_flux" in tg[0].attr)
                ctx.check("C03-R5", fi, "literal %r -> %s" %
                          (lit, norm(tg[0])), ok,
                          "the value %r stored as an uncertainty is neither "
                          "positive nor the documented -1 marker" % lit,
                          node=node)
    ctx.floor("C03-R5", n, 5, "literal uncertainty values")


def _literals(fnode, v, depth=0):
    """numeric literals that may flow into expression v through local
    definitions (lists, subscripts, names)"""
    out = []
    if depth > 4:
        return out
    if isinstance(v, ast.Constant) and isinstance(v.value, (int, float)) \
            and not isinstance(v.value, bool):
        return [(v.value, v)]
    if isinstance(v, ast.UnaryOp) and isinstance(v.op, ast.USub) and \
            isinstance(v.operand, ast.Constant):
        return [(-v.operand.value, v)]
    if isinstance(v, ast.Name):
        if v.id == "ERR_MASK":
            return [(-1.0, v)]
        for s in walk_no_nested(fnode):
            if isinstance(s, ast.Assign) and any(
                    isinstance(t, ast.Name) and t.id == v.id
                    for t in s.targets):
                out += _literals(fnode, s.value, depth + 1)
        return out
    if isinstance(v, ast.Attribute):
        if norm(v) in ("np.nan", "numpy.nan", "np.NaN"):
            return [(float("nan"), v)]
        return out
    if isinstance(v, ast.Subscript):
        return _literals(fnode, v.value, depth + 1)
    if isinstance(v, (ast.List, ast.Tuple)):
        for e in v.elts:
            out += _literals(fnode, e, depth + 1)
        return out
    if isinstance(v, ast.BinOp) and isinstance(v.op, ast.Mult) and \
            isinstance(v.left, (ast.List, ast.Tuple)):
        return _literals(fnode, v.left, depth + 1)
    return out


def r6(ctx, prog, sf, rule="C03-R6"):
    ctx.rule(rule, "int_flux == peak * (sx*K) * (sy*K) / (a_pix*b_pix) "
             "with K = 2*sqrt(2 ln 2)")
    rc = prog.func("source_finder.SourceFinder.result_to_components")
    comp_loop = [lp for lp in rc.node.body if isinstance(lp, ast.For)][0]
    a1 = [s for s in comp_loop.body if isinstance(s, ast.Assign) and
          norm(s.targets[0]) == "source.int_flux"]
    a2 = [s for s in comp_loop.body if isinstance(s, ast.AugAssign) and
          norm(s.target) == "source.int_flux"]
    if len(a1) != 1 or len(a2) != 1:
        raise AnalysisError(rule + ": int_flux statements not recognised")
    peak, sx, sy = sp.symbols("peak sx sy", positive=True)
    tr = sym.Translator(prog, sf, {"sx": sx, "sy": sy})
    tr.env["source.peak_flux"] = peak
    try:
        e = tr.expr(a1[0].value)
    except sym.Untranslatable as ex:
        raise AnalysisError(rule + ": %s" % ex)
    K = 2 * sp.sqrt(2 * sp.log(2))
    ok = sp.simplify(e - peak * sx * sy * K ** 2 * sp.pi) == 0
    ctx.check(rule, rc, "numerator " + norm(a1[0]), ok,
              "expected peak*sx*sy*K^2*pi, found %s" % e, node=a1[0])
    okd = isinstance(a2[0].op, ast.Div) and isinstance(a2[0].value, ast.Call) \
        and norm(a2[0].value.func).endswith("get_beamarea_pix")
    ctx.check(rule, rc, "divided by the pixel beam area", okd,
              "int_flux must be divided by the beam area in pixels",
              node=a2[0])
    ba = prog.func("wcs_helpers.WCSHelper.get_beamarea_pix")
    ret = [s for s in walk_no_nested(ba.node) if isinstance(s, ast.Return)]
    unp = [s for s in walk_no_nested(ba.node) if isinstance(s, ast.Assign)
           and isinstance(s.targets[0], ast.Tuple) and
           isinstance(s.value, ast.Call) and
           norm(s.value.func) == "self.get_psf_sky2pix"]
    okb = False
    if len(ret) == 1 and len(unp) == 1:
        a, b = [norm(x) for x in unp[0].targets[0].elts[:2]]
        A, B = sp.symbols("A B", positive=True)
        t2 = sym.Translator(prog, prog.modules[ba.module], {a: A, b: B})
        okb = sp.simplify(t2.expr(ret[0].value) - A * B * sp.pi) == 0
    ctx.check(rule, ba, "beam area = a_pix*b_pix*pi", okb,
              "the pixel beam area must be a*b*pi of the pixel psf axes",
              node=ba.node)


def r7(ctx, prog):
    ctx.rule("C03-R7", "nondeterminism sources reachable from the drivers "
             "flow only into .uuid attributes or shared-memory names")
    g = callgraph.build(prog)
    reach = callgraph.reachable(g, [PKG + "." + d for d in DRIVERS])
    NONDET = ("uuid.", "random.", "numpy.random", "time.time",
              "time.perf_counter", "datetime.datetime.now",
              "datetime.datetime.utcnow", "os.getpid", "os.urandom")
    n = 0
    for q in sorted(reach):
        fi = prog.functions[q]
        mod = prog.modules[fi.module]
        pm = {}
        for x in ast.walk(fi.node):
            for ch in ast.iter_child_nodes(x):
                pm[ch] = x
        local = {}
        for imp in walk_no_nested(fi.node):
            if isinstance(imp, ast.Import):
                for a in imp.names:
                    local[a.asname or a.name.split(".")[0]] = \
                        a.name if a.asname else a.name.split(".")[0]
            elif isinstance(imp, ast.ImportFrom) and imp.module:
                for a in imp.names:
                    local[a.asname or a.name] = imp.module + "." + a.name
        for c in walk_no_nested(fi.node):
            if not isinstance(c, ast.Call):
                continue
            d = prog.dotted(mod, c.func) if isinstance(
                c.func, ast.Attribute) else prog.resolve_name(
                    mod, norm(c.func))
            if d is None:
                root = c.func
                parts = []
                while isinstance(root, ast.Attribute):
                    parts.append(root.attr)
                    root = root.value
                if isinstance(root, ast.Name) and root.id in local:
                    d = ".".join([local[root.id]] + parts[::-1])
            if not d or not d.startswith(NONDET):
                if isinstance(c.func, ast.Name) and c.func.id == "id" and \
                        "id" not in fi.params:
                    d = "id"
                else:
                    continue
            n += 1
            st = c
            while st in pm and not isinstance(st, ast.stmt):
                st = pm[st]
            ok = False
            if isinstance(st, ast.Assign):
                t = st.targets[0]
                if isinstance(t, ast.Attribute) and t.attr == "uuid":
                    ok = True
                if isinstance(t, ast.Name) and t.id in ("memory_id",):
                    ok = True
            ctx.check("C03-R7", fi, "%s in %s" % (d, norm(st, 60)), ok,
                      "a nondeterministic value reaches something other "
                      "than a uuid: repeated runs would differ", node=c)
    ctx.floor("C03-R7", n, 1, "nondeterminism sources reachable from the "
              "drivers")


def r8(ctx, prog):
    ctx.rule("C03-R8", "handler agreement: every call chain from a driver "
             "to do_lmfit passes through a handler of AegeanNaNModelError "
             "(an island that cannot be fitted is skipped/flagged, not "
             "fatal)")
    g = callgraph.build(prog)
    target = PKG + ".fitting.do_lmfit"
    for d in DRIVERS:
        dq = PKG + "." + d
        # all simple call chains driver -> do_lmfit
        import networkx as nx
        sub = g.subgraph(callgraph.reachable(g, [dq]))
        if target not in sub:
            ctx.check("C03-R8", prog.functions[dq], "driver reaches do_lmfit",
                      False, "do_lmfit not reachable from %s" % d)
            continue
        paths = list(nx.all_simple_paths(sub, dq, target, cutoff=4))
        guarded_all = True
        badpath = None
        for p in paths:
            guarded = False
            for a, b in zip(p, p[1:]):
                fa = prog.functions[a]
                for c in walk_no_nested(fa.node):
                    if isinstance(c, ast.Call) and _calls(prog, fa, c, b):
                        if _in_handler_of(fa.node, c, "AegeanNaNModelError"):
                            guarded = True
            if not guarded:
                guarded_all = False
                badpath = p
        ctx.check("C03-R8", prog.functions[dq], "NaN-model handler on the "
                  "path to do_lmfit", guarded_all,
                  "the chain %s has no `except AegeanNaNModelError` around "
                  "any of its calls: one island whose optimisation yields "
                  "NaN aborts the whole run (the other driver skips such "
                  "islands)" % (" -> ".join(x[len(PKG) + 1:]
                                            for x in badpath)
                                if badpath else ""),
                  node=prog.functions[dq].node)


def _calls(prog, fa, call, target_q):
    f = call.func
    t = target_q.rsplit(".", 1)[1]
    if isinstance(f, ast.Name):
        return f.id == t
    if isinstance(f, ast.Attribute):
        return f.attr == t
    return False


def _in_handler_of(fnode, node, excname):
    for tr in walk_no_nested(fnode):
        if isinstance(tr, ast.Try) and any(
                node is x for s in tr.body for x in ast.walk(s)):
            for h in tr.handlers:
                if h.type is None or excname in norm(h.type) or \
                        norm(h.type) in ("Exception", "AegeanError"):
                    return True
    return False


def r9(ctx, prog):
    ctx.rule("C03-R9", "island summary: the peak position handed to "
             "pix2sky is 1-based like component positions (index-origin "
             "taint reaching ra/dec) and fallback indices are integers")
    unitrules.apply(ctx, "C03-R9",
                    {"source_finder.SourceFinder.result_to_components"},
                    kinds={"sink"}, what="position sinks in "
                    "result_to_components", floor=None)
    rc = prog.func("source_finder.SourceFinder.result_to_components")
    # names used as array indices whose definitions contain true division
    n = 0
    idx_names = set()
    for s in walk_no_nested(rc.node):
        if isinstance(s, ast.Subscript) and isinstance(s.slice, ast.Tuple):
            for e in s.slice.elts:
                for x in ast.walk(e):
                    if isinstance(x, ast.Name):
                        idx_names.add(x.id)
    for nm in sorted(idx_names):
        for s in walk_no_nested(rc.node):
            if isinstance(s, ast.Assign) and any(
                    isinstance(t, ast.Name) and t.id == nm
                    for t in s.targets) and isinstance(
                        s.value, (ast.List, ast.Tuple)):
                for d in ast.walk(s.value):
                    if isinstance(d, ast.BinOp) and isinstance(d.op, ast.Div):
                        wrapped = False
                        n += 1
                        ctx.check("C03-R9", rc, "index fallback " + norm(s),
                                  wrapped, "`%s` is later used as an array "
                                  "index; on this path it holds the float "
                                  "%s (IndexError) -- use //" %
                                  (nm, norm(d)), node=s)
    _island_row(ctx, rc)


def _strip_int(e):
    while isinstance(e, ast.Call) and norm(e.func) in ("int", "np.int64") \
            and len(e.args) == 1:
        e = e.args[0]
    return e


def _island_row(ctx, rc):
    """Island row vs the detected pixels, by role: the island object is the
    one built by IslandSource(); (row lo, row hi, col lo, col hi) are the
    names unpacked from island_data.offsets; the cut-out is the name bound
    to island_data.i; the thresholded pixels are the array selected from the
    cut-out by np.where(..., cut-out, nan)."""
    from ..regionmodel import linear
    from .c13 import parity
    R = "C03-R9"
    body = list(walk_no_nested(rc.node))
    isl = [s.targets[0].id for s in body if isinstance(s, ast.Assign)
           and isinstance(s.value, ast.Call) and len(s.targets) == 1
           and isinstance(s.targets[0], ast.Name)
           and norm(s.value.func).split(".")[-1] == "IslandSource"]
    offs = [s for s in body if isinstance(s, ast.Assign)
            and isinstance(s.targets[0], (ast.Tuple, ast.List))
            and len(s.targets[0].elts) == 4
            and isinstance(s.value, ast.Attribute)
            and s.value.attr == "offsets"]
    cut = [s.targets[0].id for s in body if isinstance(s, ast.Assign)
           and isinstance(s.targets[0], ast.Name)
           and isinstance(s.value, ast.Attribute) and s.value.attr == "i"
           and norm(s.value.value) == "island_data"]
    if not isl or len(offs) != 1 or len(cut) != 1:
        raise AnalysisError("C03-R9: island object / offsets unpack / "
                            "cut-out of result_to_components not found")
    isl, cut = isl[0], cut[0]
    roles = [norm(e) for e in offs[0].targets[0].elts]
    noise = [s.targets[0].id for s in body if isinstance(s, ast.Assign)
             and isinstance(s.targets[0], ast.Name)
             and isinstance(s.value, ast.Subscript)
             and norm(s.value.value).endswith("rmsimg")]
    # thresholded pixels of the island summary
    sel = []
    for s in body:
        if isinstance(s, ast.Assign) and isinstance(s.targets[0], ast.Name) \
                and isinstance(s.value, ast.Call) \
                and norm(s.value.func) in ("np.where", "numpy.where") \
                and len(s.value.args) == 3 \
                and norm(s.value.args[1]) == cut \
                and norm(s.value.args[2]) in ("np.nan", "numpy.nan"):
            sel.append(s)
    ctx.floor(R, len(sel), 1, "thresholded pixel selections of the island "
              "summary")
    env = {cut: "O"}
    env.update({n_: "E" for n_ in noise})
    for s in sel:
        pk = parity(s.value.args[0], env, None)
        ctx.check(R, rc, "island pixels " + norm(s, 70), pk == "E",
                  "the pixels counted and summed for the island row are "
                  "selected by this condition, which is not unchanged under "
                  "negation of the data: a negative island (detected on "
                  "|signal-to-noise|) gets a different pixel count / peak "
                  "pixel / integrated flux than the pixels that were "
                  "detected", node=s)
    selnames = {s.targets[0].id for s in sel}

    def stores(attr):
        out = []
        for s in body:
            if isinstance(s, ast.Assign):
                for t in s.targets:
                    ts = t.elts if isinstance(t, (ast.Tuple, ast.List)) \
                        else [t]
                    for k_, e in enumerate(ts):
                        if isinstance(e, ast.Attribute) and e.attr == attr \
                                and norm(e.value) == isl:
                            out.append((s, k_ if len(ts) > 1 else None))
        return out
    n = 0
    for s, _ in stores("extent"):
        n += 1
        v = s.value
        got = [norm(_strip_int(e)) for e in v.elts] \
            if isinstance(v, (ast.List, ast.Tuple)) else None
        if got is None and isinstance(v, ast.Attribute) and \
                v.attr == "offsets":
            got = roles
        if got is None:
            ctx.unknown_site(R, rc, s, "extent is not a literal list of the "
                             "offsets")
            continue
        ctx.check(R, rc, "island extent " + norm(s, 60), got == roles,
                  "the extent of the island row must be (row lo, row hi, "
                  "col lo, col hi) of the island's own cut-out, i.e. %s in "
                  "the order island_data.offsets provides them; got %s" %
                  (roles, got), node=s)
    for s, _ in stores("pixels"):
        n += 1
        fin = [c for c in ast.walk(s.value) if isinstance(c, ast.Call)
               and norm(c.func).split(".")[-1] in ("isfinite", "isnan",
                                                   "count_nonzero")]
        names = {x.id for x in ast.walk(s.value) if isinstance(x, ast.Name)}
        arrays = names & ({cut} | selnames | set(noise) | {"bkg"})
        ok = bool(fin) and arrays and arrays <= selnames
        ctx.check(R, rc, "island pixel count " + norm(s, 70), ok,
                  "the pixel count of the island row must count the finite "
                  "entries of the thresholded island pixels (%s), not of "
                  "%s" % (sorted(selnames), sorted(arrays - selnames) or
                          "nothing"), node=s)
    loops = [l for l in rc.node.body if isinstance(l, ast.For)
             and isinstance(l.target, ast.Name)
             and isinstance(l.iter, ast.Call) and norm(l.iter.func) == "range"
             and "components" in norm(l.iter)]
    for s, _ in stores("components"):
        n += 1
        if not loops:
            raise AnalysisError("C03-R9: component loop not found")
        lv = loops[0].target.id
        bound = norm(_strip_int(loops[0].iter.args[-1]))
        if norm(_strip_int(s.value)) == bound:
            ok = True
        else:
            lf = linear(s.value, lv)
            if lf is None:
                ctx.unknown_site(R, rc, s, "component count of the island "
                                 "row not a linear form of the loop counter")
                continue
            ok = tuple(lf[:2]) == (1, 1)
        ctx.check(R, rc, "island component count " + norm(s, 60), ok,
                  "after the component loop the counter %s holds the LAST "
                  "index; the number of components is %s + 1" % (lv, lv),
                  node=s)
    # widths of the bounding box: x is the first (row) axis of the cut-out
    for attr, ax in (("x_width", 0), ("y_width", 1)):
        for s, k_ in stores(attr):
            n += 1
            v = s.value
            if k_ is not None and isinstance(v, ast.Attribute) and \
                    v.attr == "shape" and norm(v.value) in ({cut} | selnames):
                got = k_
            elif k_ is None and isinstance(v, ast.Subscript) and \
                    isinstance(v.value, ast.Attribute) and \
                    v.value.attr == "shape" and \
                    isinstance(v.slice, ast.Constant):
                got = v.slice.value
            elif k_ is None and isinstance(v, ast.BinOp) and \
                    isinstance(v.op, ast.Sub) and \
                    norm(_strip_int(v.left)) in roles and \
                    norm(_strip_int(v.right)) in roles:
                a_, b_ = (roles.index(norm(_strip_int(v.left))),
                          roles.index(norm(_strip_int(v.right))))
                got = ax if (a_, b_) == (2 * ax + 1, 2 * ax) else 1 - ax
            else:
                ctx.unknown_site(R, rc, s, "width of the island box not "
                                 "read from the cut-out shape")
                continue
            ctx.check(R, rc, "island %s " % attr + norm(s, 60), got == ax,
                      "x_width / y_width are the extents of the island box "
                      "along the first / second axis of the cut-out (the "
                      "same x/y convention as extent and the pixel "
                      "positions); %s is taken from axis %s" % (attr, got),
                      node=s)
    ctx.floor(R, n, 5, "island row fields (extent, pixels, components, "
              "x_width, y_width)")


def r14_flags_reach(ctx, prog):
    """every flag bit raised for a component reaches the flags parameter that
    is stored for it (backward slice from the store, in statement order)"""
    ctx.rule("C03-R14", "flags raised while a component's initial "
             "parameters are built (NOTFIT / FIXED2PSF for summits beyond "
             "max_summits, the island-level flags) reach the c<i>_flags "
             "parameter: the stored value is the variable those bits were "
             "or-ed into, not a copy taken before")
    n = 0
    for q, fi in sorted(prog.functions.items()):
        stores = [c for c in walk_no_nested(fi.node) if isinstance(c, ast.Call)
                  and isinstance(c.func, ast.Attribute)
                  and c.func.attr == "add" and c.args
                  and isinstance(c.args[0], ast.BinOp)
                  and isinstance(c.args[0].right, ast.Constant)
                  and c.args[0].right.value == "flags"]
        if not stores:
            continue
        stmts = sorted((x for x in walk_no_nested(fi.node)
                        if isinstance(x, (ast.Assign, ast.AugAssign))),
                       key=lambda x: -x.lineno)
        loops = [l for l in walk_no_nested(fi.node)
                 if isinstance(l, (ast.For, ast.While))]
        for c in stores:
            v = kwarg(c, "value") or (c.args[1] if len(c.args) > 1 else None)
            if v is None:
                raise AnalysisError("C03-R14: value of the flags parameter")
            n += 1
            dep = set(names_in(v))
            lost = []
            inloop = [l for l in loops if any(x is c for x in ast.walk(l))]
            lo = min((l.lineno for l in inloop), default=fi.node.lineno)
            for st in stmts:
                if st.lineno >= c.lineno:
                    continue
                up = as_update(st)
                tnames = {norm(t) for t in (st.targets if isinstance(
                    st, ast.Assign) else [st.target])}
                raises = up is not None and up[1] is ast.BitOr and \
                    "flags." in up[2]
                if raises and up[0] not in dep:
                    lost.append(st)
                if tnames & dep:
                    dep |= names_in(st.value)
            ctx.check("C03-R14", fi, "flags stored for a component: " +
                      norm(c, 60), not lost,
                      "`%s` raises a flag that never reaches the stored "
                      "value `%s` (a copy taken earlier): the component is "
                      "held fixed / not fitted but its catalogue row carries "
                      "no NOTFIT / FIXED2PSF bit, so its errors are not "
                      "masked to -1" % (norm(lost[0]) if lost else "",
                                        norm(v)), node=c)
    ctx.floor("C03-R14", n, 1, "flags parameters stored")
