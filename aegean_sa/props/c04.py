"""C04 -- model derivatives and per-parameter 1-sigma errors are the true ones."""
from __future__ import annotations

import ast

import sympy as sp

from .. import sym
from ..core import AnalysisError, kwarg, names_in, norm, walk_no_nested

EXPLANATION = (
    "Static analysis of AegeanTools/fitting.py. R1: the body of the analytic "
    "Jacobian (found by role: the function the Dfun wrapper calls) is "
    "value-numbered into sympy expressions, the model is the inlined body of "
    "elliptical_gaussian as called in the same loop, and each appended row is "
    "compared with the symbolic partial derivative of that model with respect "
    "to the parameter guarding the row (theta in degrees) by polynomial/"
    "trigonometric canonical form -- an identity over the reals, no sampling. "
    "R3: the row order (order of the vary-guarded blocks) equals the parameter "
    "order used by the empirical Jacobian, by the stderr assignment loop and "
    "by every model builder's params.add sequence. R4: the index into the "
    "1-sigma vector is initialised outside the component loop and advanced "
    "exactly once with every stderr store. R5: the 1-sigma vector is "
    "sqrt(diag(inv(J^T J))) or sqrt(diag(inv(J^T C^-1 J))) with J from the "
    "same wrapper with the same errs/B. R6: wrapper and residual whiten on "
    "the same side and the Dfun keyword set matches the wrapper signature. "
    "Finite-precision accuracy and lmfit internals are not decided.")
ASSUMPTIONS = [
    "sympy differentiates and normalises rational-trigonometric expressions "
    "correctly",
    "numpy ufuncs mean their mathematical functions (np.radians(x)=x*pi/180)",
    "lmfit orders variable parameters in insertion order",
]

PARAMS = ["amp", "xo", "yo", "sx", "sy", "theta"]


MUTANTS = [
    ("1-sigma index starts at 1", "AegeanTools/fitting.py",
     "    j = 0\n    for i in range(int(params['components'].value)):\n        prefix = \"c{0}_\".format(i)\n        for p in ['amp'",
     "    j = 1\n    for i in range(int(params['components'].value)):\n        prefix = \"c{0}_\".format(i)\n        for p in ['amp'",
     "C04-R4"),
    ("whitening with sqrt(L) instead of 1/sqrt(L)", "AegeanTools/fitting.py",
     "    S = np.diag(1 / np.sqrt(L))", "    S = np.diag(1 * np.sqrt(L))",
     "C04-R13"),
    ("floor divided by the largest eigenvalue", "AegeanTools/fitting.py",
     "    minL = 1e-9*L[-1]", "    minL = 1e-9/L[-1]", "C04-R13"),
    ("correlation matrix with diagonal 2", "AegeanTools/fitting.py",
     "    C = np.vstack([elliptical_gaussian(x, y, 1, i, j, sx, sy, theta)",
     "    C = np.vstack([elliptical_gaussian(x, y, 2, i, j, sx, sy, theta)",
     "C04-R13"),
    ("later components subtracted from the model", "AegeanTools/fitting.py",
     "                result += elliptical_gaussian(x, y, amp, xo, yo, sx, sy, theta)",
     "                result -= elliptical_gaussian(x, y, amp, xo, yo, sx, sy, theta)",
     "C04-R14"),
    ("model evaluated with the axes swapped", "AegeanTools/fitting.py",
     "            sx = params[prefix + 'sx'].value\n            sy = params[prefix + 'sy'].value\n            theta = params[prefix + 'theta'].value\n            if result",
     "            sx = params[prefix + 'sy'].value\n            sy = params[prefix + 'sx'].value\n            theta = params[prefix + 'theta'].value\n            if result",
     "C04-R14"),
    ("eigenvalue floor taken from the smallest eigenvalue",
     "AegeanTools/fitting.py", "    minL = 1e-9*L[-1]", "    minL = 1e-9*L[0]",
     "C04-R13"),
    ("theta derivative zeroed for nearly round components",
     "AegeanTools/fitting.py",
     "            dmdtheta = model * (sy ** 2 - sx ** 2) * \\\n",
     "            ecc = 0 if np.isclose(sx, sy, atol=1e-3) else sy ** 2 - sx ** 2\n"
     "            dmdtheta = model * ecc * \\\n", "C04-R1"),
    ("Fisher matrix over the not-NaN pixels", "AegeanTools/fitting.py",
     "    mask = np.where(np.isfinite(data))\n\n    # calculate the proper",
     "    mask = np.where(~np.isnan(data))\n\n    # calculate the proper",
     "C04-R12"),
    ("errors from the Jacobian on the transposed pixel set",
     "AegeanTools/fitting.py",
     "            J = lmfit_jacobian(params, mask[0], mask[1], errs=errs)",
     "            J = lmfit_jacobian(params, mask[1], mask[0], errs=errs)",
     "C04-R9"),
    ("geometry recomputed only when xo or sx vary", "AegeanTools/fitting.py",
     "        # precompute for speed\n        sint = np.sin(np.radians(theta))\n"
     "        cost = np.cos(np.radians(theta))\n",
     "        # precompute for speed\n"
     "        if pars[prefix + 'xo'].vary or pars[prefix + 'sx'].vary:\n"
     "            sint = np.sin(np.radians(theta))\n"
     "        cost = np.cos(np.radians(theta))\n", "C04-R11"),
    ("amplitude row carries the sign of the amplitude",
     "AegeanTools/fitting.py",
     "            dmds = model / amp\n",
     "            dmds = elliptical_gaussian(x, y, np.sign(amp), xo, yo, sx, "
     "sy, theta)\n", "C04-R1"),
    ("theta row per radian", "AegeanTools/fitting.py",
     "            dmdtheta *= np.pi / 180\n", "", "C04-R1"),
    ("sx row wrong power", "AegeanTools/fitting.py",
     "dmdsx = model / sx ** 3 * (xcos + ysin) ** 2",
     "dmdsx = model / sx ** 2 * (xcos + ysin) ** 2", "C04-R1"),
    ("xo row sign", "AegeanTools/fitting.py",
     "            dmdxo = cost * (xcos + ysin) / sx ** 2 + \\",
     "            dmdxo = cost * (xcos + ysin) / sx ** 2 - \\", "C04-R1"),
    ("amp row not normalised", "AegeanTools/fitting.py",
     "            dmds = model / amp\n", "            dmds = model\n",
     "C04-R1"),
    ("yo/xo rows swapped", "AegeanTools/fitting.py",
     "        if pars[prefix + 'xo'].vary:\n            dmdxo = cost",
     "        if pars[prefix + 'yo'].vary:\n            dmdxo = cost",
     "C04-R"),
    ("stderr order differs", "AegeanTools/fitting.py",
     "    j = 0\n    for i in range(int(params['components'].value)):\n"
     "        prefix = \"c{0}_\".format(i)\n        for p in ['amp', 'xo', "
     "'yo', 'sx', 'sy', 'theta']:",
     "    j = 0\n    for i in range(int(params['components'].value)):\n"
     "        prefix = \"c{0}_\".format(i)\n        for p in ['amp', 'yo', "
     "'xo', 'sx', 'sy', 'theta']:", "C04-R3"),
    ("index reset per component", "AegeanTools/fitting.py",
     "    j = 0\n    for i in range(int(params['components'].value)):\n"
     "        prefix = \"c{0}_\".format(i)\n        for p in",
     "    for i in range(int(params['components'].value)):\n"
     "        prefix = \"c{0}_\".format(i)\n        j = 0\n        for p in",
     "C04-R4"),
    ("skip fixed-amplitude components", "AegeanTools/fitting.py",
     "        prefix = \"c{0}_\".format(i)\n        for p in ['amp', 'xo', "
     "'yo', 'sx', 'sy', 'theta']:\n            if params[prefix + p].vary:\n"
     "                params[prefix + p].stderr = onesigma[j]",
     "        prefix = \"c{0}_\".format(i)\n        if not params[prefix + "
     "'amp'].vary:\n            continue\n        for p in ['amp', 'xo', "
     "'yo', 'sx', 'sy', 'theta']:\n            if params[prefix + p].vary:\n"
     "                params[prefix + p].stderr = onesigma[j]", "C04-R4"),
    ("variance instead of sigma", "AegeanTools/fitting.py",
     "            covar = np.transpose(J).dot(J)\n            onesigma = "
     "np.sqrt(np.diag(inv(covar)))",
     "            covar = np.transpose(J).dot(J)\n            onesigma = "
     "np.diag(inv(covar))", "C04-R5"),
    ("unwhitened Fisher matrix", "AegeanTools/fitting.py",
     "J = lmfit_jacobian(params, mask[0], mask[1], B=B, errs=errs)",
     "J = lmfit_jacobian(params, mask[0], mask[1], errs=errs)", "C04-R5"),
    ("B applied before errs", "AegeanTools/fitting.py",
     "    if errs is not None:\n        matrix /= errs\n        # matrix = "
     "matrix.dot(errs)\n\n    if B is not None:\n        matrix = "
     "matrix.dot(B)\n",
     "    if B is not None:\n        matrix = matrix.dot(B)\n\n    if errs "
     "is not None:\n        matrix /= errs\n", "C04-R6"),
    ("peak-flux error taken from the width", "AegeanTools/fitting.py",
     "    err_amp = model[prefix + 'amp'].stderr",
     "    err_amp = model[prefix + 'sx'].stderr", "C04-R8"),
    ("minor-axis error from the major-axis stderr", "AegeanTools/fitting.py",
     "             yo + (sy + err_sy) * np.sin(np.radians(theta + 90))])",
     "             yo + (sy + err_sx) * np.sin(np.radians(theta + 90))])", "C04-R8"),
    ("correlation matrix built with the axes swapped", "AegeanTools/fitting.py",
     "    C = np.vstack([elliptical_gaussian(x, y, 1, i, j, sx, sy, theta)",
     "    C = np.vstack([elliptical_gaussian(x, y, 1, j, i, sx, sy, theta)", "C04-R9"),
    ("noise level from the whole map (seed C04d)", "AegeanTools/source_finder.py",
     "            errs = np.nanmax(rms)\n", "            errs = np.nanmax(rmsimg)\n", "C04-R10"),
]
TWINS = [
    ("theta factor via radians", "AegeanTools/fitting.py",
     "            dmdtheta *= np.pi / 180\n",
     "            dmdtheta = dmdtheta * np.radians(1)\n"),
    ("sx row rewritten", "AegeanTools/fitting.py",
     "dmdsx = model / sx ** 3 * (xcos + ysin) ** 2",
     "dmdsx = model * ((xcos + ysin) / sx) ** 2 / sx"),
]



def suffix_of(node):
    """<x>[prefix + 'name']  -> 'name'"""
    if isinstance(node, ast.Subscript):
        sl = node.slice
        if isinstance(sl, ast.BinOp) and isinstance(sl.op, ast.Add) and \
                isinstance(sl.right, ast.Constant) and \
                isinstance(sl.right.value, str):
            return sl.right.value
        if isinstance(sl, ast.Constant) and isinstance(sl.value, str):
            return sl.value
    return None


def vary_param(test):
    """`pars[prefix + 'amp'].vary` -> 'amp'"""
    if isinstance(test, ast.Attribute) and test.attr == "vary":
        return suffix_of(test.value)
    return None


def find_roles(prog):
    fit = prog.module("fitting")
    # the callable passed as Dfun= to lmfit.minimize
    wrapper = None
    dfun_call = None
    for q, fi in prog.functions.items():
        if fi.module != fit.name:
            continue
        for c in walk_no_nested(fi.node):
            if isinstance(c, ast.Call):
                d = kwarg(c, "Dfun")
                if d is not None:
                    t = prog.resolve_name(fit, norm(d))
                    if t in prog.functions:
                        wrapper = prog.functions[t]
                        dfun_call = (fi, c)
        # Dfun handed over in a **kwargs dict: {'Dfun': f} ... minimize(**d)
        if wrapper is None:
            for x in walk_no_nested(fi.node):
                if isinstance(x, ast.Dict):
                    for k_, v_ in zip(x.keys, x.values):
                        if isinstance(k_, ast.Constant) and \
                                k_.value == "Dfun":
                            t = prog.resolve_name(fit, norm(v_))
                            mins = [c for c in walk_no_nested(fi.node)
                                    if isinstance(c, ast.Call) and
                                    norm(c.func).endswith("minimize")]
                            if t in prog.functions and mins:
                                wrapper = prog.functions[t]
                                dfun_call = (fi, mins[0])
    if wrapper is None:
        raise AnalysisError("C04: no call passes Dfun= a repo function "
                            "(anchor vanished)")
    # analytic jacobian: callee of the wrapper on the non-empirical branch
    cands = []
    for c in walk_no_nested(wrapper.node):
        # called directly or selected as a function value
        if isinstance(c, ast.Name) and isinstance(c.ctx, ast.Load) and \
                c.id not in wrapper.params:
            t = prog.resolve_name(fit, c.id)
            if t in prog.functions and t != wrapper.qualname and \
                    prog.functions[t] not in cands:
                cands.append(prog.functions[t])
    analytic = [f for f in cands if any(
        isinstance(n, ast.If) and vary_param(n.test)
        for n in walk_no_nested(f.node))]
    if len(analytic) != 1:
        raise AnalysisError("C04: cannot identify the analytic Jacobian among "
                            "%s" % [f.short for f in cands])
    return fit, wrapper, analytic[0], dfun_call


def r13_whitening(ctx, prog, rule="C04-R13"):
    """the whitening matrix B = Q diag(1/sqrt(L)): eigenvalues come from
    eigh (ASCENDING order, so L[-1] is the largest), and the floor that
    replaces tiny / negative eigenvalues is relative to the LARGEST one"""
    from ..core import expand_locals
    ctx.rule(rule, "whitening matrix (fitting.Bmatrix): the eigenvalues of "
             "the pixel covariance come from eigh (ascending), every "
             "eigenvalue below a floor is raised to it before 1/sqrt, and "
             "the floor is a small positive fraction of the LARGEST "
             "eigenvalue (L[-1] / max(L)) -- a floor taken from the smallest "
             "one clips nothing when that is tiny and is NaN-producing when "
             "it is negative (finely sampled beams)")
    fi = prog.func("fitting.Bmatrix")
    mod = prog.modules[fi.module]
    eig = [st for st in walk_no_nested(fi.node) if isinstance(st, ast.Assign)
           and isinstance(st.value, ast.Call) and
           (prog.dotted(mod, st.value.func) if isinstance(
               st.value.func, ast.Attribute) else
            prog.resolve_name(mod, norm(st.value.func))) in (
               "scipy.linalg.eigh", "numpy.linalg.eigh",
               "scipy.linalg.decomp.eigh", "scipy.linalg._decomp.eigh")]
    if len(eig) != 1 or not isinstance(eig[0].targets[0], ast.Tuple):
        raise AnalysisError("%s: `L, Q = eigh(C)` not found in Bmatrix" %
                            rule)
    Ln = norm(eig[0].targets[0].elts[0])
    clips = [st for st in walk_no_nested(fi.node)
             if isinstance(st, ast.Assign) and
             isinstance(st.targets[0], ast.Subscript) and
             norm(st.targets[0].value) == Ln and
             isinstance(st.targets[0].slice, ast.Compare)]
    ctx.check(rule, fi, "eigenvalues below the floor are raised to it",
              len(clips) == 1 and isinstance(clips[0].targets[0].slice.ops[0],
                                             (ast.Lt, ast.LtE)) and
              norm(clips[0].targets[0].slice.left) == Ln and
              norm(clips[0].targets[0].slice.comparators[0]) ==
              norm(clips[0].value),
              "expected one statement L[L < floor] = floor", node=fi.node)
    if len(clips) != 1:
        return
    floor = expand_locals(fi.node, clips[0].value)
    largest = [x for x in ast.walk(floor) if
               isinstance(x, ast.Subscript) and norm(x.value) == Ln and
               norm(x.slice).replace(" ", "") == "-1" or
               isinstance(x, ast.Call) and
               norm(x.func).split(".")[-1] in ("max", "amax", "nanmax") and
               (x.args and norm(x.args[0]) == Ln or
                isinstance(x.func, ast.Attribute) and
                norm(x.func.value) == Ln)]
    others = [x for x in ast.walk(floor) if isinstance(x, ast.Subscript) and
              norm(x.value) == Ln and
              norm(x.slice).replace(" ", "") != "-1" or
              isinstance(x, ast.Call) and
              norm(x.func).split(".")[-1] in ("min", "amin", "nanmin",
                                              "mean", "median")]
    ctx.check(rule, fi, "floor %s relative to the largest eigenvalue" %
              norm(floor, 50), bool(largest) and not others,
              "eigh returns the eigenvalues in ascending order: the floor "
              "%s is not a fraction of the largest eigenvalue (%s[-1]); "
              "taken from the smallest one it clips nothing (rounding noise "
              "of the image is amplified by 1/sqrt of a tiny eigenvalue) or "
              "is negative (sqrt gives NaN and the fit aborts)" %
              (norm(floor, 50), Ln), node=clips[0])
    # the clip comes before the eigenvalues are inverted
    inv = [st for st in walk_no_nested(fi.node)
           if isinstance(st, (ast.Assign, ast.Return, ast.AugAssign,
                              ast.Expr)) and st.value is not None
           and any(isinstance(c, ast.Call) and
                   norm(c.func).split(".")[-1] == "sqrt" and
                   Ln in names_in(c) for c in ast.walk(st.value))]
    ctx.check(rule, fi, "clip before 1/sqrt(L)", bool(inv) and all(
        st.lineno > clips[0].lineno for st in inv),
        "the eigenvalues are inverted before they are clipped",
        node=inv[0] if inv else fi.node)
    # the floor is a FIXED small fraction of the largest eigenvalue, and the
    # diagonal factor is 1/sqrt(L): both expressions are evaluated on samples
    from .. import concrete
    try:
        ratios = []
        for lmax in (10.0, 1000.0):
            v = concrete.ev(floor, {Ln: [lmax * 1e-12, lmax * 0.5, lmax]})
            ratios.append(v / lmax if isinstance(v, (int, float)) else None)
        okf = None not in ratios and 0 < ratios[0] <= 1e-3 and \
            abs(ratios[0] - ratios[1]) <= 1e-9 * abs(ratios[0])
        ctx.check(rule, fi, "floor %s is a small fixed fraction of the "
                  "largest eigenvalue" % norm(floor, 40), okf,
                  "for largest eigenvalues 10 and 1000 the floor is %s times "
                  "the largest eigenvalue: it must be the same small positive "
                  "fraction for every scale of the covariance matrix" %
                  ratios, node=clips[0])
    except concrete.Unknown as e:
        ctx.unknown_site(rule, fi, "floor %s not evaluated (%s)" %
                         (norm(floor, 40), e), node=clips[0])
    par = {}
    for x in ast.walk(fi.node):
        for ch in ast.iter_child_nodes(x):
            par[ch] = x
    for st in inv:
        for c in ast.walk(st.value):
            if isinstance(c, ast.Call) and \
                    norm(c.func).split(".")[-1] == "sqrt" and \
                    Ln in names_in(c):
                top = c
                while isinstance(par.get(top), (ast.BinOp, ast.UnaryOp)):
                    top = par[top]
                try:
                    v = concrete.ev(top, {Ln: 4.0})
                except concrete.Unknown as e:
                    ctx.unknown_site(rule, fi, "%s not evaluated (%s)" %
                                     (norm(top, 40), e), node=st)
                    continue
                ctx.check(rule, fi, "diagonal factor %s is 1/sqrt(L)" %
                          norm(top, 40), isinstance(v, (int, float)) and
                          abs(v - 0.5) < 1e-12,
                          "for an eigenvalue of 4 the factor is %s, not 0.5: "
                          "B.B' is no longer the inverse of the covariance "
                          "matrix, so residuals and Jacobian are not "
                          "whitened and the Fisher matrix is wrong" % (v,),
                          node=st)
    # the matrix that is decomposed is a CORRELATION matrix: unit diagonal
    cm = prog.functions.get("fitting.Cmatrix") or next(
        (f for q, f in prog.functions.items() if q.endswith("fitting.Cmatrix")),
        None)
    if cm is not None:
        eg = prog.func("fitting.elliptical_gaussian")
        k = list(eg.params).index("amp") if "amp" in eg.params else None
        cc = [c for c in ast.walk(cm.node) if isinstance(c, ast.Call) and
              norm(c.func).split(".")[-1] == "elliptical_gaussian"]
        if k is None or not cc:
            ctx.unknown_site(rule, cm, "Cmatrix does not call "
                             "elliptical_gaussian", node=cm.node)
        for c in cc if k is not None else []:
            a = c.args[k] if len(c.args) > k else next(
                (kw.value for kw in c.keywords if kw.arg == "amp"), None)
            ctx.check(rule, cm, "unit diagonal: amplitude of " + norm(c, 50),
                      isinstance(a, ast.Constant) and a.value == 1,
                      "the pixel correlation matrix is built with amplitude "
                      "%s: its diagonal is not 1, so the whitened residuals "
                      "and every uncertainty are rescaled" %
                      (norm(a) if a is not None else "?"), node=c)


def r12_pixel_set(ctx, prog, rule="C04-R12"):
    """fit, covariance matrix and Fisher matrix are built over ONE pixel set:
    every pixel selection (numpy.where / nonzero / count_nonzero of a
    validity predicate) in the fit-and-error path is numpy.isfinite(<pixels>)
    itself.  `~isnan` also selects +-inf pixels that the fit left out: the
    Jacobian then has more rows than the covariance matrix (every error
    becomes -1) or, without the matrix, pixels that carried no information
    shrink every 1-sigma error."""
    ctx.rule(rule, "one pixel set for fit, covariance and Fisher matrix: "
             "each pixel selection in do_lmfit / covar_errors / the island "
             "fitters is numpy.isfinite(<pixels>) (sibling agreement; "
             "~isnan, isinf or x == x select a different set when the island "
             "holds an infinite pixel)")
    from .c08 import _resolve_local
    scope = [f for f in ("fitting.do_lmfit", "fitting.covar_errors",
                         "fitting.RB_bias", "fitting.bias_correct",
                         "source_finder.SourceFinder._fit_island",
                         "source_finder.SourceFinder._refit_islands")
             if prog.has_func(f)]
    n = 0
    for short in scope:
        fi = prog.func(short)
        mod = prog.modules[fi.module]
        for c in walk_no_nested(fi.node):
            if not (isinstance(c, ast.Call) and len(c.args) == 1 and
                    not c.keywords):
                continue
            d = prog.dotted(mod, c.func)
            if d not in ("numpy.where", "numpy.nonzero", "numpy.argwhere",
                         "numpy.flatnonzero"):
                continue
            pred = _resolve_local(fi.node, c.args[0])
            preds = {prog.dotted(mod, x.func) for x in ast.walk(pred)
                     if isinstance(x, ast.Call)}
            valid = preds & {"numpy.isfinite", "numpy.isnan", "numpy.isinf"}
            selfcmp = any(isinstance(x, ast.Compare) and len(x.ops) == 1 and
                          isinstance(x.ops[0], (ast.Eq, ast.NotEq)) and
                          norm(x.left) == norm(x.comparators[0])
                          for x in ast.walk(pred))
            if not valid and not selfcmp:
                continue
            n += 1
            ok = isinstance(pred, ast.Call) and \
                prog.dotted(mod, pred.func) == "numpy.isfinite" and \
                not selfcmp
            ctx.check(rule, fi, "pixel selection " + norm(c, 70), ok,
                      "the pixels selected here are not the finite ones "
                      "(%s): with an infinite pixel in the island this is a "
                      "different set from the one the fit / the covariance "
                      "matrix were built on" % norm(pred, 60), node=c)
    ctx.floor(rule, n, 4, "pixel selections in the fit-and-error path")


def run(ctx):
    prog = ctx.prog
    fit, wrapper, jac, dfun_call = find_roles(prog)
    ctx.note("roles: Dfun wrapper=%s analytic jacobian=%s" %
             (wrapper.short, jac.short))
    r11_no_carried_state(ctx, prog, jac)
    r1(ctx, prog, fit, jac)
    r3(ctx, prog, fit, jac)
    r4_r5(ctx, prog, fit, wrapper)
    r6(ctx, prog, fit, wrapper, dfun_call)
    r8_pairing(ctx, prog)
    r10_noise(ctx, prog)
    r12_pixel_set(ctx, prog)
    r13_whitening(ctx, prog)
    r14_model(ctx, prog)
    ctx.rule("C04-R9", "noise / covariance model: the correlation matrix is "
             "built from the model function with the pixel positions on the "
             "right axes, the two widths in (first, second) axis order and "
             "the angle itself (contract sites of fitting.Cmatrix and of the "
             "model function in fitting.py)")
    from .. import unitrules
    unitrules.apply(ctx, "C04-R9",
                    lambda sh: sh.startswith("fitting."),
                    kinds={"call", "sink"}, report_rules=set(),
                    what="contract sites in fitting.py", floor=2)
    from .. import precision
    precision.rule(
        ctx, prog, "C04-R7",
        ["fitting.elliptical_gaussian", "fitting.jacobian",
         "fitting.emp_jacobian", "fitting.lmfit_jacobian", "fitting.hessian",
         "fitting.emp_hessian", "fitting.Cmatrix", "fitting.Bmatrix",
         "fitting.covar_errors", "fitting.do_lmfit", "fitting.ntwodgaussian_lmfit",
         "fitting.errors", "fitting.new_errors"],
        "precision: model, derivatives, covariance and errors are computed "
        "in double precision (no float32 / float16 cast): the inverse of an "
        "ill-conditioned Fisher matrix is meaningless in single precision",
        "a dtype narrower than float64 is used", floor=8)


# --------------------------------------------------------------------------
def r14_model(ctx, prog, rule="C04-R14"):
    """the model the optimiser evaluates is the model the derivatives belong
    to"""
    from ..core import expand_locals
    ctx.rule(rule, "the model function built from the parameter set is the "
             "SUM over the components of elliptical_gaussian, each call "
             "receiving that component's own parameters in the positions of "
             "the same name (amp, xo, yo, sx, sy, theta): the analytic "
             "Jacobian differentiates exactly this sum, so a component that "
             "is subtracted, or a parameter bound to another slot, makes "
             "every derivative row of that component wrong")
    raw = ctx.raw_prog()
    fn = raw.func("fitting.ntwodgaussian_lmfit")
    callee = raw.func("fitting.elliptical_gaussian")
    cps = list(callee.params)
    parent = {}
    for x in ast.walk(fn.node):
        for ch in ast.iter_child_nodes(x):
            parent[ch] = x
    calls = [c for c in ast.walk(fn.node) if isinstance(c, ast.Call) and
             norm(c.func).split(".")[-1] == "elliptical_gaussian"]
    ctx.floor(rule, len(calls), 1, "model calls in ntwodgaussian_lmfit")
    for c in calls:
        scope = c
        while scope in parent and not isinstance(scope, ast.FunctionDef):
            scope = parent[scope]
        bound = [(cps[i], a) for i, a in enumerate(c.args) if i < len(cps)]
        bound += [(k.arg, k.value) for k in c.keywords if k.arg]
        wrong = []
        unres = []
        for pname, a in bound:
            if pname in cps[:2]:
                continue
            e = expand_locals(scope, a, 4)
            keys = [x.value for x in ast.walk(e)
                    if isinstance(x, ast.Constant) and isinstance(x.value, str)
                    and x.value.strip("_") in cps]
            if len(keys) != 1:
                unres.append((pname, norm(a, 40)))
            elif keys[0].strip("_") != pname:
                wrong.append((pname, keys[0]))
        if unres:
            ctx.unknown_site(rule, fn, "parameter look-up behind %s not "
                             "resolved" % unres, node=c)
        else:
            ctx.check(rule, fn, "component parameters go to the slots of "
                      "their name: " + norm(c, 60), not wrong,
                      "the model is evaluated with %s" % ", ".join(
                          "`%s` in the position of `%s`" % (k, p_)
                          for p_, k in wrong), node=c)
        # how the component enters the model
        st = c
        while st in parent and not isinstance(st, ast.stmt):
            st = parent[st]
        op = None
        if isinstance(st, ast.AugAssign) and st.value is c:
            op = st.op
        elif isinstance(st, ast.Assign) and st.value is c:
            op = ast.Add()            # first component
        elif isinstance(st, ast.Assign) and isinstance(st.value, ast.BinOp) \
                and c in (st.value.left, st.value.right):
            op = st.value.op
            if isinstance(op, ast.Sub) and st.value.left is c:
                op = None
        elif any(isinstance(p_, ast.Call) and
                 norm(p_.func).split(".")[-1] in ("sum", "append", "add")
                 for p_ in _ancestors(parent, c)):
            op = ast.Add()
        if op is None:
            ctx.unknown_site(rule, fn, "accumulation of the component not "
                             "recognised: " + norm(st, 60), node=st)
            continue
        ctx.check(rule, fn, "components are summed: " + norm(st, 60),
                  isinstance(op, ast.Add),
                  "the component enters the model through `%s`: the model is "
                  "no longer the sum of its components, and the Jacobian "
                  "rows of this component have the wrong sign / form" %
                  type(op).__name__, node=st)


def _ancestors(parent, n):
    while n in parent:
        n = parent[n]
        yield n


def r1(ctx, prog, fit, jac):
    ctx.rule("C04-R1", "each row appended by the analytic Jacobian is "
             "identically d(model)/d(parameter), the model being "
             "elliptical_gaussian as called in the same loop body and theta "
             "being in degrees")
    loop = None
    for n in jac.node.body:
        if isinstance(n, ast.For):
            loop = n
    if loop is None:
        raise AnalysisError("C04-R1: component loop not found in %s" %
                            jac.short)
    S = {p: sp.Symbol(p, real=True) for p in PARAMS}
    S["amp"] = sp.Symbol("amp", real=True, nonzero=True)
    S["sx"] = sp.Symbol("sx", positive=True)
    S["sy"] = sp.Symbol("sy", positive=True)
    x, y = sp.Symbol("x", real=True), sp.Symbol("y", real=True)
    env = {}
    # positional parameters of the jacobian after the parameter object are
    # the coordinates
    coords = jac.params[1:3]
    if len(coords) != 2:
        raise AnalysisError("C04-R1: unexpected signature of %s" % jac.short)
    env[coords[0]], env[coords[1]] = x, y
    tr = sym.Translator(prog, fit, env)
    rows = []
    model_name = None
    appended_to = None
    for s in loop.body:
        if isinstance(s, ast.Expr):
            continue
        if isinstance(s, ast.Assign) and len(s.targets) == 1 and \
                isinstance(s.value, ast.Attribute) and \
                s.value.attr == "value" and suffix_of(s.value.value):
            sfx = suffix_of(s.value.value)
            if sfx not in S:
                raise AnalysisError("C04-R1: unknown parameter suffix %r" %
                                    sfx)
            tr.env[norm(s.targets[0])] = S[sfx]
            continue
        if isinstance(s, ast.Assign) and \
                isinstance(s.targets[0], ast.Tuple) and \
                isinstance(s.value, (ast.Call, ast.GeneratorExp,
                                     ast.ListComp)):
            # amp, xo, ... = tuple(pars[prefix + n].value for n in (...))
            # written in place (or left there by the helper inliner)
            rv = s.value
            if isinstance(rv, ast.Call) and norm(rv.func) in (
                    "tuple", "list") and len(rv.args) == 1:
                rv = rv.args[0]
            if isinstance(rv, (ast.GeneratorExp, ast.ListComp)) and \
                    len(rv.generators) == 1 and \
                    not rv.generators[0].ifs and \
                    isinstance(rv.generators[0].iter, (ast.Tuple,
                                                       ast.List)) and \
                    isinstance(rv.elt, ast.Attribute) and \
                    rv.elt.attr == "value" and \
                    isinstance(rv.elt.value, ast.Subscript) and \
                    norm(rv.generators[0].target) in names_in(
                        rv.elt.value.slice):
                sf = [e.value for e in rv.generators[0].iter.elts
                      if isinstance(e, ast.Constant)]
                if len(sf) == len(s.targets[0].elts) and \
                        all(x_ in S for x_ in sf):
                    for t_, x_ in zip(s.targets[0].elts, sf):
                        tr.env[norm(t_)] = S[x_]
                    continue
        if isinstance(s, ast.Assign) and \
                isinstance(s.targets[0], ast.Tuple) and \
                isinstance(s.value, ast.Call) and \
                prog.resolve_name(fit, norm(s.value.func)) in prog.functions:
            # amp, xo, ... = helper(pars, prefix) returning the .value's
            h = prog.functions[prog.resolve_name(fit, norm(s.value.func))]
            rets = [r for r in walk_no_nested(h.node)
                    if isinstance(r, ast.Return)]
            # tuple(pars[prefix + name].value for name in ('amp', 'xo', ..))
            if len(rets) == 1:
                rv = rets[0].value
                if isinstance(rv, ast.Call) and norm(rv.func) in (
                        "tuple", "list") and len(rv.args) == 1:
                    rv = rv.args[0]
                if isinstance(rv, (ast.GeneratorExp, ast.ListComp)) and \
                        len(rv.generators) == 1 and \
                        not rv.generators[0].ifs and \
                        isinstance(rv.generators[0].iter, (ast.Tuple,
                                                           ast.List)) and \
                        isinstance(rv.elt, ast.Attribute) and \
                        rv.elt.attr == "value" and \
                        isinstance(rv.elt.value, ast.Subscript) and \
                        norm(rv.generators[0].target) in names_in(
                            rv.elt.value.slice):
                    sf = [e.value for e in rv.generators[0].iter.elts
                          if isinstance(e, ast.Constant)]
                    if len(sf) == len(s.targets[0].elts) and \
                            all(x in S for x in sf):
                        for t_, x in zip(s.targets[0].elts, sf):
                            tr.env[norm(t_)] = S[x]
                        continue
            if len(rets) == 1 and isinstance(rets[0].value, ast.Tuple) and \
                    len(rets[0].value.elts) == len(s.targets[0].elts):
                def sfx_of(e):
                    if isinstance(e, ast.Name):
                        d = [a for a in walk_no_nested(h.node)
                             if isinstance(a, ast.Assign) and
                             norm(a.targets[0]) == e.id]
                        e = d[0].value if len(d) == 1 else e
                    if isinstance(e, ast.Attribute) and e.attr == "value":
                        return suffix_of(e.value)
                    return None
                sf = [sfx_of(e) for e in rets[0].value.elts]
                if all(x in S for x in sf):
                    for t_, x in zip(s.targets[0].elts, sf):
                        tr.env[norm(t_)] = S[x]
                    continue
        if isinstance(s, ast.Assign) and isinstance(s.value, ast.BinOp) and \
                isinstance(s.value.left, ast.Constant) and \
                isinstance(s.value.left.value, str):
            continue                 # prefix = "c{0}_".format(i)
        if isinstance(s, ast.Assign) and isinstance(s.value, ast.Call) and \
                norm(s.value.func).endswith(".format"):
            continue
        if isinstance(s, ast.If) and vary_param(s.test):
            p = vary_param(s.test)
            sub = sym.Translator(prog, fit, dict(tr.env))
            sub.ifexp_guards = True
            try:
                for st in s.body:
                    if isinstance(st, ast.Expr) and \
                            isinstance(st.value, ast.Call) and \
                            isinstance(st.value.func, ast.Attribute) and \
                            st.value.func.attr == "append":
                        rows.append((p, sub.expr(st.value.args[0]), st))
                        appended_to = norm(st.value.func.value)
                    else:
                        sub.exec([st])
            except sym.Untranslatable as e:
                raise AnalysisError("C04-R1: cannot translate row %s: %s" %
                                    (p, e))
            continue
        try:
            if isinstance(s, ast.Assign) and isinstance(s.value, ast.Call) \
                    and prog.resolve_name(fit, norm(s.value.func)) == \
                    fit.name + ".elliptical_gaussian":
                model_name = norm(s.targets[0])
            tr.exec([s])
        except sym.Untranslatable as e:
            raise AnalysisError("C04-R1: cannot translate %s: %s" %
                                (norm(s), e))
    if model_name is None or model_name not in tr.env:
        raise AnalysisError("C04-R1: the model call to elliptical_gaussian "
                            "was not found in the Jacobian loop")
    model = tr.env[model_name]
    ctx.floor("C04-R1", len(rows), 6, "vary-guarded rows appended by the "
              "analytic Jacobian")
    for p, row, st in rows:
        ref = sp.diff(model, S[p])
        ok = sym.is_zero(row - ref)
        facts = {"parameter": p}
        msg = ""
        if not ok:
            k = sym.ratio_const(row, ref)
            facts["row_over_true_derivative"] = str(k) if k is not None \
                else "not a constant multiple"
            msg = ("row for '%s' is not d(model)/d(%s)" % (p, p)) + (
                ": it equals %s times the true derivative%s" %
                (k, " (the derivative per radian handed to a parameter in "
                 "degrees)" if k is not None and sp.simplify(k - 180 / sp.pi)
                 == 0 else "") if k is not None else "")
        ctx.check("C04-R1", jac, "row d/d%s: %s" % (p, norm(st, 80)), ok, msg,
                  facts, st)


# --------------------------------------------------------------------------
def order_lists(prog, fit):
    """[(fi, node, [names])] for `for p in ['amp', ...]` loops"""
    out = []
    for q, fi in prog.functions.items():
        if fi.module != fit.name:
            continue
        for n in walk_no_nested(fi.node):
            if isinstance(n, ast.For) and isinstance(n.iter, (ast.List,
                                                               ast.Tuple)):
                vals = [e.value for e in n.iter.elts
                        if isinstance(e, ast.Constant)]
                if len(vals) == len(n.iter.elts) and set(vals) <= set(PARAMS) \
                        and len(vals) >= 3:
                    out.append((fi, n, vals))
    return out


def add_sequences(prog):
    """per model builder: order of suffixes passed to params.add(prefix+S)"""
    out = []
    for q, fi in prog.functions.items():
        seq = []
        for n in walk_no_nested(fi.node):
            if isinstance(n, ast.Call) and isinstance(n.func, ast.Attribute) \
                    and n.func.attr == "add" and n.args:
                a = n.args[0]
                if isinstance(a, ast.BinOp) and isinstance(a.op, ast.Add) and \
                        isinstance(a.right, ast.Constant) and \
                        a.right.value in PARAMS:
                    seq.append((n.lineno, a.right.value))
        if seq:
            seq.sort()
            out.append((fi, [s for _, s in seq]))
    return out


def r3(ctx, prog, fit, jac):
    ctx.rule("C04-R3", "row order of the analytic Jacobian == order of the "
             "empirical Jacobian / stderr loops == order in which every "
             "model builder adds the parameters (lmfit's variable order)")
    order = [vary_param(n.test) for n in walk_no_nested(jac.node)
             if isinstance(n, ast.If) and vary_param(n.test)]
    order.sort(key=lambda p: [n.lineno for n in walk_no_nested(jac.node)
                              if isinstance(n, ast.If) and
                              vary_param(n.test) == p][0])
    ctx.check("C04-R3", jac, "row order %s" % order, order == PARAMS,
              "the documented order is %s" % PARAMS, node=jac.node)
    lists = order_lists(prog, fit)
    for fi, n, vals in lists:
        if len(vals) == len(PARAMS):
            ctx.check("C04-R3", fi, "parameter order list %s" % vals,
                      vals == order, "this loop walks the parameters in a "
                      "different order than the Jacobian rows %s" % order,
                      node=n)
    seqs = add_sequences(prog)
    ctx.floor("C04-R3", len(seqs), 3, "model builders (params.add "
              "sequences)")
    for fi, seq in seqs:
        # one component's worth
        comp = seq[:len(PARAMS)]
        ctx.check("C04-R3", fi, "params.add order %s" % comp, comp == order,
                  "lmfit orders variables as added; the Jacobian rows are in "
                  "order %s" % order, node=fi.node)


# --------------------------------------------------------------------------
def r4_r5(ctx, prog, fit, wrapper, r4="C04-R4", r5="C04-R5"):
    ctx.rule(r4, "the index into the 1-sigma vector is initialised "
             "outside the component loop and incremented exactly once "
             "together with each stderr store")
    ctx.rule(r5, "onesigma == sqrt(diag(inv(M))) with M = J^T J or "
             "J^T inv(C) J and J from the Dfun wrapper with the same errs "
             "(and B when C is not used)")
    # role: function storing `.stderr = <vec>[idx]`
    target = None
    for q, fi in prog.functions.items():
        if fi.module != fit.name:
            continue
        for s in walk_no_nested(fi.node):
            if isinstance(s, ast.Assign) and \
                    isinstance(s.targets[0], ast.Attribute) and \
                    s.targets[0].attr == "stderr" and \
                    isinstance(s.value, ast.Subscript) and \
                    isinstance(s.value.value, ast.Name):
                target = (fi, s)
    if target is None:
        raise AnalysisError("C04-R4: no `.stderr = vec[idx]` store found")
    fi, store = target
    vec = store.value.value.id
    idx = store.value.slice
    if not isinstance(idx, ast.Name):
        raise AnalysisError("C04-R4: index expression %s not recognised" %
                            norm(idx))
    pm = {}
    for x in ast.walk(fi.node):
        for c in ast.iter_child_nodes(x):
            pm[c] = x

    def loops_of(n):
        out = []
        while n in pm:
            n = pm[n]
            if isinstance(n, (ast.For, ast.While)):
                out.append(n)
        return out
    use_loops = loops_of(store)
    if not use_loops:
        raise AnalysisError("C04-R4: stderr store is not inside a loop")
    comp_loop = use_loops[-1]         # outermost
    from ..core import as_update

    def is_inc(s_):
        u = as_update(s_) if isinstance(s_, (ast.Assign, ast.AugAssign)) \
            else None
        return u is not None and u[0] == idx.id
    inits = [s for s in walk_no_nested(fi.node) if isinstance(s, ast.Assign)
             and any(isinstance(t, ast.Name) and t.id == idx.id
                     for t in s.targets) and not is_inc(s)]
    enum_loops = [l for l in use_loops if isinstance(l, ast.For) and
                  idx.id in names_in(l.target)]
    if enum_loops:
        # flat enumeration idiom: idx is a loop target of a single loop that
        # enumerates all varying parameters
        ok = len(use_loops) == 1
        ctx.check(r4, fi, "index %s of %s" % (idx.id, norm(store)), ok,
                  "the index restarts in an inner loop", node=store)
    else:
        if not inits:
            raise AnalysisError("C04-R4: no initialisation of %s" % idx.id)
        for ini in inits:
            inside = comp_loop in loops_of(ini)
            ctx.check(r4, fi, "initialisation `%s` of the 1-sigma "
                      "index" % norm(ini), not inside,
                      "the index is reset for every component (it is "
                      "initialised inside `%s`): every component receives "
                      "the first component's uncertainties" %
                      norm(comp_loop), node=ini)
            if not inside:
                ctx.check(r4, fi, "the 1-sigma index starts at 0: " +
                          norm(ini), isinstance(ini.value, ast.Constant) and
                          ini.value.value == 0 and
                          not isinstance(ini.value.value, bool),
                          "the first free parameter has row 0 of the "
                          "Jacobian; starting the index at %s hands every "
                          "parameter the uncertainty of a later one" %
                          norm(ini.value), node=ini)
        # paired increment
        blk = pm[store]
        body = getattr(blk, "body", [])
        incs = [s for s in body if isinstance(s, (ast.Assign, ast.AugAssign))
                and as_update(s) == (idx.id, ast.Add, "1")]
        all_incs = [s for s in walk_no_nested(fi.node) if is_inc(s)]
        ctx.check(r4, fi, "increment paired with " + norm(store),
                  len(incs) == 1 and len(all_incs) == 1 and store in body,
                  "the index must advance by one exactly where a stderr is "
                  "stored (found %d increments in that block, %d overall)" %
                  (len(incs), len(all_incs)), node=store)
        # every iteration of the component loop must walk all parameters:
        # no path from the component-loop head back to itself (or out of the
        # loop) that bypasses the parameter loop
        from ..cfg import CFG, EXIT
        g = CFG(fi.node)
        ch = g.nodes_for_stmt(comp_loop)
        inner = [l for l in use_loops if l is not comp_loop]
        ih = [n for l in inner for n in g.nodes_for_stmt(l)]
        if ch and ih:
            p = g.path_avoiding(ch[0], ch[0], ih, first_label="T")
            ctx.check(r4, fi, "every component iteration enumerates "
                      "all parameters", p is None,
                      "a path through the component loop skips the parameter "
                      "loop (e.g. an early `continue`): the skipped "
                      "component's free parameters keep stale errors and "
                      "every later component is assigned another "
                      "component's uncertainties", node=comp_loop,
                      path=g.describe(p) if p else None)
            # inside the parameter loop: whenever the vary guard holds the
            # store is executed (no continue/break between guard and store)
            sn = g.nodes_for_stmt(store)
            gd = pm[store]
            gn = g.nodes_for_stmt(gd) if isinstance(gd, ast.If) else []
            if sn and gn:
                q = g.path_avoiding(gn[0], ih[0], sn, first_label="T")
                ctx.check(r4, fi, "vary guard always reaches the "
                          "store", q is None, "a path from the `.vary` "
                          "guard skips the stderr store", node=gd,
                          path=g.describe(q) if q else None)
        guard = pm[store]
        ctx.check(r4, fi, "stderr store guarded by .vary",
                  isinstance(guard, ast.If) and vary_param(guard.test)
                  is not None or
                  (isinstance(guard, ast.If) and "vary" in norm(guard.test)),
                  "only varying parameters have a row in the Jacobian; the "
                  "store must be guarded by the parameter's .vary",
                  node=store)
    # ---- R5 ------------------------------------------------------------
    defs = [s for s in walk_no_nested(fi.node) if isinstance(s, ast.Assign)
            and any(isinstance(t, ast.Name) and t.id == vec
                    for t in s.targets)]
    ctx.floor(r5, len(defs), 2, "definitions of the 1-sigma vector")
    for d in defs:
        v = d.value
        txt = norm(v).replace(" ", "")
        if isinstance(v, ast.BinOp) and isinstance(v.left, ast.List):
            # the except-branch placeholder (value domain is C03's concern)
            ctx.ob(r5, fi, "fallback " + norm(d), True,
                   {"note": "failure placeholder"}, d, nontrivial=False)
            continue
        m = _match_call(v, ("numpy.sqrt",), prog, fit)
        inner = m and _match_call(m, ("numpy.diag",), prog, fit)
        inv = inner and _match_call(inner, ("scipy.linalg.inv",
                                            "numpy.linalg.inv"), prog, fit)
        ctx.check(r5, fi, "1-sigma vector " + norm(d), inv is not None,
                  "expected sqrt(diag(inv(M))), found %s" % txt, node=d)
        if inv is None or not isinstance(inv, ast.Name):
            continue
        # M definition in the same block
        blk = pm[d]
        body = blk.body if hasattr(blk, "body") else []
        mdef = [s for s in body if isinstance(s, ast.Assign) and
                norm(s.targets[0]) == inv.id]
        jdef = [s for s in body if isinstance(s, ast.Assign) and
                isinstance(s.value, ast.Call) and
                prog.resolve_name(fit, norm(s.value.func)) ==
                wrapper.qualname]
        if not mdef or not jdef:
            ctx.unknown_site(r5, fi, norm(d), d)
            continue
        J = norm(jdef[0].targets[0])
        mt = norm(mdef[0].value).replace(" ", "")

        def factors(e, depth=0):
            """matrix product as a list of factor descriptions"""
            if depth > 6:
                return [norm(e)]
            if isinstance(e, ast.Call) and isinstance(e.func, ast.Attribute) \
                    and e.func.attr == "dot" and len(e.args) == 1:
                return factors(e.func.value, depth + 1) + \
                    factors(e.args[0], depth + 1)
            if isinstance(e, ast.BinOp) and isinstance(e.op, ast.MatMult):
                return factors(e.left, depth + 1) + \
                    factors(e.right, depth + 1)
            if isinstance(e, ast.Call) and norm(e.func) in (
                    "np.dot", "numpy.dot") and len(e.args) == 2:
                return factors(e.args[0], depth + 1) + \
                    factors(e.args[1], depth + 1)
            if isinstance(e, ast.Call) and norm(e.func) in (
                    "np.transpose", "numpy.transpose") and len(e.args) == 1:
                return ["T(%s)" % norm(e.args[0])]
            if isinstance(e, ast.Attribute) and e.attr == "T":
                return ["T(%s)" % norm(e.value)]
            if isinstance(e, ast.Call) and isinstance(e.func, ast.Attribute) \
                    and e.func.attr == "transpose" and not e.args:
                return ["T(%s)" % norm(e.func.value)]
            if isinstance(e, ast.Call) and norm(e.func).split(".")[-1] in (
                    "inv", "pinv") and len(e.args) == 1:
                return ["inv(%s)" % norm(e.args[0])]
            if isinstance(e, ast.Name) and e.id not in (J, "C", "B"):
                dd = [s_ for s_ in body if isinstance(s_, ast.Assign) and
                      norm(s_.targets[0]) == e.id]
                if len(dd) == 1:
                    return factors(dd[0].value, depth + 1)
            return [norm(e)]
        fac = factors(mdef[0].value)
        uses_C = "inv(C)" in fac
        ctx.check(r5, fi, "Fisher matrix " + norm(mdef[0]),
                  fac in (["T(%s)" % J, J], ["T(%s)" % J, "inv(C)", J]),
                  "expected J^T J or J^T inv(C) J with J=%s; found the "
                  "product %s" % (J, fac), node=mdef[0])
        jc = jdef[0].value
        e = kwarg(jc, "errs")
        b = kwarg(jc, "B")
        ok = e is not None and norm(e) == "errs" and \
            (uses_C or (b is not None and norm(b) == "B"))
        if uses_C:
            ok = ok and b is None
        ctx.check(r5, fi, "Jacobian for the Fisher matrix " +
                  norm(jdef[0]), ok,
                  "the Jacobian must be whitened exactly like the fit: "
                  "errs=errs and %s" % ("no B when C is applied explicitly"
                                        if uses_C else "B=B"), node=jdef[0])


def _match_call(node, dotted_names, prog, mod):
    if isinstance(node, ast.Call) and len(node.args) >= 1:
        d = prog.dotted(mod, node.func) if isinstance(
            node.func, ast.Attribute) else prog.resolve_name(
                mod, norm(node.func))
        if d in dotted_names:
            return node.args[0]
    return None


# --------------------------------------------------------------------------
def r6(ctx, prog, fit, wrapper, dfun_call):
    ctx.rule("C04-R6", "the Dfun wrapper accepts every key of the kws dict, "
             "divides by errs, right-multiplies by B and transposes last; "
             "the residual right-multiplies by B as well")
    fi, call = dfun_call
    kws = kwarg(call, "kws")
    if isinstance(kws, ast.Name):
        defs = [s for s in walk_no_nested(fi.node) if isinstance(s, ast.Assign)
                and norm(s.targets[0]) == kws.id]
        if len(defs) == 1:
            kws = defs[0].value
    keys = [k.value for k in kws.keys] if isinstance(kws, ast.Dict) else None
    if keys is None:
        raise AnalysisError("C04-R6: kws= of the minimize call is not a dict "
                            "display")
    wp = wrapper.params
    ctx.check("C04-R6", fi, "kws keys %s accepted by %s%s" %
              (keys, wrapper.name, wp), set(keys) <= set(wp[1:]),
              "lmfit calls Dfun(params, **kws): keys %s are not parameters "
              "of the wrapper" % sorted(set(keys) - set(wp[1:])), node=call)
    # order inside the wrapper: /= errs, .dot(B), transpose
    ops = []
    from ..core import as_update

    def is_transpose(v):
        if isinstance(v, ast.Attribute) and v.attr == "T":
            return True
        if isinstance(v, ast.Call):
            t_ = norm(v.func)
            return t_ in ("np.transpose", "numpy.transpose") or \
                t_.endswith(".transpose")
        return False
    for s in walk_no_nested(wrapper.node):
        u = as_update(s) if isinstance(s, (ast.Assign, ast.AugAssign)) \
            else None
        if u is not None and u[1] is ast.Div and u[2] == "errs":
            ops.append((s.lineno, "div_errs"))
        val = s.value if isinstance(s, (ast.Assign, ast.Return)) else None
        if isinstance(val, ast.Call):
            t = norm(val.func)
            if t.endswith(".dot") and val.args and \
                    norm(val.args[0]) == "B":
                ops.append((s.lineno, "dot_B"))
        if val is not None and is_transpose(val):
            ops.append((s.lineno, "transpose"))
    seq = [o for _, o in sorted(ops)]
    ctx.check("C04-R6", wrapper, "whitening sequence %s" % seq,
              seq == ["div_errs", "dot_B", "transpose"],
              "expected rows/errs, then .dot(B) on the pixel axis, then the "
              "transpose lmfit needs", node=wrapper.node)
    # residual
    res = [f for q, f in prog.functions.items() if f.parent is fi and
           f.name == norm(call.args[0])] if call.args else []
    if not res:
        raise AnalysisError("C04-R6: residual closure not found")
    dots = [c for c in walk_no_nested(res[0].node) if isinstance(c, ast.Call)
            and norm(c.func).endswith(".dot") and c.args and
            norm(c.args[0]) == "B"]
    ctx.check("C04-R6", res[0], "residual whitening", len(dots) == 1,
              "the residual must be right-multiplied by B exactly once when "
              "B is given", node=res[0].node)


ERR_PAIRING = {"err_peak_flux": ({"amp"}, {"amp"}),
               "err_a": ({"sx"}, {"sx"}), "err_b": ({"sy"}, {"sy"}),
               "err_pa": ({"theta"}, {"theta"}),
               "err_ra": (set(), {"xo", "yo"}),
               "err_dec": (set(), {"xo", "yo"})}


def r8_pairing(ctx, prog):
    """each catalogued uncertainty is derived from the 1-sigma error of its
    own fit parameter"""
    from ..core import param_deps
    ctx.rule("C04-R8", "error pairing: in fitting.errors the "
             "value stored in source.err_peak_flux depends on the stderr of "
             "'amp' only, err_a on 'sx', err_b on 'sy', err_pa on 'theta', "
             "err_ra / err_dec on 'xo' / 'yo' (data-dependency analysis of "
             "the model[prefix + <name>].stderr reads)")

    def atom(x):
        if isinstance(x, ast.Attribute) and x.attr == "stderr" and \
                isinstance(x.value, ast.Subscript):
            key = x.value.slice
            lits = [c.value for c in ast.walk(key)
                    if isinstance(c, ast.Constant) and
                    isinstance(c.value, str) and c.value]
            if lits:
                return {lits[-1]}
            return {"?"}
        return None
    n = 0
    # (fitting.new_errors is dead code: nothing in the package calls it)
    for short in ("fitting.errors",):
        if not prog.has_func(short):
            continue
        fi = prog.func(short)
        envs = []
        param_deps(fi.node, atom=atom, control=False, envs=envs)
        if not envs:
            raise AnalysisError("C04-R8: no return in %s" % short)
        # the last return is the normal (fitted) path
        ret, env = sorted(envs, key=lambda t: t[0].lineno)[-1]
        obj = fi.params[0]
        for fld, (must, may) in sorted(ERR_PAIRING.items()):
            d = {x for x in env.get("%s.%s" % (obj, fld), set())
                 if x in ("amp", "xo", "yo", "sx", "sy", "theta", "?")}
            n += 1
            ctx.check("C04-R8", fi, "%s <- stderr of %s" % (fld, sorted(d)),
                      must <= d <= may and bool(d),
                      "%s.%s is derived from the 1-sigma error of %s; it "
                      "must come from %s: the component would be given "
                      "another parameter's uncertainty" %
                      (obj, fld, sorted(d) or "no fit parameter",
                       sorted(may)), node=ret)
    ctx.floor("C04-R8", n, 6, "uncertainty fields paired with parameters")


def r10_noise(ctx, prog):
    """the noise level of the Fisher matrix is the island's own"""
    from .c08 import _resolve_local
    ctx.rule("C04-R10", "noise model: the errs handed to covar_errors is "
             "taken from the rms map restricted to the island being fitted "
             "(a cut-out of the map), in the blind and in the priorized "
             "path alike -- the noisiest pixel of the WHOLE image would "
             "scale every island's uncertainties by max(rms)/rms_island")
    n = 0
    for short in ("source_finder.SourceFinder._fit_island",
                  "source_finder.SourceFinder._refit_islands"):
        fi = prog.func(short)
        for c in walk_no_nested(fi.node):
            if not (isinstance(c, ast.Call) and
                    norm(c.func).split(".")[-1] == "covar_errors"):
                continue
            e = kwarg(c, "errs")
            if e is None and len(c.args) >= 3:
                e = c.args[2]
            if e is None:
                continue
            n += 1
            for _ in range(3):
                if isinstance(e, ast.Name):
                    e = _resolve_local(fi.node, e)
            arg = e.args[0] if isinstance(e, ast.Call) and e.args and \
                norm(e.func).split(".")[-1] in ("nanmax", "max", "nanmean",
                                                "nanmedian", "mean",
                                                "median") else e

            def is_cut(x, depth=0):
                """a subscripted (cut-out) view of an rms array"""
                if depth > 4:
                    return None
                if isinstance(x, ast.Subscript) and not isinstance(
                        x.slice, ast.Constant):
                    return "rms" in norm(x.value).lower()
                if isinstance(x, ast.Name):
                    defs = [d.value for d in walk_no_nested(fi.node)
                            if isinstance(d, ast.Assign) and
                            any(norm(t) == x.id for t in d.targets)]
                    if len(defs) == 1:
                        return is_cut(defs[0], depth + 1)
                    # a, b = island_data.scalars / tuple unpacking etc.
                    tdefs = [d for d in walk_no_nested(fi.node)
                             if isinstance(d, ast.Assign) and
                             isinstance(d.targets[0], (ast.Tuple, ast.List))
                             and any(norm(t) == x.id
                                     for t in d.targets[0].elts)]
                    return None if (tdefs or not defs) else None
                if isinstance(x, ast.Attribute):
                    return False if "rms" in x.attr.lower() else None
                return None
            v = is_cut(arg)
            if v is None:
                ctx.unknown_site("C04-R10", fi, "noise level %s not traced "
                                 "to the rms map" % norm(e, 60), node=c)
                continue
            ctx.check("C04-R10", fi, "errs of %s = %s" % (norm(c.func),
                                                         norm(e, 60)), v,
                      "the noise level %s is taken from the whole rms map, "
                      "not from the island's cut-out: all uncertainties of "
                      "an island in a quiet part of the image are inflated "
                      "by the noisiest region elsewhere" % norm(e, 60),
                      node=c)
    ctx.floor("C04-R10", n, 2, "covar_errors calls with a noise level")


def r11_no_carried_state(ctx, prog, jac):
    """each component's rows are built from that component's own values"""
    from ..core import loop_carried
    ctx.rule("C04-R11", "no state is carried from one component to the next: "
             "in the component loops of the analytic Jacobian and of the "
             "error assignment every local that is read has been assigned "
             "earlier in the SAME iteration on every path (counters updated "
             "in place excepted) -- otherwise a component whose guard is "
             "false is differentiated with its neighbour's geometry")
    n = 0
    for fi in (jac, prog.func("fitting.covar_errors")):
        for lp in walk_no_nested(fi.node):
            if not isinstance(lp, (ast.For, ast.While)):
                continue
            n += 1
            lc = loop_carried(lp)
            names = sorted({nm for nm, _ in lc})
            ctx.check("C04-R11", fi, "component loop of %s at line-order "
                      "position %d" % (fi.short, n), not lc,
                      "%s may still hold the value computed for the previous "
                      "component (assigned only under a condition in this "
                      "iteration)" % names, node=lc[0][1] if lc else lp)
    ctx.floor("C04-R11", n, 2, "component loops examined")
