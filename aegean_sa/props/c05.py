"""C05 -- priorized fitting measures the catalogued sources as catalogued."""
from __future__ import annotations

import ast

from .. import callgraph, link, rules_num, unitrules
from ..absint import Interp, Observer
from ..core import PKG, AnalysisError, kwarg, names_in, norm, walk_no_nested
from ..lib import Lib

EXPLANATION = (
    "Static analysis of SourceFinder._refit_islands / priorized_fit_islands "
    "and cluster.resize. R1: the `vary` expression of every parameter is "
    "tabulated over stage in {1,2,3} and compared with the statement "
    "(amplitude always, position from stage 2, shape from stage 3); the "
    "error copy-back guards are the exact complements. R2: every returned "
    "component receives the uuid of, and is zipped with, the list of "
    "accepted sources, whose append sits in the same block as the parameter "
    "group and the counter increment; the PRIORIZED flag is or-ed in. R3 "
    "(D-num): values used both as int() slice bounds of the cut-out and as "
    "coordinate offsets are integer-valued (no true division), and the -1 on "
    "the way in pairs with the +1 on the way out (C01-R1). R4: between "
    "params.add and result_to_components the only writers of parameter "
    "values are the frame shift by the matching axis offset and the NaN "
    "marking of unfittable components. R5: the 'psf columns absent' test in "
    "resize tests the sentinel the source class actually initialises. R6: "
    "units/kinds at sky2pix_ellipse and the lmfit parameters, lmfit int "
    "conversions, link check. Numerical equality of refitted fluxes is not "
    "decided.")
ASSUMPTIONS = ["contracts table (units.py)", "lmfit honours vary=False"]

RF = "source_finder.SourceFinder._refit_islands"
DRIVER = "source_finder.SourceFinder.priorized_fit_islands"
SPEC = {"amp": {1: True, 2: True, 3: True},
        "xo": {1: False, 2: True, 3: True},
        "yo": {1: False, 2: True, 3: True},
        "sx": {1: False, 2: False, 3: True},
        "sy": {1: False, 2: False, 3: True},
        "theta": {1: False, 2: False, 3: True}}

MUTANTS = [
    ("catalogue beam built without the finiteness test",
     "AegeanTools/cluster.py",
     "                catbeam = Beam(*psf) if np.all(np.isfinite(psf)) else None",
     "                catbeam = Beam(*psf)", "C05-R16"),
    ("deconvolved size converted back with the wrong factor",
     "AegeanTools/cluster.py",
     "                src.a = np.sqrt(src.a) * 3600  # arcsec",
     "                src.a = np.sqrt(src.a) / 3600  # arcsec", "C05-R15"),
    ("resize runs the ratio branch when no ratio is given",
     "AegeanTools/cluster.py", "    if ratio is not None:\n        log.info(",
     "    if ratio is None:\n        log.info(", "C05-R15"),
    ("off-image test left to IndexError", "AegeanTools/source_finder.py",
     "                    not 0 <= x < shape[0]\n"
     "                    or not 0 <= y < shape[1]\n"
     "                    or not np.isfinite(data[x, y])",
     "                    x >= shape[0]\n"
     "                    or y >= shape[1]\n"
     "                    or not np.isfinite(data[x, y])", "C05-R14"),
    ("islands split on consecutive labels only", "AegeanTools/source_finder.py",
     "            groups = list(island_itergen(input_sources))",
     "            import itertools\n"
     "            groups = [list(g) for _, g in itertools.groupby(\n"
     "                input_sources, key=lambda s: s.island)]", "C05-R13"),
    ("pre-fit box clipped with the row extent", "AegeanTools/source_finder.py",
     "                ymx = int(round(np.clip(cy + 2, 0, idata.shape[1])))",
     "                ymx = int(round(np.clip(cy + 2, 0, idata.shape[0])))",
     "C05-R6"),
    ("island without usable source ends the group", "AegeanTools/source_finder.py",
     "                    \"No sources found in island {0}\".format(src.island))\n"
     "                continue",
     "                    \"No sources found in island {0}\".format(src.island))\n"
     "                break", "C05-R11"),
    ("psf sanity test rewritten so that nan is excluded",
     "AegeanTools/cluster.py",
     "            if (src.psf_a <= 0) or (src.psf_b <= 0):",
     "            if not (src.psf_a > 0 and src.psf_b > 0):", "C05-R10"),
    ("stage > 2 for position", "AegeanTools/source_finder.py",
     "                    max=source_x + sx / 2.0,\n                    "
     "vary=stage >= 2,", "                    max=source_x + sx / 2.0,\n"
     "                    vary=stage > 2,", "C05-R1"),
    ("theta freed at stage 2", "AegeanTools/source_finder.py",
     'params.add(prefix + "theta", value=theta, vary=stage >= 3)',
     'params.add(prefix + "theta", value=theta, vary=stage >= 2)', "C05-R1"),
    ("copy-back guard", "AegeanTools/source_finder.py",
     "                if stage < 3:\n                    ns.err_a = s.err_a",
     "                if stage <= 3:\n                    ns.err_a = s.err_a",
     "C05-R1"),
    ("uuid from all sources", "AegeanTools/source_finder.py",
     "for ns, s in zip(new_src, included_sources):",
     "for ns, s in zip(new_src, isle):", "C05-R2"),
    ("append before rejection", "AegeanTools/source_finder.py",
     "                # this source is being refit so add it to the list\n"
     "                included_sources.append(src)\n", "", "C05-R2"),
    ("drop -1 on the way in", "AegeanTools/source_finder.py",
     "                source_x -= 1\n", "", "C05-R"),
    ("wrong axis shift", "AegeanTools/source_finder.py",
     'params[prefix + "yo"].value -= ymin',
     'params[prefix + "yo"].value -= xmin', "C05-R4"),
    ("arcsec into sky2pix_ellipse", "AegeanTools/source_finder.py",
     "[src.ra, src.dec], src.a / 3600, src.b / 3600, src.pa",
     "[src.ra, src.dec], src.a, src.b / 3600, src.pa", "C05-R6"),
    ("fwhm as sigma", "AegeanTools/source_finder.py",
     "                sx *= FWHM2CC\n                sy *= FWHM2CC\n",
     "                sy *= FWHM2CC\n", "C05-R6"),
    ("half-integer offsets", "AegeanTools/source_finder.py",
     "xmin = min(xmin, max(0, x - xwidth // 2))",
     "xmin = min(xmin, max(0, x - xwidth / 2))", "C05-R3"),
    ("sentinel None", "AegeanTools/cluster.py",
     "has_psf = psf_a is not None and np.isfinite(psf_a)",
     "has_psf = psf_a is not None", "C05-R5"),
    ("lower shape bound from the beam major axis (seed C05b)",
     "AegeanTools/source_finder.py",
     "s_lims = [0.8 * min(sx, pixbeam.b * FWHM2CC),",
     "s_lims = [0.8 * min(sx, pixbeam.a * FWHM2CC),", "C05-R7"),
    ("lower shape bound is the catalogued size",
     "AegeanTools/source_finder.py",
     "s_lims = [0.8 * min(sx, pixbeam.b * FWHM2CC),",
     "s_lims = [0.8 * sx,", "C05-R7"),
    ("default regroup length in degrees (seed C05c)",
     "AegeanTools/source_finder.py",
     "regroup_eps = 4*np.mean([s.a/60 for s in sources])",
     "regroup_eps = 4*np.mean([s.a/3600 for s in sources])", "C05-R8"),
    ("island cut-out is a view of the image (seed C05d)",
     "AegeanTools/source_finder.py",
     "            idata = data[int(xmin): int(xmax), int(ymin): int(ymax)].copy()",
     "            idata = data[int(xmin): int(xmax), int(ymin): int(ymax)]", "C05-R9"),
]
TWINS = [
    ("vary via local", "AegeanTools/source_finder.py",
     'params.add(prefix + "theta", value=theta, vary=stage >= 3)',
     'params.add(prefix + "theta", value=theta, vary=(3 <= stage))'),
    ("looser lower shape bound", "AegeanTools/source_finder.py",
     "s_lims = [0.8 * min(sx, pixbeam.b * FWHM2CC),",
     "s_lims = [0.5 * min(sy, sx, pixbeam.b * FWHM2CC),"),
]


def ev_stage(e, stage):
    if isinstance(e, ast.Constant):
        return e.value
    if isinstance(e, ast.Name) and e.id == "stage":
        return stage
    if isinstance(e, ast.UnaryOp) and isinstance(e.op, ast.Not):
        return not ev_stage(e.operand, stage)
    if isinstance(e, ast.BoolOp):
        vs = [ev_stage(v, stage) for v in e.values]
        return all(vs) if isinstance(e.op, ast.And) else any(vs)
    if isinstance(e, ast.Compare) and len(e.ops) == 1:
        l, r = ev_stage(e.left, stage), ev_stage(e.comparators[0], stage)
        return {ast.Lt: l < r, ast.LtE: l <= r, ast.Gt: l > r,
                ast.GtE: l >= r, ast.Eq: l == r,
                ast.NotEq: l != r}[type(e.ops[0])]
    raise AnalysisError("C05-R1: expression %s is not a comparison of "
                        "`stage`" % norm(e))


def run(ctx):
    prog = ctx.prog
    rf = prog.func(RF)
    sf = prog.modules[rf.module]
    # ---------------------------------------------------------------- R1
    ctx.rule("C05-R1", "stage -> vary table: amp always; xo,yo iff stage>=2; "
             "sx,sy,theta iff stage>=3; copy-back guards are the complements")
    adds = {}
    for c in walk_no_nested(rf.node):
        if isinstance(c, ast.Call) and isinstance(c.func, ast.Attribute) and \
                c.func.attr == "add" and c.args:
            a = c.args[0]
            if isinstance(a, ast.BinOp) and isinstance(a.right, ast.Constant) \
                    and a.right.value in SPEC:
                adds[a.right.value] = c
    missing = set(SPEC) - set(adds)
    if missing:
        raise AnalysisError("C05-R1: params.add for %s not found" %
                            sorted(missing))
    for sfx, c in sorted(adds.items()):
        v = kwarg(c, "vary")
        if v is None:
            raise AnalysisError("C05-R1: no vary= for %s" % sfx)
        if isinstance(v, ast.Name) and v.id != "stage":
            from .c08 import _resolve_local
            v = _resolve_local(rf.node, v)
        table = {st: bool(ev_stage(v, st)) for st in (1, 2, 3)}
        ctx.check("C05-R1", rf, "vary(%s) = %s -> %s" % (sfx, norm(v), table),
                  table == SPEC[sfx],
                  "parameter %s must be free exactly at stages %s; found %s"
                  % (sfx, [s for s, t in SPEC[sfx].items() if t],
                     [s for s, t in table.items() if t]),
                  {"table": table}, c)
    guards = []
    for s in walk_no_nested(rf.node):
        if isinstance(s, ast.If) and names_in(s.test) == {"stage"}:
            fields = sorted({t.attr for b in s.body for t in ast.walk(b)
                             if isinstance(t, ast.Attribute) and
                             isinstance(t.ctx, ast.Store) and
                             t.attr.startswith("err_")})
            if fields:
                guards.append((s, fields))
    ctx.floor("C05-R1", len(guards), 2, "error copy-back guards")
    for s, fields in guards:
        table = {st: bool(ev_stage(s.test, st)) for st in (1, 2, 3)}
        if set(fields) <= {"err_ra", "err_dec"}:
            want = {st: not SPEC["xo"][st] for st in (1, 2, 3)}
        else:
            want = {st: not SPEC["sx"][st] for st in (1, 2, 3)}
        ctx.check("C05-R1", rf, "copy-back of %s under `%s`" %
                  (fields, norm(s.test)), table == want,
                  "input errors must be copied back exactly when the "
                  "parameters were not freed: %s vs %s" % (table, want),
                  {"table": table}, s)
    # ---------------------------------------------------------------- R2
    ctx.rule("C05-R2", "identity: ns.uuid = s.uuid and PRIORIZED for every "
             "pair of zip(new components, accepted sources); the accepted "
             "list is appended in the block that adds the parameters and "
             "increments the counter")
    zips = [l for l in walk_no_nested(rf.node) if isinstance(l, ast.For) and
            isinstance(l.iter, ast.Call) and norm(l.iter.func) == "zip" and
            any(isinstance(x, ast.Attribute) and x.attr == "uuid"
                for st in l.body for x in ast.walk(st))]
    if len(zips) != 1:
        raise AnalysisError("C05-R2: uuid copy-back loop not found")
    z = zips[0]
    a0, a1 = [norm(a) for a in z.iter.args]
    rtc = [s for s in walk_no_nested(rf.node) if isinstance(s, ast.Assign)
           and isinstance(s.value, ast.Call) and
           norm(s.value.func) == "self.result_to_components"]
    ok = len(rtc) == 1 and norm(rtc[0].targets[0]) == a0
    ctx.check("C05-R2", rf, "zip first operand = result_to_components(...)",
              ok, "components must come from result_to_components",
              node=z)
    apps = [c for c in walk_no_nested(rf.node) if isinstance(c, ast.Call) and
            norm(c.func) == a1 + ".append"]
    okb = False
    if len(apps) == 1:
        pm = {}
        for x in ast.walk(rf.node):
            for ch in ast.iter_child_nodes(x):
                pm[ch] = x
        st = apps[0]
        while not isinstance(st, ast.stmt):
            st = pm[st]
        blk = pm[st]
        body = blk.body if st in getattr(blk, "body", []) else \
            getattr(blk, "orelse", [])
        has_add = any(isinstance(c, ast.Call) and
                      isinstance(c.func, ast.Attribute) and
                      c.func.attr == "add" for s2 in body
                      for c in ast.walk(s2))
        has_inc = any(isinstance(s2, ast.AugAssign) and
                      isinstance(s2.op, ast.Add) and norm(s2.value) == "1"
                      for s2 in body)
        src_loop = blk if isinstance(blk, ast.For) else None
        okb = has_add and has_inc and src_loop is not None and \
            apps[0].args and norm(apps[0].args[0]) == norm(src_loop.target)
    ctx.check("C05-R2", rf, "accepted-source list " + a1, okb,
              "`%s` must receive exactly the sources for which parameters "
              "were added (same block as params.add and the counter "
              "increment); otherwise the k-th component is paired with the "
              "wrong input source and inherits its uuid" % a1,
              node=apps[0] if apps else z)
    body_txt = [norm(s).replace(" ", "") for s in z.body]
    ns, s_ = [norm(e) for e in z.target.elts]
    ctx.check("C05-R2", rf, "uuid copied", "%s.uuid=%s.uuid" % (ns, s_) in
              body_txt, "each component must carry its input source's uuid",
              node=z)
    ctx.check("C05-R2", rf, "PRIORIZED flag set",
              "%s.flags|=flags.PRIORIZED" % ns in body_txt,
              "each component must carry the PRIORIZED flag", node=z)
    # ---------------------------------------------------------------- R3
    r3(ctx, prog, rf)
    r7(ctx, prog, rf, adds)
    # ------------------------------------------------------------ frame rule
    ctx.rule("C05-R9", "fitting works on copies: no in-place write (masking with "
             "NaN, -=, fill) goes through a view of the shared image / "
             "noise / background arrays -- otherwise the pixels blanked for "
             "one island are missing for every island processed later, and "
             "which sources are measured depends on the processing order")
    from ..core import view_writes
    nvw = 0
    for short in ['source_finder.SourceFinder._refit_islands', 'source_finder.SourceFinder.priorized_fit_islands']:
        if not prog.has_func(short):
            continue
        fi_ = prog.func(short)
        nvw += 1
        vw = view_writes(fi_.node)
        ctx.check("C05-R9", fi_, "no write through a view of the shared arrays "
                  "in " + fi_.name, not vw,
                  "%s writes into %s, a view of %s (no copy in between)" %
                  ((norm(vw[0][0], 60), vw[0][1], vw[0][2]) if vw
                   else ("", "", "")), node=vw[0][0] if vw else fi_.node)
    ctx.floor("C05-R9", nvw, 2, "fitting functions examined for view writes")
    ctx.rule("C05-R10", "catalogues without the optional psf columns (psf = "
             "nan): resize keeps their sources -- the psf sanity test is "
             "false for nan and ratio 1 leaves the shapes untouched "
             "(interpreted over nan / positive samples; shared with C19-R7)")
    from .c19 import resize_nan_rule
    resize_nan_rule(ctx, prog, "C05-R10")
    ctx.rule("C05-R11", "sources are handled independently of each other: "
             "the loops over the islands of a group, the sources of an "
             "island and the batches of groups are never left early (no "
             "break, no return inside them) -- an unusable source or island "
             "is skipped with continue, it does not end the work on the "
             "others")
    n11 = 0
    for short in ("source_finder.SourceFinder._refit_islands",
                  "source_finder.SourceFinder.priorized_fit_islands"):
        fi_ = prog.func(short)
        for lp in walk_no_nested(fi_.node):
            if not isinstance(lp, (ast.For, ast.While)):
                continue
            n11 += 1
            bad = []

            def scan(stmts, inner):
                for st in stmts:
                    if isinstance(st, ast.Break) and not inner:
                        bad.append(st)
                    if isinstance(st, ast.Return):
                        bad.append(st)
                    nested = isinstance(st, (ast.For, ast.While))
                    for fld in ("body", "orelse", "finalbody"):
                        sub = getattr(st, fld, None)
                        if isinstance(sub, list):
                            scan([x for x in sub if isinstance(x, ast.stmt)],
                                 inner or nested)
                    for h in getattr(st, "handlers", []) or []:
                        scan(h.body, inner or nested)
            scan(lp.body, False)
            ctx.check("C05-R11", fi_, "loop over %s runs to completion" %
                      norm(lp.iter if isinstance(lp, ast.For) else lp.test,
                           50), not bad,
                      "`%s` leaves the loop over %s early: the islands / "
                      "sources after the one that triggered it are never "
                      "fitted and silently missing from the result" %
                      (norm(bad[0]) if bad else "", norm(
                          lp.iter if isinstance(lp, ast.For) else lp.test,
                          40)), node=bad[0] if bad else lp)
    ctx.floor("C05-R11", n11, 6, "loops of the priorized fitting functions")
    from .. import link as _link
    n12 = _link.argument_binding(
        ctx, "C05-R12",
        roots=["source_finder.SourceFinder.priorized_fit_islands"],
        what="priorized fitting call graph")
    ctx.floor("C05-R12", n12, 15, "internal calls reachable from priorized "
              "fitting")
    rule_groupby(ctx, prog)
    rule_guarded_pixel(ctx, prog)
    rule_psf_rescale(ctx, prog)
    rule_guarded_beam(ctx, prog)
    # blends are fitted jointly: default grouping length (shared with C19)
    from .c19 import default_linking_length
    ctx.rule("C05-R8", "blended sources are fitted jointly: the default "
             "regrouping length is a multiple of the mean major axis in "
             "arcmin, as the following conversion expects")
    default_linking_length(ctx, prog, "C05-R8")
    # ---------------------------------------------------------------- R4
    ctx.rule("C05-R4", "writers of parameter values between params.add and "
             "result_to_components: frame shift by the matching axis offset "
             "(xo<->row offset, yo<->col offset), NaN/NOTFIT marking")
    n4 = 0
    offs = {}
    sl = [x for x in walk_no_nested(rf.node) if isinstance(x, ast.Subscript)
          and isinstance(x.slice, ast.Tuple) and len(x.slice.elts) == 2 and
          all(isinstance(e, ast.Slice) for e in x.slice.elts) and
          norm(x.value) == "data"]
    def strip(e):
        return norm(e.args[0]) if isinstance(e, ast.Call) and \
            norm(e.func) == "int" else norm(e)
    if sl:
        row0, col0 = strip(sl[0].slice.elts[0].lower), \
            strip(sl[0].slice.elts[1].lower)
    else:
        # data[box] with  box = slice(r0, r1), slice(c0, c1)
        from .c08 import _resolve_local as _rl
        row0 = col0 = None
        for x in walk_no_nested(rf.node):
            if isinstance(x, ast.Subscript) and norm(x.value) == "data" and \
                    isinstance(x.slice, ast.Name):
                bx = _rl(rf.node, x.slice)
                if isinstance(bx, ast.Tuple) and len(bx.elts) == 2 and all(
                        isinstance(e, ast.Call) and norm(e.func) == "slice"
                        and len(e.args) >= 2 for e in bx.elts):
                    row0, col0 = strip(bx.elts[0].args[0]), \
                        strip(bx.elts[1].args[0])
        if row0 is None:
            raise AnalysisError("C05: cut-out slice data[a:b, c:d] not "
                                "found")
    for s in walk_no_nested(rf.node):
        tg = None
        if isinstance(s, ast.AugAssign):
            tg = s.target
        elif isinstance(s, ast.Assign):
            tg = s.targets[0]
        if not (isinstance(tg, ast.Attribute) and tg.attr in ("value", "min",
                                                               "max") and
                isinstance(tg.value, ast.Subscript) and
                norm(tg.value.value) == "params"):
            continue
        key = tg.value.slice
        sfx = key.right.value if isinstance(key, ast.BinOp) and \
            isinstance(key.right, ast.Constant) else None
        n4 += 1
        if isinstance(s, ast.AugAssign) and isinstance(s.op, ast.Sub) and \
                sfx in ("xo", "yo"):
            want = row0 if sfx == "xo" else col0
            ctx.check("C05-R4", rf, "frame shift " + norm(s),
                      norm(s.value) == want,
                      "%s is the %s coordinate and must be shifted by the "
                      "cut-out's %s offset `%s`" %
                      (sfx, "row" if sfx == "xo" else "column",
                       "row" if sfx == "xo" else "column", want), node=s)
        elif isinstance(s, ast.AugAssign) and sfx == "flags":
            ctx.ob("C05-R4", rf, "flag update " + norm(s), True, {}, s)
        else:
            ok = sfx == "amp" and norm(s.value) in ("np.nan", "numpy.nan")
            ctx.check("C05-R4", rf, "parameter write " + norm(s), ok,
                      "a parameter value is rewritten between params.add and "
                      "the conversion to components: parameters the stage "
                      "does not free would not come back unchanged", node=s)
    ctx.floor("C05-R4", n4, 6, "writes to parameter values in "
              "_refit_islands")
    # offsets handed to result_to_components are the slice offsets
    ifd = [c for c in walk_no_nested(rf.node) if isinstance(c, ast.Call) and
           norm(c.func) == "IslandFittingData"]
    # (the tuple may be named or written in the constructor call)
    from .c08 import _resolve_local
    offs_vals = []
    for c in ifd:
        v = kwarg(c, "offsets")
        if v is None and len(c.args) >= 4:
            v = c.args[3]
        if v is not None:
            offs_vals.append((c, _resolve_local(rf.node, v)))
    ok = len(offs_vals) == 1 and \
        isinstance(offs_vals[0][1], (ast.Tuple, ast.List)) and \
        [norm(e) for e in offs_vals[0][1].elts][0::2] == [row0, col0]
    ctx.check("C05-R4", rf, "offsets = (%s, .., %s, ..)" % (row0, col0), ok,
              "the offsets used on the way back must be the cut-out's row "
              "and column starts", node=offs_vals[0][0] if offs_vals
              else rf.node)
    # ---------------------------------------------------------------- R5
    r5(ctx, prog)
    # ---------------------------------------------------------------- R6
    ctx.rule("C05-R6", "units/kinds/index types at sky2pix_ellipse, the "
             "lmfit parameters and resize; lmfit int conversions; link "
             "check")
    unitrules.apply(ctx, "C05-R6", {RF, "cluster.resize", DRIVER},
                    kinds={"call", "lmfit", "store", "sink"},
                    what="contract sites in priorized fitting", floor=12)
    g = callgraph.build(prog)
    reach = callgraph.reachable(g, [PKG + "." + DRIVER])
    rules_num.lmfit_int_uses(ctx, "C05-R6", reach)
    nl = link.check(ctx, [DRIVER], rule="C05-R6", what="priorized driver")
    ctx.floor("C05-R6", nl, 100, "library symbols reachable from the "
              "priorized driver")


class _Stores(Observer):
    def __init__(self, names):
        self.names = names
        self.vals = {}

    def on_store(self, it, target, key, val, stmt):
        if key in self.names and it.depth == 0:
            self.vals.setdefault(key, []).append((stmt, val))


def _candidates(e):
    """upper bounds of e obtained by opening Min(...) (e <= every result)"""
    import sympy as sp
    if isinstance(e, sp.Min):
        return [c for a in e.args for c in _candidates(a)]
    if isinstance(e, sp.Mul):
        coeff, rest = e.as_coeff_Mul()
        if coeff.is_positive and isinstance(rest, sp.Min):
            return [coeff * c for c in _candidates(rest)]
    return [e]


def _independent(fi, name, before):
    """is the symbol `name` an independent input of the bound expressions:
    an attribute chain / parameter / the (unpacked) result of a call -- as
    opposed to a local computed from other values whose definition the
    translator could not follow"""
    if name.startswith("v_"):
        return False
    defs = []
    for st in walk_no_nested(fi.node):
        if isinstance(st, ast.Assign) and st.lineno < before:
            for t in st.targets:
                if name in names_in(t) and not (
                        isinstance(t, (ast.Subscript, ast.Attribute))):
                    defs.append(st.value)
        elif isinstance(st, ast.AugAssign) and st.lineno < before and \
                isinstance(st.target, ast.Name) and st.target.id == name:
            defs.append(None)
    for v in defs:
        if v is None:
            continue
        if not isinstance(v, (ast.Call, ast.Attribute, ast.Constant)):
            return False
    return True


def r7(ctx, prog, rf, adds):
    """lower shape bound of the refit <= lower shape bound of the blind fit"""
    import itertools
    import sympy as sp
    from .. import sym
    ctx.rule("C05-R7", "shape bounds of the priorized fit: the lower bound "
             "given to sx and sy never exceeds the blind fit's lower bound "
             "(0.8 x the beam's minor axis), so every component the blind "
             "fit can produce keeps its catalogued shape when it is held "
             "fixed (lmfit clips a fixed value into [min, max])")
    blind = None
    for short in ("source_finder.SourceFinder.estimate_lmfit_parinfo",
                  "source_finder.estimate_parinfo_image"):
        if prog.has_func(short):
            blind = prog.func(short)
            break
    if blind is None:
        raise AnalysisError("C05-R7: blind model builder not found")

    def bound_of(fi, call, which):
        tr = sym.Translator(prog, prog.modules[fi.module], {},
                            free_symbols=True)
        sym.number_locals(tr, fi.node, call.lineno)
        k = kwarg(call, which)
        if k is None:
            return None
        e = tr.expr(k)
        # the translator keeps min/max uninterpreted; here their meaning
        # is what matters
        e = e.replace(sp.Function("minimum"), sp.Min)
        return e.replace(sp.Function("maximum"), sp.Max)

    def add_call(fi, sfx):
        for c in walk_no_nested(fi.node):
            if isinstance(c, ast.Call) and \
                    isinstance(c.func, ast.Attribute) and \
                    c.func.attr == "add" and c.args and \
                    isinstance(c.args[0], ast.BinOp) and \
                    isinstance(c.args[0].right, ast.Constant) and \
                    c.args[0].right.value == sfx:
                return c
        return None
    n = 0
    for sfx in ("sx", "sy"):
        bc = add_call(blind, sfx)
        if bc is None:
            raise AnalysisError("C05-R7: params.add(%s) not found in %s" %
                                (sfx, blind.short))
        try:
            lb = bound_of(blind, bc, "min")
            lr = bound_of(rf, adds[sfx], "min")
        except (sym.Untranslatable, TypeError, AttributeError) as e:
            raise AnalysisError("C05-R7: bounds of %s: %s" % (sfx, e))
        if lr is None:
            n += 1
            ctx.check("C05-R7", rf, "no lower bound on " + sfx, True, "",
                      node=adds[sfx])
            continue
        if lb is None:
            raise AnalysisError("C05-R7: blind fit has no lower bound on "
                                + sfx)
        # all quantities are positive lengths; beam major >= beam minor
        free = sorted((lb.free_symbols | lr.free_symbols),
                      key=lambda x: x.name)
        pos = {x: sp.Symbol(x.name, positive=True) for x in free}
        maj = [x for x in free if x.name.endswith("_a")]
        for x in maj:
            mn = next((y for y in free
                       if y.name == x.name[:-2] + "_b"), None)
            if mn is not None:
                pos[x] = pos[mn] + sp.Symbol(x.name + "_minus_b",
                                             nonnegative=True)
        lbp, lrp = lb.subs(pos), lr.subs(pos)
        proved = any(sp.simplify(c - lbp).is_nonpositive
                     for c in _candidates(lrp))
        witness = None
        opaque = [x.name for x in free if not _independent(rf, x.name,
                                                           adds[sfx].lineno)
                  and x in lr.free_symbols]
        if not proved and opaque:
            ctx.unknown_site("C05-R7", rf, "lower bound of %s depends on "
                             "%s whose definition was not translated" %
                             (sfx, opaque), node=adds[sfx])
            continue
        if not proved:
            syms = sorted((lbp.free_symbols | lrp.free_symbols),
                          key=lambda x: x.name)
            grid = (sp.Rational(1, 2), 1, 3, 10)
            for vals in itertools.product(grid, repeat=len(syms)):
                env = dict(zip(syms, vals))
                try:
                    if (lrp.subs(env) - lbp.subs(env)) > 0:
                        witness = {str(k): str(v) for k, v in env.items()}
                        break
                except TypeError:
                    continue
            if witness is None:
                ctx.unknown_site("C05-R7", rf, "lower bound of %s: %s vs "
                                 "blind %s neither proved nor refuted" %
                                 (sfx, lr, lb), node=adds[sfx])
                continue
        n += 1
        ctx.check("C05-R7", rf, "lower bound of %s: %s <= blind %s" %
                  (sfx, lr, lb), proved,
                  "the priorized fit bounds %s below by %s, which exceeds "
                  "the blind fit's bound %s for %s: a catalogued source with "
                  "a smaller %s is clipped up to the bound although the "
                  "parameter is held fixed, and its flux is measured with "
                  "the wrong shape" % (sfx, lr, lb, witness, sfx),
                  node=adds[sfx])
    ctx.floor("C05-R7", n, 2, "shape bounds compared with the blind fit")


def r3(ctx, prog, rf):
    ctx.rule("C05-R3", "cut-out registration: every name used as int(..) "
             "slice bound of the cut-out and as a coordinate offset is "
             "integer-valued on every definition (D-num); otherwise the "
             "slice truncates while the offset keeps the fraction and the "
             "model is mis-registered by half a pixel")
    bounds = set()

    def take(b):
        if isinstance(b, ast.Call) and norm(b.func) == "int" and \
                b.args and isinstance(b.args[0], ast.Name):
            bounds.add(b.args[0].id)
    for x in walk_no_nested(rf.node):
        if isinstance(x, ast.Subscript) and isinstance(x.slice, ast.Tuple) \
                and len(x.slice.elts) == 2 and all(
                    isinstance(e, ast.Slice) for e in x.slice.elts):
            for e in x.slice.elts:
                for b in (e.lower, e.upper):
                    take(b)
        # slice objects:  box = slice(int(xmin), int(xmax)), slice(...)
        if isinstance(x, ast.Call) and norm(x.func) == "slice":
            for b in x.args[:2]:
                take(b)
    if len(bounds) < 4:
        raise AnalysisError("C05-R3: int(..) slice bounds not recognised "
                            "(%s)" % sorted(bounds))
    obs = _Stores(bounds)
    Interp(prog, rf, observers=[obs], lib=Lib()).run()
    for nm in sorted(bounds):
        vals = obs.vals.get(nm, [])
        if not vals:
            raise AnalysisError("C05-R3: no definition of %s seen" % nm)
        seen = set()
        for stmt, v in vals:
            k = norm(stmt)
            if k in seen:
                continue
            seen.add(k)
            if v.num in ("int", "bool"):
                ctx.ob("C05-R3", rf, "bound %s: %s" % (nm, norm(stmt, 70)),
                       True, {"kind": v.short()}, stmt)
            elif v.num in ("float", "ifloat"):
                ctx.check("C05-R3", rf, "bound %s: %s" % (nm, norm(stmt, 70)),
                          False, "`%s` may be a non-integer (%s): it is "
                          "truncated by int() for the slice but subtracted "
                          "un-truncated from the pixel coordinates and added "
                          "back as the island offset -- for odd widths the "
                          "data and the model are shifted by 0.5 pixel" %
                          (nm, v.short()), {"kind": v.short()}, stmt)
            else:
                ctx.unknown_site("C05-R3", rf, norm(stmt), stmt)


def r5(ctx, prog):
    ctx.rule("C05-R5", "optional psf columns: the 'absent' test in resize "
             "matches the default the source class initialises (NaN, not "
             "None)")
    rs = prog.func("cluster.resize")
    hp = [s for s in walk_no_nested(rs.node) if isinstance(s, ast.Assign) and
          norm(s.targets[0]) == "has_psf"]
    if len(hp) != 1:
        raise AnalysisError("C05-R5: has_psf definition not found")
    v = hp[0].value
    # attribute probed
    attr = None
    for c in list(ast.walk(v)) + [x for s in walk_no_nested(rs.node)
                                  if isinstance(s, ast.Assign)
                                  for x in ast.walk(s.value)]:
        if isinstance(c, ast.Call) and norm(c.func) == "getattr" and \
                len(c.args) >= 2 and isinstance(c.args[1], ast.Constant):
            attr = c.args[1].value
    if attr is None:
        raise AnalysisError("C05-R5: probed attribute not found")
    ci = prog.klass("models.ComponentSource")
    default = None
    for s in walk_no_nested(ci.methods["__init__"].node):
        if isinstance(s, ast.Assign) and norm(s.targets[0]) == "self." + attr:
            default = norm(s.value)
    txt = norm(v)
    tests_none = "is not None" in txt or "is None" in txt
    tests_nan = "isfinite" in txt or "isnan" in txt
    ok = (default in ("None",) and tests_none) or \
        (default in ("np.nan", "numpy.nan") and tests_nan)
    ctx.check("C05-R5", rs, "has_psf = %s (default of %s is %s)" %
              (txt, attr, default), ok,
              "a catalogue without psf columns yields sources whose %s is %s "
              "(the class default), which this test treats as 'psf present': "
              "Beam(nan, nan, nan) then raises and priorized fitting aborts "
              "for every catalogue lacking the optional columns" %
              (attr, default), {"default": default}, hp[0])


def rule_guarded_beam(ctx, prog, rule="C05-R16"):
    """a Beam is only built from a psf that is known to be finite"""
    from .c08 import _resolve_local
    ctx.rule(rule, "off-sky sources are skipped, not fatal: every Beam(...) "
             "built in cluster.resize / WCSHelper.get_skybeam from the value "
             "of a psf accessor (get_psf_sky2sky ...: NaN for a position "
             "beyond the projection's horizon) is reached only after a "
             "finiteness test of that value -- the guard get_skybeam applies "
             "(sibling agreement); Beam() asserts a > 0 and an unguarded "
             "construction aborts the whole priorized run")
    n = 0
    for short in ("cluster.resize", "wcs_helpers.WCSHelper.get_skybeam"):
        fi = prog.func(short)
        pm = {}
        for x_ in ast.walk(fi.node):
            for ch in ast.iter_child_nodes(x_):
                pm[ch] = x_
        for c in walk_no_nested(fi.node):
            if not (isinstance(c, ast.Call) and
                    norm(c.func).split(".")[-1] == "Beam" and c.args):
                continue
            srcs = []
            for a in c.args:
                v = a.value if isinstance(a, ast.Starred) else a
                base = v
                while isinstance(base, ast.Subscript):
                    base = base.value
                r = _resolve_local(fi.node, base) \
                    if isinstance(base, ast.Name) else base
                if isinstance(r, ast.Call) and \
                        norm(r.func).split(".")[-1].startswith("get_psf_"):
                    srcs.append((base, r))
                elif isinstance(base, ast.Name):
                    # a, b, pa = self.get_psf_sky2sky(...)
                    for st in walk_no_nested(fi.node):
                        if isinstance(st, ast.Assign) and \
                                isinstance(st.targets[0], ast.Tuple) and \
                                base.id in names_in(st.targets[0]) and \
                                isinstance(st.value, ast.Call) and \
                                norm(st.value.func).split(".")[-1].startswith(
                                    "get_psf_"):
                            srcs.append((base, st.value))
            if not srcs:
                continue
            n += 1
            names = {b.id for b, _ in srcs if isinstance(b, ast.Name)}
            guarded = False
            if names:
                # an isfinite test on the value: an enclosing conditional
                # expression / if, or an earlier `if not finite: return /
                # continue` in the same block chain
                cur = c
                while cur in pm and not guarded:
                    par = pm[cur]
                    if isinstance(par, (ast.If, ast.IfExp)) and any(
                            isinstance(t, ast.Call) and
                            norm(t.func).split(".")[-1] == "isfinite" and
                            names_in(t) & names for t in ast.walk(par.test)):
                        guarded = True
                    for fld in ("body", "orelse"):
                        blk = getattr(par, fld, None)
                        if isinstance(blk, list) and cur in blk:
                            for prev in blk[:blk.index(cur)]:
                                if isinstance(prev, ast.If) and prev.body and \
                                        isinstance(prev.body[-1], (
                                            ast.Return, ast.Continue,
                                            ast.Raise)) and any(
                                            isinstance(t, ast.Call) and
                                            norm(t.func).split(".")[-1] ==
                                            "isfinite" and
                                            names_in(t) & names
                                            for t in ast.walk(prev.test)):
                                    guarded = True
                    cur = par
            ctx.check(rule, fi, "Beam built from a checked psf: " +
                      norm(c, 60), guarded,
                      "%s is built straight from %s, which is (nan, nan, "
                      "nan) for a position beyond the horizon of the "
                      "projection: Beam() then raises AssertionError and "
                      "the run aborts instead of skipping the source" %
                      (norm(c, 50), norm(srcs[0][1], 50)), node=c)
    ctx.floor(rule, n, 2, "Beam constructions from psf accessor values")


def rule_psf_rescale(ctx, prog, rule="C05-R15"):
    """resize with ratio None (what priorized fitting uses): the catalogue
    psf is deconvolved and the image psf convolved, in consistent units; a
    catalogue made from the same image comes back unchanged"""
    from .. import concrete
    ctx.rule(rule, "shapes handed to the fit are the catalogue shapes seen "
             "through the image psf: in cluster.resize the ratio branch runs "
             "exactly when a ratio is given, the psf branch when there is no "
             "ratio but a psf (map or catalogue columns); the psf branch, "
             "interpreted over sample sizes, gives new^2 = old^2 - cat^2 + "
             "im^2 (arcsec / degrees converted with 3600 both ways), "
             "clipped at the image psf, so equal psfs change nothing")
    rs = prog.func("cluster.resize")
    # -- which branch ------------------------------------------------------
    top = [st for st in rs.node.body if isinstance(st, ast.If) and
           "ratio" in names_in(st.test)]
    if len(top) != 1:
        raise AnalysisError("%s: ratio test of resize" % rule)
    chain = top[0]
    bad = []
    psf_if = chain.orelse[0] if chain.orelse and isinstance(
        chain.orelse[0], ast.If) else None
    if psf_if is None:
        raise AnalysisError("%s: psf branch of resize" % rule)
    for ratio, helper, has in ((None, "H", True), (None, "H", False),
                               (None, None, True), (None, None, False),
                               (1, "H", True), (2.0, None, False)):
        env = {"ratio": ratio, "psfhelper": helper, "has_psf": has}
        try:
            first = bool(concrete.ev(chain.test, env))
            second = (not first) and bool(concrete.ev(psf_if.test, env))
        except concrete.Unknown as e:
            raise AnalysisError("%s: branch tests of resize: %s" % (rule, e))
        want = ("ratio" if ratio is not None else
                "psf" if (helper is not None or has) else "none")
        got = "ratio" if first else "psf" if second else "none"
        if got != want:
            bad.append((ratio, helper, has, got, want))
    ctx.check(rule, rs, "branch selection of resize over 6 cases", not bad,
              "(ratio, psfhelper, has_psf) = %s runs the %s branch, expected "
              "the %s branch" % ((bad[0][:3], bad[0][3], bad[0][4])
                                 if bad else ("", "", "")), node=chain)
    # -- the psf branch -------------------------------------------------------
    loops = [st for st in psf_if.body if isinstance(st, ast.For)]
    if len(loops) != 1:
        raise AnalysisError("%s: source loop of the psf branch" % rule)
    n = 0
    for ax in ("a", "b"):
        stmts = [st for st in loops[0].body
                 if isinstance(st, (ast.Assign, ast.If, ast.AugAssign)) and
                 any(isinstance(x, ast.Attribute) and x.attr == ax and
                     norm(x.value) == "src" and
                     isinstance(x.ctx, ast.Store) for x in ast.walk(st))]
        if not stmts:
            raise AnalysisError("%s: statements rescaling src.%s" % (rule,
                                                                     ax))
        badv = []
        for old, cat, im in ((30.0, 18.0, 21.6), (30.0, 18.0, 18.0),
                             (10.0, 18.0, 21.6), (45.0, 50.0, 20.0),
                             (20.0, 20.0, 20.0)):
            env = {"src." + ax: old, "catbeam." + ax: cat / 3600.0,
                   "imbeam." + ax: im / 3600.0,
                   "__funcs__": {f_.name: f_.node
                                 for f_ in prog.functions.values()
                                 if f_.module == rs.module and not f_.cls}}
            try:
                concrete.run(stmts, env)
            except concrete.Unknown as e:
                raise AnalysisError("%s: psf rescale of %s: %s" % (rule, ax,
                                                                   e))
            n += 1
            sq = old ** 2 - cat ** 2 + im ** 2
            want = sq ** 0.5 if sq >= 0 else im
            got = env.get("src." + ax)
            if not isinstance(got, (int, float)) or \
                    abs(got - want) > 1e-9 * max(1.0, abs(want)):
                badv.append((old, cat, im, got, want))
        ctx.check(rule, rs, "psf rescale of src.%s over 5 samples" % ax,
                  not badv, "a source of %s arcsec with catalogue psf %s and "
                  "image psf %s arcsec comes out as %s, expected %s" %
                  (badv[0] if badv else ("", "", "", "", "")),
                  node=stmts[0])
    ctx.floor(rule, n, 10, "psf rescale samples interpreted")


def rule_guarded_pixel(ctx, prog, rule="C05-R14"):
    """a catalogue position is tested against BOTH ends of both axes before
    it indexes the image: numpy raises IndexError only beyond the far end, a
    negative index silently wraps to the other side of the image"""
    from .. import concrete
    ctx.rule(rule, "off-image sources: every single-pixel look-up "
             "<image>[x, y] at a catalogue position in _refit_islands is "
             "reached only when 0 <= x < shape[0] and 0 <= y < shape[1] -- "
             "decided by interpreting the guarding tests at positions just "
             "outside each of the four edges (a try / except IndexError "
             "guards the far edges only: negative indices wrap)")
    fi = prog.func(RF)
    pm = {}
    for x_ in ast.walk(fi.node):
        for ch in ast.iter_child_nodes(x_):
            pm[ch] = x_
    look = [x_ for x_ in walk_no_nested(fi.node)
            if isinstance(x_, ast.Subscript) and
            isinstance(x_.ctx, ast.Load) and
            isinstance(x_.slice, ast.Tuple) and len(x_.slice.elts) == 2 and
            all(isinstance(e, ast.Name) for e in x_.slice.elts) and
            isinstance(x_.value, ast.Name)]
    n = 0
    for sub in look:
        ix, iy = (e.id for e in sub.slice.elts)
        # enclosing statement and the guards in front of it
        st = sub
        while st in pm and not isinstance(st, ast.stmt):
            st = pm[st]
        chain = []          # (test, indexing inside the test?)
        cur = st
        while cur in pm and cur is not fi.node:
            par = pm[cur]
            for fld in ("body", "orelse", "finalbody"):
                blk = getattr(par, fld, None)
                if isinstance(blk, list) and cur in blk:
                    for prev in blk[:blk.index(cur)]:
                        if isinstance(prev, ast.If) and prev.body and \
                                isinstance(prev.body[-1], (ast.Continue,
                                                           ast.Return,
                                                           ast.Raise,
                                                           ast.Break)):
                            chain.append(prev.test)
            if isinstance(par, ast.For) and (
                    ix in names_in(par.target) or iy in names_in(par.target)):
                break
            cur = par
        # the expression the look-up sits in: the test of an `if`, or the
        # value of an assignment (usable = 0 <= x < n and ... and
        # isfinite(data[x, y]): python's short-circuit decides)
        holder = None
        if isinstance(st, (ast.If, ast.While)) and any(
                x_ is sub for x_ in ast.walk(st.test)):
            holder = st.test
        elif isinstance(st, ast.Assign) and any(
                x_ is sub for x_ in ast.walk(st.value)):
            holder = st.value
        inside_test = holder is not None
        n += 1
        reached = []
        for (vx, vy) in ((-1, 5), (5, -1), (10, 5), (5, 10)):
            env = {ix: vx, iy: vy, "shape": [10, 10]}
            env["%s.shape" % sub.value.id] = [10, 10]
            stopped = False
            for t_ in chain:
                try:
                    if concrete.ev(t_, env):
                        stopped = True
                        break
                except concrete.Unknown:
                    continue
            if stopped:
                continue
            if inside_test:
                try:
                    concrete.ev(holder, env)
                    continue        # decided without touching the pixel
                except concrete.Unknown:
                    pass
            reached.append((vx, vy))
        ctx.check(rule, fi, "pixel look-up %s" % norm(sub), not reached,
                  "%s is evaluated for a position at (%s) of a 10 x 10 "
                  "image: beyond the low edge the index wraps to the far "
                  "side (no IndexError), so an off-image source is tested "
                  "on an unrelated pixel, accepted, and its empty cut-out "
                  "aborts the whole run" %
                  (norm(sub), ", ".join("%d,%d" % r for r in reached)),
                  node=sub)
    ctx.floor(rule, n, 2, "single-pixel look-ups in _refit_islands")


def rule_groupby(ctx, prog):
    from ..core import unsorted_groupby
    ctx.rule("C05-R13", "any row order: itertools.groupby (which merges only "
             "consecutive equal keys) is applied only to sequences sorted by "
             "the grouping key in the module source_finder -- otherwise rows of one island that are not adjacent in the input catalogue end up in different groups and are fitted without their neighbours")
    n = 0
    for q, fi in sorted(prog.functions.items()):
        if not fi.module.endswith("source_finder"):
            continue
        n += 1
        bad = unsorted_groupby(prog, fi)
        ctx.check("C05-R13", fi, "groupby inputs sorted in " + fi.short, not bad,
                  bad[0][1] if bad else "", node=bad[0][0] if bad else fi.node)
    ctx.floor("C05-R13", n, 5, "functions examined for groupby")
