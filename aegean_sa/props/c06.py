"""C06 -- BANE background/noise maps obey the estimator contract."""
from __future__ import annotations

import ast

from ..cfg import CFG, ENTRY, EXIT
from ..core import AnalysisError, kwarg, names_in, norm, walk_no_nested
from .c07 import shared_arrays

EXPLANATION = (
    "Static analysis of BANE.sigma_filter / sigmaclip / filter_image. R1 "
    "(offset-equivariance typing): grid statistics of pass 1 are means of "
    "the loaded block (type 'shifts with the image'), those of pass 2 are "
    "standard deviations and are shift-invariant only if every pixel that "
    "enters them has had the background subtracted: the in-place "
    "subtraction must cover the whole loaded block (own rows and halo), "
    "with background rows taken from the same row range the block was "
    "loaded from; a subtraction restricted to the stripe's own rows leaves "
    "the DC level in the halo rows, so adding a constant to the image "
    "changes the noise map. R2: both passes call the same clipping routine "
    "with equal, symmetric lo/hi; it returns mean and std of the clipped "
    "finite sample. R3: BSCALE is applied once on load and divided out "
    "once per map on write. R4: with masking on, both maps receive NaN at "
    "the non-finite pixels of the stripe's own rows after the last write of "
    "interpolated values. R5: the interpolation nodes span the evaluation "
    "grid (first node = first own row, last node = last own row + 1, "
    "columns 0..width) and the outputs have the header's (NAXIS2, NAXIS1). "
    "Statistical accuracy, range bounds and the blank-distance clause are "
    "not decided.")
ASSUMPTIONS = [
    "numpy mean/std semantics (std is translation invariant, mean "
    "equivariant); RegularGridInterpolator interpolates linearly",
]

MUTANTS = [
    ("block as wide as the image is high", "AegeanTools/BANE.py",
     "            data = a[0].section[data_row_min:data_row_max, 0:shape[1]]",
     "            data = a[0].section[data_row_min:data_row_max, 0:shape[0]]",
     "C06-R1"),
    ("astropy scales as well", "AegeanTools/BANE.py",
     "    with fits.open(filename, memmap=True, do_not_scale_image_data=True) as a:\n        if NAXIS == 2:",
     "    with fits.open(filename, memmap=True, do_not_scale_image_data=False) as a:\n        if NAXIS == 2:",
     "C06-R3"),
    ("box starts above its node", "AegeanTools/BANE.py",
     "        r_min = max(0, r - box_size[0] // 2)",
     "        r_min = max(0, r + box_size[0] // 2)", "C06-R13"),
    ("box ends left of its node", "AegeanTools/BANE.py",
     "        c_max = min(data.shape[1] - 1, c + box_size[1] // 2)",
     "        c_max = min(data.shape[1] - 1, c - box_size[1] // 2)",
     "C06-R13"),
    ("background added back", "AegeanTools/BANE.py",
     "    data -= ibkg[data_row_min:data_row_max, :]",
     "    data += ibkg[data_row_min:data_row_max, :]", "C06-R1"),
    ("clipping skipped when the spread is 'close to zero'",
     "AegeanTools/BANE.py",
     "    mean = np.mean(clipped)\n    prev_valid = len(clipped)\n",
     "    mean = np.mean(clipped)\n    if np.isclose(std, 0):\n"
     "        return mean, std\n    prev_valid = len(clipped)\n",
     "C06-R12"),
    ("absolute floor on the spread", "AegeanTools/BANE.py",
     "    mean = np.mean(clipped)\n    prev_valid = len(clipped)\n",
     "    mean = np.mean(clipped)\n    if std < 1e-9:\n"
     "        return mean, 0.0\n    prev_valid = len(clipped)\n",
     "C06-R12"),
    ("header cached by file name", "AegeanTools/BANE.py",
     "def sigmaclip(arr, lo, hi, reps=10):",
     "@lru_cache(maxsize=32)\ndef get_header(filename):\n"
     "    return fits.getheader(filename)\n\n\n"
     "def sigmaclip(arr, lo, hi, reps=10):", "C06-R11"),
    ("blank grid nodes enter the interpolation as zero", "AegeanTools/BANE.py",
     "    ifunc = RegularGridInterpolator((rows, cols), vals)",
     "    ifunc = RegularGridInterpolator((rows, cols), np.nan_to_num(vals))",
     "C06-R9"),
    ("subtract own rows only", "AegeanTools/BANE.py",
     "    data -= ibkg[data_row_min:data_row_max, :]\n",
     "    data[0 + ymin - data_row_min: data.shape[0] -\n"
     "         (data_row_max - ymax), :] -= ibkg[ymin:ymax, :]\n",
     "C06-R1"),
    ("wrong background rows", "AegeanTools/BANE.py",
     "    data -= ibkg[data_row_min:data_row_max, :]\n",
     "    data -= ibkg[0:data.shape[0], :]\n", "C06-R1"),
    ("asymmetric clip in pass 2", "AegeanTools/BANE.py",
     "            _, rms = sigmaclip(new, 3, 3)",
     "            _, rms = sigmaclip(new, 3, 5)", "C06-R2"),
    ("std of unclipped sample", "AegeanTools/BANE.py",
     "        std = np.std(clipped)\n        mean = np.mean(clipped)\n"
     "        prev_valid = curr_valid",
     "        std = np.std(arr)\n        mean = np.mean(clipped)\n"
     "        prev_valid = curr_valid", "C06-R2"),
    ("rms map from the mean", "AegeanTools/BANE.py",
     "            _, rms = sigmaclip(new, 3, 3)",
     "            rms, _ = sigmaclip(new, 3, 3)", "C06-R1"),
    ("bscale not removed from rms", "AegeanTools/BANE.py",
     "            write_fits(rms/bscale, header, rms_out)",
     "            write_fits(rms, header, rms_out)", "C06-R3"),
    ("mask from whole block", "AegeanTools/BANE.py",
     "        mask = ~np.isfinite(\n            data[0 + ymin - data_row_min"
     ": data.shape[0] -\n                 (data_row_max - ymax), :])",
     "        mask = ~np.isfinite(\n            data[0: ymax - ymin, :])",
     "C06-R4"),
    ("mask before rms write", "AegeanTools/BANE.py",
     "        ibkg[ymin:ymax, :][mask] = np.nan\n        irms[ymin:ymax, :]"
     "[mask] = np.nan\n",
     "        ibkg[ymin:ymax, :][mask] = np.nan\n", "C06-R4"),
    ("last node dropped", "AegeanTools/BANE.py",
     "    rows.append(ymax-data_row_min)\n", "", "C06-R5"),
    ("shape transposed", "AegeanTools/BANE.py",
     "    shape = (header['NAXIS2'], header['NAXIS1'])",
     "    shape = (header['NAXIS1'], header['NAXIS2'])", "C06-R5"),
    ("background rounded to float32 before the subtraction (seed C06c)",
     "AegeanTools/BANE.py",
     "interp_bkg = np.array(ifunc((gr, gc)), dtype=np.float64)",
     "interp_bkg = np.array(ifunc((gr, gc)), dtype=np.float32)", "C06-R6"),
    ("block kept in single precision", "AegeanTools/BANE.py",
     "    data = data.astype(np.float64)",
     "    data = data.astype(np.float32)", "C06-R6"),
    ("box height taken from the column extent", "AegeanTools/BANE.py",
     "        r_min = max(0, r - box_size[0] // 2)",
     "        r_min = max(0, r - box_size[1] // 2)", "C06-R7"),
    ("column bound clamped with the number of rows", "AegeanTools/BANE.py",
     "        c_max = min(data.shape[1] - 1, c + box_size[1] // 2)",
     "        c_max = min(data.shape[0] - 1, c + box_size[1] // 2)", "C06-R7"),
    ("BANE reads the wrong plane of a 4-d image", "AegeanTools/BANE.py",
     "                a[0].section[0, cube_index,",
     "                a[0].section[cube_index, 0,", "C06-R8"),
]
TWINS = [
    ("explicit full slice", "AegeanTools/BANE.py",
     "    data -= ibkg[data_row_min:data_row_max, :]\n",
     "    data[:, :] -= ibkg[data_row_min:data_row_max, :]\n"),
]


def _lin(prog, mod, e, own, lo, hi):
    """row expression as a sympy form over (ymin, ymax, row_lo, row_hi);
    data.shape[0] is row_hi - row_lo"""
    import sympy as sp
    from .. import sym
    Y0, Y1, L, H = sp.symbols("ymin ymax row_lo row_hi", integer=True)

    fnode = getattr(_lin, "fnode", None)

    class T(sym.Translator):
        def expr(self, n):
            if isinstance(n, ast.Subscript) and \
                    norm(n).replace(" ", "") == "data.shape[0]":
                return H - L
            if isinstance(n, ast.Name) and n.id not in self.env and \
                    fnode is not None:
                from .c08 import _resolve_local
                r = _resolve_local(fnode, n)
                if r is not n:
                    return self.expr(r)
            return super().expr(n)
    if e is None:
        return None
    try:
        return sp.expand(T(prog, mod, {own[0]: Y0, own[1]: Y1, lo: L,
                                       hi: H}).expr(e))
    except sym.Untranslatable:
        return None


def _own_rows(prog, mod, sub, own, lo, hi):
    """does the subscript select exactly the stripe's own rows (relative to
    the loaded block) and all columns?"""
    import sympy as sp
    Y0, Y1, L, H = sp.symbols("ymin ymax row_lo row_hi", integer=True)
    sl = sub.slice.elts if isinstance(sub.slice, ast.Tuple) else [sub.slice]
    if not isinstance(sl[0], ast.Slice):
        return False
    a = _lin(prog, mod, sl[0].lower, own, lo, hi) if sl[0].lower is not None \
        else sp.Integer(0)
    b = _lin(prog, mod, sl[0].upper, own, lo, hi)
    cols_all = len(sl) == 1 or (isinstance(sl[1], ast.Slice) and
                                sl[1].lower is None and sl[1].upper is None)
    return a is not None and b is not None and cols_all and \
        sp.expand(a - (Y0 - L)) == 0 and sp.expand(b - (Y1 - L)) == 0


def r13_window(ctx, rule="C06-R13"):
    """the sample behind every grid node"""
    from .. import concrete
    ctx.rule(rule, "the box of every grid node: the statements that turn a "
             "node (row, column) into the slice handed to the clipping "
             "routine are interpreted for nodes in the interior, on every "
             "edge and on the appended last node -- the slice is never "
             "empty, never starts below 0 and holds a pixel within half a "
             "box of the node (an empty sample makes the node NaN, and with "
             "it the maps of an image that has no blank pixel)")
    raw = ctx.raw_prog()
    sfn = raw.func("BANE.sigma_filter")
    helpers = {}
    sites = []
    for q_, f_ in sorted(raw.functions.items()):
        if f_.module != sfn.module:
            continue
        for n in ast.walk(f_.node):
            if isinstance(n, ast.FunctionDef):
                helpers.setdefault(n.name, n)
        if f_.short.split(".")[-1] == "sigmaclip":
            continue
        for loop in walk_no_nested(f_.node):
            if not isinstance(loop, ast.For) or any(
                    isinstance(x, ast.For) for b in loop.body
                    for x in ast.walk(b)):
                continue
            body = loop.body
            k = next((i for i, st in enumerate(body) if any(
                isinstance(c, ast.Call) and norm(c.func) == "sigmaclip"
                for c in ast.walk(st))), None)
            if k is None:
                continue
            sites.append((f_, loop, body[:k], body[k]))
    ctx.floor(rule, len(sites), 1, "statistics loops in BANE")
    H, W, bh, bw = 40, 50, 11, 13
    for host, loop, pre, stat in sites:
        tgt = loop.target
        if isinstance(tgt, ast.Tuple) and len(tgt.elts) == 2:
            cvar = norm(tgt.elts[1])
        else:
            cvar = norm(tgt)
        # the row variable is the target of the enclosing loop
        outer = next((l for l in ast.walk(host.node)
                      if isinstance(l, ast.For) and loop in l.body), None)
        # the block the slices are taken from
        arr = next((norm(x.value) for st_ in pre + [stat]
                    for x in ast.walk(st_) if isinstance(x, ast.Subscript)
                    and isinstance(x.slice, ast.Tuple) and
                    len(x.slice.elts) == 2 and
                    all(isinstance(e_, ast.Slice) for e_ in x.slice.elts)
                    and isinstance(x.value, ast.Name)), "data")
        if outer is None:
            ctx.unknown_site(rule, host, "statistics loop is not nested in a "
                             "row loop", node=loop)
            continue
        ot = outer.target
        rvar = norm(ot.elts[1]) if isinstance(ot, ast.Tuple) and \
            len(ot.elts) == 2 else norm(ot)
        # the slice: first argument of the clipping call, through the locals
        # of the loop body
        bad = []
        unk = None
        for r in (0, 3, 20, H - 1, H):
            for c in (0, 4, 25, W - 1, W):
                env = {rvar: r, cvar: c, "box_size": [bh, bw],
                       "data.shape": [H, W], "shape": [H, W],
                       arr + ".shape": [H, W]}
                sl = None
                try:
                    for st in pre:
                        if isinstance(st, ast.Assign) and \
                                isinstance(st.value, ast.Call) and \
                                isinstance(st.value.func, ast.Name) and \
                                st.value.func.id in helpers:
                            hn = helpers[st.value.func.id]
                            henv = dict(env)
                            for p_, a_ in zip([a.arg for a in hn.args.args],
                                              st.value.args):
                                henv[p_] = concrete.ev(a_, env)
                            out, _ = concrete.call(hn, henv)
                            t = st.targets[0]
                            if isinstance(t, ast.Tuple) and \
                                    isinstance(out, list) and \
                                    len(out) == len(t.elts):
                                for tt, vv in zip(t.elts, out):
                                    env[norm(tt)] = vv
                            else:
                                env[norm(t)] = out
                            continue
                        if isinstance(st, ast.Assign) and \
                                isinstance(st.value, ast.Subscript) and \
                                norm(st.value.value) == arr:
                            sl = st.value.slice
                            break
                        if isinstance(st, ast.Assign):
                            concrete.run([st], env)
                    if sl is None:
                        for x in ast.walk(stat):
                            if isinstance(x, ast.Subscript) and \
                                    norm(x.value) == arr:
                                sl = x.slice
                                break
                    if sl is None or not isinstance(sl, ast.Tuple) or \
                            len(sl.elts) != 2 or not all(
                                isinstance(e_, ast.Slice) for e_ in sl.elts):
                        unk = "slice of the block not found in the loop body"
                        break
                    win = []
                    for e_, n_ in zip(sl.elts, (H, W)):
                        lo = 0 if e_.lower is None else \
                            concrete.ev(e_.lower, env)
                        hi = n_ if e_.upper is None else \
                            concrete.ev(e_.upper, env)
                        win.append((lo, hi))
                except concrete.Unknown as e:
                    unk = str(e)
                    break
                for (lo, hi), node_, n_, b_, ax in (
                        (win[0], r, H, bh, "rows"),
                        (win[1], c, W, bw, "columns")):
                    if not (isinstance(lo, (int, float)) and
                            isinstance(hi, (int, float))):
                        unk = "non-numeric bound"
                        break
                    why = None
                    if lo != int(lo) or hi != int(hi):
                        why = "is not integral"
                    elif lo < 0:
                        why = "starts below 0 (wraps around)"
                    elif min(hi, n_) - lo < 1:
                        why = "is empty"
                    elif lo > node_ + b_ // 2 or \
                            min(hi, n_) - 1 < node_ - b_ // 2 - 1:
                        why = "holds no pixel within half a box of the node"
                    if why:
                        bad.append((r, c, ax, lo, hi, why))
            if unk:
                break
        if unk:
            ctx.unknown_site(rule, sfn, "box of a grid node not interpreted: "
                             + unk, node=loop)
            continue
        ctx.check(rule, sfn, "box of every grid node feeding " +
                  norm(stat, 50), not bad,
                  "for the node (row %s, column %s) of a %dx%d block with a "
                  "%dx%d box the %s slice %s:%s %s" %
                  ((bad[0][0], bad[0][1], H, W, bh, bw, bad[0][2], bad[0][3],
                    bad[0][4], bad[0][5]) if bad else (0,) * 10), node=stat)


def run(ctx):
    prog = ctx.prog
    sfn = prog.func("BANE.sigma_filter")
    _lin.fnode = sfn.node        # named row expressions are looked up here
    clip = prog.func("BANE.sigmaclip")
    fimg = prog.func("BANE.filter_image")
    arrays = shared_arrays(sfn)
    if len(arrays) != 2:
        raise AnalysisError("C06: shared output arrays not recognised")
    g = CFG(sfn.node)
    # ---- the loaded block and its row range ------------------------------
    loads = [s for s in walk_no_nested(sfn.node) if isinstance(s, ast.Assign)
             and norm(s.targets[0]) == "data" and ".section[" in
             norm(s.value)]
    load_values = [s.value for s in loads]
    if not loads:
        # the read may sit in a helper:  data = _read_rows(hdus, ..., lo, hi)
        import copy as _copy
        for s in walk_no_nested(sfn.node):
            if isinstance(s, ast.Assign) and norm(s.targets[0]) == "data" \
                    and isinstance(s.value, ast.Call) and \
                    isinstance(s.value.func, ast.Name):
                q = prog.resolve_name(prog.modules[sfn.module],
                                      s.value.func.id)
                h = prog.functions.get(q)
                if h is None or s.value.keywords or \
                        len(s.value.args) > len(h.params):
                    continue
                bind = dict(zip(h.params, s.value.args))

                class _Sub(ast.NodeTransformer):
                    def visit_Name(self, nd):
                        if nd.id in bind and isinstance(nd.ctx, ast.Load):
                            return _copy.deepcopy(bind[nd.id])
                        return nd
                for r in walk_no_nested(h.node):
                    if isinstance(r, ast.Return) and r.value is not None \
                            and ".section[" in norm(r.value):
                        load_values.append(ast.fix_missing_locations(
                            _Sub().visit(_copy.deepcopy(r.value))))
                if load_values:
                    loads.append(s)
    if not load_values:
        raise AnalysisError("C06: block load `data = ....section[...]` not "
                            "found")
    ranges = set()
    colspecs = []
    for s_val in load_values:
        for x in ast.walk(s_val):
            if isinstance(x, ast.Subscript) and norm(x.value).endswith(
                    ".section"):
                sl = x.slice.elts if isinstance(x.slice, ast.Tuple) \
                    else [x.slice]
                rows = sl[-2]
                ranges.add((norm(rows.lower), norm(rows.upper)))
                colspecs.append((x, sl[-1]))
    if len(ranges) != 1:
        raise AnalysisError("C06: load row ranges differ: %s" % ranges)
    lo, hi = ranges.pop()
    own = None
    for s in walk_no_nested(sfn.node):
        if isinstance(s, ast.Assign) and isinstance(s.targets[0], ast.Tuple) \
                and isinstance(s.value, ast.Name) and \
                s.value.id in sfn.params and len(s.targets[0].elts) == 2:
            own = tuple(norm(e) for e in s.targets[0].elts)
    if own is None:
        raise AnalysisError("C06: own row bounds not found")
    # ---------------------------------------------------------------- R1
    ctx.rule("C06-R1", "every pixel entering the pass-2 statistics has had "
             "the background of its own row subtracted (whole loaded block "
             "minus background[%s:%s]); pass 1 stores the clipped mean, "
             "pass 2 the clipped std" % (lo, hi))
    from ..core import expand_locals as _xl
    for x_, cs in colspecs:
        up = None if not isinstance(cs, ast.Slice) or cs.upper is None \
            else norm(_xl(sfn.node, cs.upper))
        okc = isinstance(cs, ast.Slice) and cs.step is None and \
            (cs.lower is None or norm(cs.lower) == "0") and \
            (up is None or up in ("shape[1]", "shape[-1]"))
        ctx.check("C06-R1", sfn, "the block holds every column: " +
                  norm(x_, 70), okc,
                  "the columns read are `%s`, not 0:shape[1]: the block is "
                  "narrower (or, for a non-square image, differently shaped) "
                  "than the rows of the shared maps it is combined with" %
                  norm(cs), node=x_)

    def _on_data(t):
        return norm(t) == "data" or (isinstance(t, ast.Subscript) and
                                     norm(t.value) == "data")

    def _mentions_shared(e):
        return any(isinstance(x, ast.Name) and x.id in arrays
                   for x in ast.walk(e))
    subs = []
    for n, s in g.stmt.items():
        if g.kind[n] != "stmt":
            continue
        if isinstance(s, ast.Assign) and len(s.targets) == 1 and \
                _on_data(s.targets[0]) and isinstance(s.value, ast.BinOp) \
                and norm(s.value.left) == norm(s.targets[0]) and \
                _mentions_shared(s.value.right):
            # data = data - bkg[...]: the same as the in-place form
            aug = ast.AugAssign(target=s.targets[0], op=s.value.op,
                                value=s.value.right)
            ast.copy_location(aug, s)
            s = aug
        if isinstance(s, ast.AugAssign) and _on_data(s.target) and \
                (isinstance(s.op, ast.Sub) or _mentions_shared(s.value)):
            subs.append((n, s))
    for n, s in subs:
        ctx.check("C06-R1", sfn, "the background is SUBTRACTED: " +
                  norm(s, 80), isinstance(s.op, ast.Sub),
                  "the interpolated background is combined with the loaded "
                  "block by `%s`, not subtracted: the pass-2 statistics see "
                  "the DC level, so adding a constant to the image changes "
                  "the noise map" % type(s.op).__name__, node=s)
    if len(subs) != 1:
        raise AnalysisError("C06-R1: expected one in-place background "
                            "subtraction on the loaded block, found %d" %
                            len(subs))
    sn, sub = subs[0]
    tgt = sub.target
    full = isinstance(tgt, ast.Name)
    if isinstance(tgt, ast.Subscript):
        sl = tgt.slice.elts if isinstance(tgt.slice, ast.Tuple) else \
            [tgt.slice]
        r = sl[0]
        full = isinstance(r, ast.Slice) and (
            (r.lower is None or norm(r.lower) == "0") and
            (r.upper is None or norm(r.upper) == "data.shape[0]"))
    val = sub.value
    bkg_name = None
    vrows = None
    if isinstance(val, ast.Subscript) and norm(val.value) in arrays:
        bkg_name = norm(val.value)
        sl = val.slice.elts if isinstance(val.slice, ast.Tuple) \
            else [val.slice]
        if isinstance(sl[0], ast.Slice):
            vrows = (norm(sl[0].lower) if sl[0].lower else None,
                     norm(sl[0].upper) if sl[0].upper else None)
    ctx.check("C06-R1", sfn, "background subtraction " + norm(sub, 90),
              full and vrows == (lo, hi),
              "only part of the loaded block is background-subtracted "
              "(target rows %s, background rows %s; the block was loaded "
              "from rows %s:%s): the halo rows keep the DC level, so the "
              "pass-2 boxes near a stripe boundary mix subtracted and "
              "unsubtracted pixels and the noise map changes when a "
              "constant is added to the image" %
              ("all" if full else norm(tgt.slice, 60) if
               isinstance(tgt, ast.Subscript) else "?", vrows, lo, hi),
              {"target_full": full, "background_rows": vrows,
               "loaded_rows": (lo, hi)}, sub)
    # pass 1 / pass 2 statistic stores
    stat = []
    calls_of = {}
    for n, s in g.stmt.items():
        if g.kind[n] != "stmt" or not isinstance(s, ast.Assign):
            continue
        if isinstance(s.value, ast.Call) and \
                norm(s.value.func) == clip.name and \
                isinstance(s.targets[0], ast.Tuple):
            # mean, _ = sigmaclip(...)
            which = [i for i, e in enumerate(s.targets[0].elts)
                     if norm(e) != "_"]
            stat.append((n, s, which))
            calls_of[n] = s.value
        elif isinstance(s.value, ast.Subscript) and \
                isinstance(s.value.value, ast.Call) and \
                norm(s.value.value.func) == clip.name and \
                isinstance(s.value.slice, ast.Constant) and \
                isinstance(s.value.slice.value, int):
            # vals[i, j] = sigmaclip(...)[k]
            stat.append((n, s, [s.value.slice.value % 2]))
            calls_of[n] = s.value.value
        elif isinstance(s.value, ast.Call) and \
                norm(s.value.func) == clip.name and \
                isinstance(s.targets[0], ast.Name):
            # stats = sigmaclip(...);  ... = stats[k]
            nm = s.targets[0].id
            ks = sorted({x.slice.value % 2 for x in ast.walk(sfn.node)
                         if isinstance(x, ast.Subscript) and
                         isinstance(x.value, ast.Name) and x.value.id == nm
                         and isinstance(x.slice, ast.Constant) and
                         isinstance(x.slice.value, int)})
            stat.append((n, s, ks))
            calls_of[n] = s.value
    if len(stat) != 2:
        raise AnalysisError("C06-R1: expected two sigmaclip call sites")
    # order of execution: the one that can run before the subtraction first
    stat.sort(key=lambda t: (g.dominates(sn, t[0]), t[1].lineno))
    (n1, s1, w1), (n2, s2, w2) = stat
    ctx.check("C06-R1", sfn, "pass 1 keeps the mean: " + norm(s1), w1 == [0]
              and g.path_avoiding(ENTRY, n1, [sn]) is not None and
              not g.dominates(sn, n1),
              "the background grid must be the clipped mean of the "
              "un-subtracted block", node=s1)
    ctx.check("C06-R1", sfn, "pass 2 keeps the std: " + norm(s2), w2 == [1]
              and g.dominates(sn, n2),
              "the noise grid must be the clipped std computed after the "
              "background subtraction", node=s2)
    # grid values flow to the right shared array
    for (n, s, w), arr_role in ((stat[0], "bkg"), (stat[1], "rms")):
        pass
    # ---------------------------------------------------------------- R2
    ctx.rule("C06-R2", "clipping: same routine, lo == hi, equal in both "
             "passes; returns (mean, std) of the clipped finite sample")
    a1 = [norm(a) for a in calls_of[n1].args[1:3]]
    a2 = [norm(a) for a in calls_of[n2].args[1:3]]
    ctx.check("C06-R2", sfn, "clip levels pass1=%s pass2=%s" % (a1, a2),
              a1 == a2 and len(a1) == 2 and a1[0] == a1[1],
              "both passes must clip symmetrically at the same level",
              node=s2)
    fin = [s for s in clip.node.body if isinstance(s, ast.Assign) and
           "isfinite" in norm(s.value)]
    ctx.check("C06-R2", clip, "non-finite values removed first",
              len(fin) == 1 and fin[0] is [s for s in clip.node.body
                                           if isinstance(s, ast.Assign)][0],
              "the sample must be restricted to finite values before any "
              "statistic", node=fin[0] if fin else clip.node)
    cname = norm(fin[0].targets[0]) if fin else "clipped"
    # NaN is returned only for an EMPTY finite sample: a single finite value
    # has mean = value and std = 0 (boxes of one pixel occur at the image
    # corner for the smallest allowed box sizes)
    nanrets = []
    pmc = {}
    for x in ast.walk(clip.node):
        for ch in ast.iter_child_nodes(x):
            pmc[ch] = x
    for s_ in walk_no_nested(clip.node):
        if isinstance(s_, ast.Return) and isinstance(s_.value, ast.Tuple) \
                and [norm(e) for e in s_.value.elts] == ["np.nan", "np.nan"]:
            g_ = pmc.get(s_)
            nanrets.append((s_, g_.test if isinstance(g_, ast.If) else None))
    for s_, t_ in nanrets:
        ok_empty = False
        if t_ is not None:
            tt = norm(t_).replace(" ", "")
            ok_empty = tt in ("len(%s)<1" % cname, "len(%s)==0" % cname,
                              "notlen(%s)" % cname, "%s.size==0" % cname,
                              "%s.size<1" % cname)
        ctx.check("C06-R2", clip, "NaN only for an empty sample: if %s" %
                  (norm(t_) if t_ is not None else "?"), ok_empty,
                  "sigmaclip returns NaN although the sample may hold finite "
                  "values: a one-pixel box (image corner, box size 4-5) "
                  "yields a NaN grid node and a NaN patch in both maps of an "
                  "image without blank pixels", node=s_)
    stats_ok = True
    nstats = 0
    for s in walk_no_nested(clip.node):
        if isinstance(s, ast.Assign) and norm(s.targets[0]) in ("std",
                                                                "mean"):
            nstats += 1
            want = "np.%s(%s)" % (norm(s.targets[0]), cname)
            if norm(s.value).replace(" ", "") != want:
                stats_ok = False
                ctx.check("C06-R2", clip, "statistic " + norm(s), False,
                          "%s must be computed from the clipped sample `%s`"
                          % (norm(s.targets[0]), cname), node=s)
    if stats_ok:
        ctx.ob("C06-R2", clip, "%d mean/std assignments use the clipped "
               "sample" % nstats, True, {}, clip.node)
    ret = [s for s in walk_no_nested(clip.node) if isinstance(s, ast.Return)
           and isinstance(s.value, ast.Tuple)]
    ctx.check("C06-R2", clip, "returns (mean, std)", bool(ret) and all(
        [norm(e) for e in s.value.elts] in (["mean", "std"],
                                            ["np.nan", "np.nan"])
        for s in ret), "sigmaclip must return (mean, std)",
        node=ret[0] if ret else clip.node)
    # the selection  clipped[<window>]  inside the loop: the window is the
    # conjunction of  v > mean - lo*std  and  v < mean + hi*std  (symbolic
    # comparison; the bounds and the mask may or may not be named)
    import sympy as sp
    from .. import sym as _sym
    from .c08 import _resolve_local as _rl
    sel = []
    for s_ in walk_no_nested(clip.node):
        if isinstance(s_, ast.Assign) and norm(s_.targets[0]) == cname and \
                isinstance(s_.value, ast.Subscript) and \
                norm(s_.value.value) == cname:
            sel.append(s_)
    okm = False
    why = "selection %s[...] not found" % cname
    if len(sel) == 1:
        w = sel[0].value.slice
        for _ in range(3):
            if isinstance(w, ast.Name):
                w = _rl(clip.node, w)
        parts = None
        if isinstance(w, ast.BinOp) and isinstance(w.op, ast.BitAnd):
            parts = [w.left, w.right]
        elif isinstance(w, ast.Call) and norm(w.func) in (
                "np.logical_and", "numpy.logical_and") and len(w.args) == 2:
            parts = list(w.args)
        lo_b = hi_b = None
        strict = True
        if parts and all(isinstance(p_, ast.Compare) and len(p_.ops) == 1
                         for p_ in parts):
            for p_ in parts:
                l_, op, r_ = p_.left, p_.ops[0], p_.comparators[0]
                if norm(r_) == cname:        # bound OP v  ->  v OP' bound
                    l_, r_ = r_, l_
                    op = {ast.Lt: ast.Gt, ast.Gt: ast.Lt, ast.LtE: ast.GtE,
                          ast.GtE: ast.LtE}.get(type(op), type(op))()
                if norm(l_) != cname:
                    continue
                if isinstance(op, (ast.Gt, ast.GtE)):
                    lo_b = r_
                elif isinstance(op, (ast.Lt, ast.LtE)):
                    hi_b = r_
                if isinstance(op, (ast.GtE, ast.LtE)):
                    strict = False
        if lo_b is not None and hi_b is not None:
            M, S, LO, HI = sp.symbols("mean std lo hi", real=True)
            tr = _sym.Translator(prog, prog.modules[clip.module],
                                 {"mean": M, "std": S, "lo": LO, "hi": HI},
                                 free_symbols=True)
            try:
                def tx(e):
                    for _ in range(3):
                        if isinstance(e, ast.Name) and e.id not in tr.env:
                            e = _rl(clip.node, e)
                    return tr.expr(e)
                dl = sp.simplify(tx(lo_b) - (M - LO * S))
                dh = sp.simplify(tx(hi_b) - (M + HI * S))
                okm = dl == 0 and dh == 0 and strict
                why = "lower bound %s, upper bound %s%s" % (
                    norm(lo_b), norm(hi_b), "" if strict else
                    " (non-strict comparison)")
            except _sym.Untranslatable as e:
                why = "bounds not translatable: %s" % e
        else:
            why = "window %s is not a conjunction of a lower and an upper " \
                "comparison of %s" % (norm(w, 80), cname)
    ctx.check("C06-R2", clip, "clip window", okm,
              "values are kept iff mean - lo*std < v < mean + hi*std; " + why,
              node=sel[0] if sel else clip.node)
    # ---------------------------------------------------------------- R3
    ctx.rule("C06-R3", "BSCALE applied once on load, divided out once per "
             "map on write")
    mul = [s for s in walk_no_nested(sfn.node) if isinstance(s, ast.AugAssign)
           and isinstance(s.op, ast.Mult) and norm(s.target) == "data" and
           "BSCALE" in norm(s.value)]
    ctx.check("C06-R3", sfn, "data *= BSCALE on load", len(mul) == 1,
              "the memmapped raw values must be scaled exactly once",
              node=mul[0] if mul else sfn.node)
    if mul:
        # ... so the file must be opened with the values left raw: astropy
        # scales on read otherwise and the manual scaling is a second one
        opens = [c for c in walk_no_nested(sfn.node) if isinstance(c, ast.Call)
                 and norm(c.func).endswith("fits.open")]
        for c in opens:
            rawk = [k for k in c.keywords
                    if k.arg == "do_not_scale_image_data"]
            ctx.check("C06-R3", sfn, "values read raw: " + norm(c, 70),
                      bool(rawk) and isinstance(rawk[0].value, ast.Constant)
                      and rawk[0].value.value is True,
                      "the worker multiplies the block by BSCALE itself, but "
                      "this fits.open lets astropy scale the values on read "
                      "as well: BSCALE is applied twice and a constant image "
                      "no longer gives background = that constant", node=c)
    outs = [c for c in walk_no_nested(fimg.node) if isinstance(c, ast.Call)
            and (norm(c.func) in ("write_fits", "fits.PrimaryHDU") or
                 False)]
    data_args = []
    for c in walk_no_nested(fimg.node):
        if isinstance(c, ast.Call) and norm(c.func) in ("write_fits",
                                                        "fits.PrimaryHDU") \
                and c.args:
            data_args.append(c.args[0])
    for s in walk_no_nested(fimg.node):
        if isinstance(s, ast.Assign) and norm(s.targets[0]).endswith(".data"):
            data_args.append(s.value)
    okb = bool(data_args) and all(
        isinstance(a, ast.BinOp) and isinstance(a.op, ast.Div) and
        norm(a.right) == "bscale" and norm(a.left) in ("bkg", "rms")
        for a in data_args)
    ctx.check("C06-R3", fimg, "written maps %s" % [norm(a) for a in
                                                  data_args], okb and
              len(data_args) == 4,
              "every map written to disk must be bkg/bscale or rms/bscale "
              "(astropy re-applies BSCALE on reading)", node=fimg.node)
    # ---------------------------------------------------------------- R4
    ctx.rule("C06-R4", "mask: NaN at ~isfinite(own rows of the data) in "
             "both maps, after the last interpolated write, only under "
             "domask")
    # the mask is the index of the NaN stores into the shared maps
    MASK = None
    for s_ in walk_no_nested(sfn.node):
        if isinstance(s_, ast.Assign) and \
                norm(s_.value) in ("np.nan", "numpy.nan") and \
                isinstance(s_.targets[0], ast.Subscript) and \
                isinstance(s_.targets[0].slice, ast.Name):
            b_ = s_.targets[0].value
            while isinstance(b_, ast.Subscript):
                b_ = b_.value
            if norm(b_) in arrays:
                MASK = s_.targets[0].slice.id
    mdef = [(n, s) for n, s in g.stmt.items() if g.kind[n] == "stmt" and
            isinstance(s, ast.Assign) and MASK is not None and
            norm(s.targets[0]) == MASK]
    if len(mdef) != 1:
        raise AnalysisError("C06-R4: mask definition not found")
    mn, ms = mdef[0]
    mod = prog.modules[sfn.module]
    mv = ms.value
    inner = None
    if isinstance(mv, ast.UnaryOp) and isinstance(mv.op, ast.Invert):
        inner = mv.operand
    elif isinstance(mv, ast.Call) and norm(mv.func) in (
            "np.logical_not", "np.bitwise_not") and mv.args:
        inner = mv.args[0]
    okmask = isinstance(inner, ast.Call) and \
        norm(inner.func) in ("np.isfinite", "numpy.isfinite") and \
        inner.args and isinstance(inner.args[0], ast.Subscript) and \
        norm(inner.args[0].value) == "data" and \
        _own_rows(prog, mod, inner.args[0], own, lo, hi)
    ctx.check("C06-R4", sfn, "mask = " + norm(ms.value, 80), okmask,
              "the mask must be the non-finite pixels of the stripe's own "
              "rows of the loaded block", node=ms)
    writes = {a: [] for a in arrays}
    nanw = {a: [] for a in arrays}
    for n, s in g.stmt.items():
        if g.kind[n] != "stmt" or not isinstance(s, ast.Assign):
            continue
        t = s.targets[0]
        if isinstance(t, ast.Subscript):
            base = t
            while isinstance(base, ast.Subscript):
                base = base.value
            if norm(base) in arrays:
                if norm(s.value) in ("np.nan", "numpy.nan"):
                    nanw[norm(base)].append((n, s))
                else:
                    writes[norm(base)].append((n, s))
    pm = {}
    for x in ast.walk(sfn.node):
        for ch in ast.iter_child_nodes(x):
            pm[ch] = x
    for a in arrays:
        ok = len(nanw[a]) == 1 and len(writes[a]) == 1
        if ok:
            nn, ns = nanw[a][0]
            wn, ws = writes[a][0]
            t = ns.targets[0]
            ok = g.dominates(wn, nn) and g.dominates(mn, nn) and \
                norm(t.slice) == MASK and \
                norm(t.value).replace(" ", "") == "%s[%s:%s,:]" % (
                    a, own[0], own[1])
            par = pm.get(ns)
            ok = ok and isinstance(par, ast.If) and \
                norm(par.test) == "domask"
        ctx.check("C06-R4", sfn, "NaN mask applied to " + a, ok,
                  "map `%s` must receive NaN at [own rows][mask] after its "
                  "interpolated values were written, under `if domask`" % a,
                  node=nanw[a][0][1] if nanw[a] else sfn.node)
    # ---------------------------------------------------------------- R5
    ctx.rule("C06-R5", "interpolation nodes span the evaluation grid; "
             "outputs have shape (NAXIS2, NAXIS1)")
    rdef = [s for s in walk_no_nested(sfn.node) if isinstance(s, ast.Assign)
            and norm(s.targets[0]) in ("rows", "cols")]

    def node_list(name):
        """(start, stop, step, last) of  list(range(start, stop, step))
        followed by .append(last), or  list(range(...)) + [last]"""
        dfs = [s for s in rdef if norm(s.targets[0]) == name]
        if len(dfs) != 1:
            return None
        v = dfs[0].value
        last = None
        if isinstance(v, ast.BinOp) and isinstance(v.op, ast.Add) and \
                isinstance(v.right, ast.List) and len(v.right.elts) == 1:
            last = v.right.elts[0]
            v = v.left
        if isinstance(v, ast.Call) and norm(v.func) == "list" and v.args:
            v = v.args[0]
        if not (isinstance(v, ast.Call) and norm(v.func) == "range" and
                len(v.args) == 3):
            return None
        ap = [c for c in walk_no_nested(sfn.node) if isinstance(c, ast.Call)
              and isinstance(c.func, ast.Attribute) and
              c.func.attr == "append" and norm(c.func.value) == name and
              c.args]
        if last is None and len(ap) == 1:
            last = ap[0].args[0]
        elif ap:
            return None
        if last is None:
            return None
        return v.args[0], v.args[1], v.args[2], last
    import sympy as sp
    Y0, Y1, L, H = sp.symbols("ymin ymax row_lo row_hi", integer=True)
    okr = False
    rn = node_list("rows")
    if rn is not None:
        a = _lin(prog, mod, rn[0], own, lo, hi)
        b = _lin(prog, mod, rn[1], own, lo, hi)
        c = _lin(prog, mod, rn[3], own, lo, hi)
        okr = None not in (a, b, c) and sp.expand(a - (Y0 - L)) == 0 \
            and sp.expand(b - (Y1 - L)) == 0 and \
            sp.expand(c - (Y1 - L)) == 0 and \
            norm(rn[2]) == "step_size[0]"
    cn = node_list("cols")
    okc = cn is not None and [norm(x).replace(" ", "") for x in cn] == [
        "0", "shape[1]", "step_size[1]", "shape[1]"]
    ctx.check("C06-R5", sfn, "row nodes %s" %
              ([norm(x) for x in rn] if rn else None), okr,
              "row nodes must start at the first own row and end with the "
              "node %s-%s so that every own row lies inside the hull" %
              (own[1], lo), node=rdef[0] if rdef else sfn.node)
    ctx.check("C06-R5", sfn, "column nodes %s" %
              ([norm(x) for x in cn] if cn else None),
              okc, "column nodes must span 0..shape[1]",
              node=rdef[-1] if rdef else sfn.node)
    grid = [s for s in walk_no_nested(sfn.node) if isinstance(s, ast.Assign)
            and isinstance(s.value, ast.Subscript) and
            norm(s.value.value) in ("np.mgrid", "numpy.mgrid")]
    okg = False
    if len(grid) == 1 and isinstance(grid[0].value.slice, ast.Tuple) and \
            len(grid[0].value.slice.elts) == 2 and all(
                isinstance(e, ast.Slice) for e in grid[0].value.slice.elts):
        rs, cs = grid[0].value.slice.elts
        ga = _lin(prog, mod, rs.lower, own, lo, hi) if rs.lower is not None \
            else sp.Integer(0)
        gb = _lin(prog, mod, rs.upper, own, lo, hi)
        okg = ga is not None and gb is not None and \
            sp.expand(ga - (Y0 - L)) == 0 and \
            sp.expand(gb - (Y1 - L)) == 0 and \
            (cs.lower is None or norm(cs.lower) == "0") and \
            cs.upper is not None and \
            norm(cs.upper).replace(" ", "") == "shape[1]" and \
            rs.step is None and cs.step is None
    ctx.check("C06-R5", sfn, "evaluation grid", okg,
              "the maps must be evaluated on the stripe's own rows and all "
              "columns", node=grid[0] if grid else sfn.node)
    shp = [s for s in walk_no_nested(fimg.node) if isinstance(s, ast.Assign)
           and norm(s.targets[0]) == "shape"]
    ctx.check("C06-R5", fimg, "shape = (NAXIS2, NAXIS1)", len(shp) == 1 and
              norm(shp[0].value).replace(" ", "") ==
              "(header['NAXIS2'],header['NAXIS1'])",
              "numpy arrays are (rows=NAXIS2, columns=NAXIS1)",
              node=shp[0] if shp else fimg.node)
    r6_precision(ctx, prog)
    from ..precision import nan_replaced
    ctx.rule("C06-R9", "blank stays blank inside the estimator: in "
             "sigma_filter / sigmaclip no NaN is turned into a number "
             "(nan_to_num, where(isnan, 0, x), x[isnan] = 0) -- a grid node "
             "without finite pixels must not enter the interpolation as 0, "
             "or the background next to a blank block is dragged towards 0 "
             "(constant image -> constant, background within the range of "
             "the finite pixels)")
    n9 = 0
    for short in ("BANE.sigma_filter", "BANE.sigmaclip", "BANE._sf2"):
        if not prog.has_func(short):
            continue
        fi9 = prog.func(short)
        n9 += 1
        rep = nan_replaced(prog, fi9)
        ctx.check("C06-R9", fi9, "no NaN replaced by a number in " + short,
                  not rep, "%s: %s" % (rep[0][1] if rep else "",
                                       norm(rep[0][0], 70) if rep else ""),
                  node=rep[0][0] if rep else fi9.node)
    ctx.floor("C06-R9", n9, 2, "estimator functions examined")
    from .. import homog
    ctx.rule("C06-R12", "scale equivariance of the estimator: in sigmaclip "
             "and sigma_filter every comparison is between quantities of the "
             "same degree in the pixel values and no tolerance test has an "
             "absolute part (np.isclose(std, 0), std < 1e-8 ...): otherwise "
             "a faint image and the same image times k are clipped "
             "differently and the maps do not scale by k, |k|")
    n12 = 0
    for short, seeds in (("BANE.sigmaclip", None),
                         ("BANE.sigma_filter", {"data": 1})):
        fi12 = prog.func(short)
        if seeds is None:
            seeds = {fi12.params[0]: 1}
            seeds.update({p_: 0 for p_ in fi12.params[1:]})
        env12, bad12 = homog.analyse(fi12.node, seeds)
        cmp12 = [x for x in walk_no_nested(fi12.node)
                 if isinstance(x, ast.Compare)]
        n12 += len(cmp12)
        ctx.check("C06-R12", fi12, "%d comparisons homogeneous in %s" %
                  (len(cmp12), short), not bad12,
                  bad12[0][1] if bad12 else "",
                  {"degree 1 names": sorted(k for k, v in env12.items()
                                            if v == 1)},
                  node=bad12[0][0] if bad12 else fi12.node)
    ctx.floor("C06-R12", n12, 6, "comparisons examined")
    r13_window(ctx)
    from .. import link as _link
    n10 = _link.argument_binding(ctx, "C06-R10", modules=["BANE"],
                                 what="BANE: step / box sizes, shapes, "
                                 "regions")
    ctx.floor("C06-R10", n10, 3, "internal calls in BANE")
    from ..core import shared_state
    ctx.rule("C06-R11", "the maps depend on the file's current content only: "
             "no function of BANE memoises what it read (lru_cache, "
             "module-level or default-argument containers) -- a header "
             "cached by file name in the parent is inherited by the forked "
             "workers and applied to a rewritten file (stale BSCALE / "
             "shape).  The `global` names that hand the barrier and the "
             "memory id to the workers are process plumbing, not data")
    n11 = 0
    for q, f11 in sorted(prog.functions.items()):
        if not f11.module.endswith("BANE") or "CLI" in f11.module:
            continue
        n11 += 1
        st = shared_state(prog, f11, globals_ok=True)
        ctx.check("C06-R11", f11, "%s keeps no data between calls" %
                  f11.short, not st, "; ".join(d for _, d in st[:3]),
                  node=st[0][0] if st else f11.node)
    ctx.floor("C06-R11", n11, 5, "functions of BANE")
    from .c20 import r5_planes
    r5_planes(ctx, prog, rule="C06-R8")
    # ---------------------------------------------------------------- R7
    ctx.rule("C06-R7", "axis discipline of the estimator: row quantities "
             "(stripe bounds, box height, grid step along rows) and column "
             "quantities are never mixed in sigma_filter")
    from .. import unitrules as _ur
    _ur.apply(ctx, "C06-R7", {"BANE.sigma_filter"}, kinds=set(),
              report_rules={"idx-slice-axis", "idx-crossed"},
              what="axis-typed expressions in sigma_filter", floor=None)



NARROW = {"numpy.float32", "numpy.float16", "numpy.half", "numpy.single"}
NARROW_STR = {"f4", "<f4", ">f4", "float32", "f2", "float16", "e", "f",
              "single", "half"}
WIDE = {"numpy.float64", "numpy.double", "float", "numpy.longdouble",
        "numpy.float128"}


def r6_precision(ctx, prog):
    """everything between the load and the final cast is double precision"""
    ctx.rule("C06-R6", "precision: the worker computes, stores and subtracts "
             "in float64 -- no narrower dtype appears in sigma_filter / "
             "sigmaclip; the shared buffers are float64 in worker and parent; "
             "the only narrowing is the final cast of the returned maps "
             "(a background rounded to float32 before it is subtracted "
             "turns a large DC level into saw-tooth noise)")
    parent = prog.func("BANE.filter_mc_sharemem")
    n = 0

    def narrow_uses(fi):
        mod = prog.modules[fi.module]
        out = []
        for x in ast.walk(fi.node):
            if isinstance(x, (ast.Attribute, ast.Name)):
                d = prog.dotted(mod, x) if isinstance(x, ast.Attribute) \
                    else prog.resolve_name(mod, x.id)
                if d in NARROW:
                    out.append(x)
            if isinstance(x, ast.Call):
                for k in x.keywords:
                    if k.arg == "dtype" and isinstance(k.value, ast.Constant)\
                            and k.value.value in NARROW_STR:
                        out.append(k.value)
                if isinstance(x.func, ast.Attribute) and \
                        x.func.attr == "astype" and x.args and \
                        isinstance(x.args[0], ast.Constant) and \
                        x.args[0].value in NARROW_STR:
                    out.append(x.args[0])
        return out
    for short in ("BANE.sigma_filter", "BANE.sigmaclip", "BANE._sf2"):
        if not prog.has_func(short):
            continue
        fi = prog.func(short)
        uses = narrow_uses(fi)
        n += 1
        ctx.check("C06-R6", fi, "no narrow float dtype in " + short,
                  not uses, "a dtype narrower than float64 is used in the "
                  "worker (%s): intermediate maps lose the digits a large "
                  "background level needs" %
                  [norm(_stmt_of(fi.node, u), 70) for u in uses[:3]],
                  node=uses[0] if uses else fi.node)
    # shared buffers
    for fi in (prog.func("BANE.sigma_filter"), parent):
        mod = prog.modules[fi.module]
        for c in ast.walk(fi.node):
            if isinstance(c, ast.Call) and prog.dotted(mod, c.func) == \
                    "numpy.ndarray" and kwarg(c, "buffer") is not None:
                dt = kwarg(c, "dtype")
                d = prog.dotted(mod, dt) if isinstance(
                    dt, ast.Attribute) else (norm(dt) if dt is not None
                                             else None)
                n += 1
                ctx.check("C06-R6", fi, "shared buffer dtype " + norm(c, 60),
                          d in WIDE, "the shared maps must be float64 views "
                          "(found dtype %s)" % d, node=c)
    # the parent narrows only in the statements that build the returned maps
    rets = [s_ for s_ in walk_no_nested(parent.node)
            if isinstance(s_, ast.Return) and s_.value is not None]
    returned = set()
    for r in rets:
        returned |= names_in(r.value)
    for u in narrow_uses(parent):
        st = _stmt_of(parent.node, u)
        ok = isinstance(st, ast.Assign) and len(st.targets) == 1 and \
            norm(st.targets[0]) in returned and \
            isinstance(st.value, ast.Call) and \
            isinstance(st.value.func, ast.Attribute) and \
            st.value.func.attr == "astype"
        n += 1
        ctx.check("C06-R6", parent, "narrowing " + norm(st, 70), ok,
                  "float32 may only appear as the final cast of a returned "
                  "map", node=st)
    nb = [s_ for s_ in walk_no_nested(parent.node) if isinstance(s_, ast.Assign)
          and norm(s_.targets[0]) == "nbytes"]
    if nb:
        n += 1
        txt = norm(nb[0].value)
        ctx.check("C06-R6", parent, "segment size " + txt,
                  "float64" in txt or "* 8" in txt or "8 *" in txt,
                  "the shared segments must hold float64 values", node=nb[0])
    ctx.floor("C06-R6", n, 6, "dtype sites in the BANE pipeline")


def _stmt_of(fnode, node):
    for st in ast.walk(fnode):
        if isinstance(st, ast.stmt) and not isinstance(
                st, (ast.FunctionDef, ast.If, ast.For, ast.While, ast.With,
                     ast.Try)) and any(x is node for x in ast.walk(st)):
            return st
    return node
