"""C07 -- BANE always terminates, is schedule-independent and fails cleanly."""
from __future__ import annotations

import ast
import os

from .. import callgraph
from ..cfg import CFG, ENTRY, EXIT, RAISE
from ..core import (PKG, VERIF, AnalysisError, arg_or_kw, kwarg, names_in,
                    norm, walk_no_nested)

EXPLANATION = (
    "Concurrency-structure analysis of AegeanTools/BANE.py, located by role: "
    "the Barrier constructor and its parties expression, the Pool constructor "
    "and its processes expression, the submitted callable and the task list; "
    "the worker closure from the call graph; barrier-delimited phases of the "
    "worker CFG with per-phase read/write row extents of the shared arrays. "
    "Decides: R1 parties equals the number of submitted tasks and processes "
    ">= parties is provable from the expressions; R2 the only barrier "
    "operation in worker code outside exception handlers is wait() (no "
    "reset), and every condition controlling a wait() or an early return "
    "depends only on task-uniform values; R3 the worker wrapper aborts the "
    "barrier before re-raising, no finite barrier timeout; R4 every "
    "SharedMemory(create=True) is closed and unlinked on all normal and "
    "exceptional paths and releasing one segment does not reference the "
    "other; R5 no phase has a cross-stripe write/read overlap; R6 stripe "
    "bounds tile [0, rows) with the recognised range idiom and each worker "
    "writes its whole own slice of both maps on every path. OS-level "
    "behaviour of multiprocessing and timing are not decided.")
ASSUMPTIONS = [
    "multiprocessing.Barrier/Pool/SharedMemory behave as documented "
    "(a Barrier is cyclic: it resets itself once all parties have passed)",
    "Pool(processes=n) runs at most n tasks concurrently; a party that "
    "never starts can never arrive at the barrier",
]

BARRIER_OPS = {"wait", "reset", "abort"}


MUTANTS = [
    ("halo on the wrong side", "AegeanTools/BANE.py",
     "    data_row_min = max(0, ymin - box_size[0]//2)",
     "    data_row_min = max(0, ymin + box_size[0]//2)", "C07-R11"),
    ("no halo below the stripe", "AegeanTools/BANE.py",
     "    data_row_max = min(shape[0], ymax + box_size[0]//2)",
     "    data_row_max = min(shape[0], ymax)", "C07-R11"),
    ("background subtracted from the own rows only", "AegeanTools/BANE.py",
     "    data -= ibkg[data_row_min:data_row_max, :]",
     "    data[ymin - data_row_min:ymax - data_row_min, :] -= ibkg[ymin:ymax, :]",
     "C07-R10"),
    ("stripe request raised to the core count", "AegeanTools/BANE.py",
     "    if (nslice is None) or (cores == 1):\n        nslice = cores",
     "    if (nslice is None) or (cores == 1) or (nslice < cores):\n        nslice = cores",
     "C07-R9"),
    ("closing grid row moved to the last own row", "AegeanTools/BANE.py",
     "    rows.append(ymax-data_row_min)\n",
     "    rows.append(ymax-data_row_min-1)\n", "C07-R8"),
    ("exported buffer views alive on the failure path", "AegeanTools/BANE.py",
     "        irms = SharedMemory(name=f'irms_{memory_id}', create=True, size=nbytes)\n",
     "        irms = SharedMemory(name=f'irms_{memory_id}', create=True, size=nbytes)\n"
     "        bkg = np.frombuffer(ibkg.buf, dtype=np.float64)\n"
     "        bkg.fill(np.nan)\n", "C07-R4"),
    ("barrier with a 30 s timeout", "AegeanTools/BANE.py",
     "        barrier = ctx.Barrier(parties=len(ymaxs))",
     "        barrier = ctx.Barrier(parties=len(ymaxs), timeout=30)",
     "C07-R3"),
    ("pool joined in the finally block before the release",
     "AegeanTools/BANE.py",
     "    finally:\n        ibkg.close()",
     "    finally:\n        pool.join()\n        ibkg.close()", "C07-R4"),
    ("result logged in the finally block before the release",
     "AegeanTools/BANE.py",
     "    finally:\n        ibkg.close()",
     "    finally:\n        logging.debug(bkg.shape)\n        ibkg.close()",
     "C07-R4"),
    ("pool of cores", "AegeanTools/BANE.py",
     "pool = ctx.Pool(processes=max(cores, len(ymaxs)), maxtasksperchild=1,",
     "pool = ctx.Pool(processes=cores, maxtasksperchild=1,", "C07-R1"),
    ("parties = cores", "AegeanTools/BANE.py",
     "barrier = ctx.Barrier(parties=len(ymaxs))",
     "barrier = ctx.Barrier(parties=cores)", "C07-R1"),
    ("reset after wait", "AegeanTools/BANE.py",
     "    # wait for all to complete\n    barrier.wait()\n",
     "    # wait for all to complete\n    i = barrier.wait()\n    if i == 0:"
     "\n        barrier.reset()\n", "C07-R2"),
    ("reset in handler", "AegeanTools/BANE.py",
     "            barrier.abort()", "            barrier.reset()", "C07-R"),
    ("no abort", "AegeanTools/BANE.py",
     "        if barrier is not None:\n            barrier.abort()\n", "",
     "C07-R3"),
    ("stripe-dependent wait", "AegeanTools/BANE.py",
     "    if domask:\n        # wait for all to complete\n        "
     "barrier.wait()\n",
     "    if domask and ymin > 0:\n        # wait for all to complete\n"
     "        barrier.wait()\n", "C07-R2"),
    ("unlink outside finally", "AegeanTools/BANE.py",
     "    finally:\n        ibkg.close()\n        ibkg.unlink()\n        "
     "irms.close()\n        irms.unlink()\n        if exit:",
     "    finally:\n        ibkg.close()\n        irms.close()\n        "
     "irms.unlink()\n        if exit:", "C07-R4"),
    ("first release needs second", "AegeanTools/BANE.py",
     "    finally:\n        ibkg.close()\n        ibkg.unlink()\n        "
     "irms.close()\n        irms.unlink()\n",
     "    finally:\n        irms.close()\n        irms.unlink()\n        "
     "ibkg.close()\n        ibkg.unlink()\n", "C07-R4"),
    ("mask phase without barrier", "AegeanTools/BANE.py",
     "    if domask:\n        # wait for all to complete\n        "
     "barrier.wait()\n\n", "    if domask:\n", "C07-R5"),
    ("gap in tiling", "AegeanTools/BANE.py",
     "        ymaxs = list(range(width_y, img_y, width_y))\n",
     "        ymaxs = list(range(width_y - 1, img_y, width_y))\n", "C07-R6"),
    ("last stripe not closed", "AegeanTools/BANE.py",
     "        ymaxs.append(img_y)\n", "        ymaxs.append(img_y - 1)\n",
     "C07-R6"),
    ("rms only when masking", "AegeanTools/BANE.py",
     "    irms[ymin:ymax, :] = interp_rms\n",
     "    if domask:\n        irms[ymin:ymax, :] = interp_rms\n", "C07-R6"),
    ("halo rows from the box width (seed C07c)", "AegeanTools/BANE.py",
     "    data_row_min = max(0, ymin - box_size[0]//2)",
     "    data_row_min = max(0, ymin - box_size[1]//2)", "C07-R7"),
    ("block clamped with the number of columns", "AegeanTools/BANE.py",
     "    data_row_max = min(shape[0], ymax + box_size[0]//2)",
     "    data_row_max = min(shape[1], ymax + box_size[0]//2)", "C07-R7"),
    ("one party too many", "AegeanTools/BANE.py",
     "barrier = ctx.Barrier(parties=len(ymaxs))",
     "barrier = ctx.Barrier(parties=len(ymaxs) + 1)", "C07-R1"),
    ("pool sized from the requested stripes (seed C07d)", "AegeanTools/BANE.py",
     "pool = ctx.Pool(processes=max(cores, len(ymaxs)), maxtasksperchild=1,",
     "pool = ctx.Pool(processes=max(cores, nslice), maxtasksperchild=1,", "C07-R1"),
]
TWINS = [
    ("pool terminated and joined before the release", "AegeanTools/BANE.py",
     "    finally:\n        ibkg.close()",
     "    finally:\n        pool.terminate()\n        pool.join()\n"
     "        ibkg.close()"),
    ("processes exactly parties", "AegeanTools/BANE.py",
     "pool = ctx.Pool(processes=max(cores, len(ymaxs)), maxtasksperchild=1,",
     "pool = ctx.Pool(processes=len(ymaxs), maxtasksperchild=1,"),
]



def barrier_calls(fnode, bname):
    out = []
    for n in walk_no_nested(fnode):
        if isinstance(n, ast.Call) and isinstance(n.func, ast.Attribute) and \
                isinstance(n.func.value, ast.Name) and \
                n.func.value.id == bname and n.func.attr in BARRIER_OPS:
            out.append(n)
    return out


def in_handler(fnode, node):
    for h in walk_no_nested(fnode):
        if isinstance(h, ast.ExceptHandler) and \
                any(x is node for x in ast.walk(h)):
            return True
    return False


def run(ctx):
    prog = ctx.prog
    mod = prog.module("BANE")
    # ---- locate roles ---------------------------------------------------
    parent = None
    bar = pool = sub = None
    for q, fi in prog.functions.items():
        if fi.module != mod.name:
            continue
        bs = [c for c in walk_no_nested(fi.node) if isinstance(c, ast.Call)
              and isinstance(c.func, ast.Attribute) and
              c.func.attr == "Barrier"]
        ps = [c for c in walk_no_nested(fi.node) if isinstance(c, ast.Call)
              and isinstance(c.func, ast.Attribute) and c.func.attr == "Pool"]
        if bs and ps:
            parent, bar, pool = fi, bs[0], ps[0]
            if len(bs) != 1 or len(ps) != 1:
                raise AnalysisError("C07: expected one Barrier and one Pool "
                                    "in %s" % fi.short)
    if parent is None:
        raise AnalysisError("C07: no function constructs both a Barrier and "
                            "a Pool in BANE.py (anchor vanished)")
    for c in walk_no_nested(parent.node):
        if isinstance(c, ast.Call) and isinstance(c.func, ast.Attribute) and \
                c.func.attr in ("map_async", "map", "imap", "imap_unordered",
                                "starmap", "starmap_async", "apply_async"):
            sub = c
    if sub is None or len(sub.args) < 2:
        raise AnalysisError("C07: pool submission call not found")
    wrapper_name = norm(sub.args[0])
    tasks_expr = sub.args[1]
    wq = prog.resolve_name(mod, wrapper_name)
    if wq not in prog.functions:
        raise AnalysisError("C07: submitted callable %s is not a repo "
                            "function" % wrapper_name)
    wrapper = prog.functions[wq]
    # barrier global name in workers: initializer assigns its param to a
    # global; initargs[0] is the barrier
    init = kwarg(pool, "initializer")
    initargs = kwarg(pool, "initargs")
    bvar_parent = None
    for s in walk_no_nested(parent.node):
        if isinstance(s, ast.Assign) and s.value is bar and \
                isinstance(s.targets[0], ast.Name):
            bvar_parent = s.targets[0].id
    bglobal = None
    if init is not None and initargs is not None and \
            isinstance(initargs, ast.Tuple):
        iq = prog.resolve_name(mod, norm(init))
        if iq in prog.functions:
            ifi = prog.functions[iq]
            pos = [i for i, e in enumerate(initargs.elts)
                   if norm(e) == bvar_parent]
            if pos:
                pname = ifi.params[pos[0]]
                for s in walk_no_nested(ifi.node):
                    if isinstance(s, ast.Assign) and \
                            norm(s.value) == pname and \
                            isinstance(s.targets[0], ast.Name):
                        bglobal = s.targets[0].id
    if bglobal is None:
        raise AnalysisError("C07: cannot determine the worker-side name of "
                            "the barrier (initializer idiom not recognised)")
    g = callgraph.build(prog)
    closure = sorted(callgraph.reachable(g, [wq]))
    closure = [q for q in closure if prog.functions[q].module == mod.name]
    ctx.note("roles: parent=%s barrier=%s (worker global '%s') pool=%s "
             "submitted=%s tasks=%s worker closure=%s" %
             (parent.short, norm(bar), bglobal, norm(pool), wrapper.short,
              norm(tasks_expr), [q[len(PKG) + 1:] for q in closure]))
    # the worker body: the function in the closure that waits on the barrier
    workers = [prog.functions[q] for q in closure
               if any(c.func.attr == "wait"
                      for c in barrier_calls(prog.functions[q].node, bglobal))]
    if len(workers) != 1:
        raise AnalysisError("C07: expected exactly one worker function "
                            "waiting on the barrier, found %s" %
                            [w.short for w in workers])
    worker = workers[0]

    r1(ctx, parent, bar, pool, tasks_expr)
    r2(ctx, prog, closure, bglobal, worker, parent, tasks_expr, wrapper)
    r3(ctx, wrapper, worker, bglobal, parent)
    r4(ctx, parent)
    r5(ctx, worker, bglobal)
    r6(ctx, parent, tasks_expr, worker)
    r8_nodes(ctx, prog, worker)
    r9_layout(ctx, prog, parent)
    r10_halo(ctx, prog, worker)
    # ---------------------------------------------------------------- R7
    ctx.rule("C07-R7", "stripe lay-out: rows and columns are never mixed in "
             "the worker -- the halo rows loaded around a stripe, the box "
             "and the grid use the row extent (index 0 of box_size / "
             "step_size / shape) on the row axis and the column extent on "
             "the column axis")
    from .. import unitrules as _ur
    _ur.apply(ctx, "C07-R7", {"BANE.sigma_filter"}, kinds=set(),
              report_rules={"idx-slice-axis", "idx-crossed"},
              what="axis-typed expressions in sigma_filter", floor=None)


# --------------------------------------------------------------------------
def _defs(fnode, name):
    out = []
    for s in walk_no_nested(fnode):
        if isinstance(s, ast.Assign):
            for t in s.targets:
                if any(isinstance(x, ast.Name) and x.id == name and
                       isinstance(x.ctx, ast.Store) for x in ast.walk(t)):
                    out.append(s)
        elif isinstance(s, ast.AugAssign) and isinstance(s.target, ast.Name) \
                and s.target.id == name:
            out.append(s)
    return out



def _slice_names(fnode, expr, limit=8):
    """backward slice: names expr may depend on through local assignments
    and mutating method calls (append/extend)"""
    seen = set()
    work = list(names_in(expr))
    stmts = []
    while work and limit:
        nm = work.pop()
        if nm in seen:
            continue
        seen.add(nm)
        for d in _defs(fnode, nm):
            stmts.append(d)
            work.extend(names_in(d.value))
        for s in walk_no_nested(fnode):
            if isinstance(s, ast.Call) and isinstance(s.func, ast.Attribute) \
                    and isinstance(s.func.value, ast.Name) and \
                    s.func.value.id == nm and \
                    s.func.attr in ("append", "extend", "insert"):
                stmts.append(s)
                for a in s.args:
                    work.extend(names_in(a))
        for s in walk_no_nested(fnode):
            if isinstance(s, ast.For) and nm in names_in(s.target):
                work.extend(names_in(s.iter))
    return seen, stmts


class _CompLoop:
    """a list comprehension presented like the for-loop that builds the
    task list (target, iter and the tuple appended per task)"""

    def __init__(self, comp, name):
        g = comp.generators[0]
        self.target, self.iter, self.node = g.target, g.iter, comp
        app = ast.Call(ast.Attribute(ast.Name(name, ast.Load()), "append",
                                     ast.Load()), [comp.elt], [])
        self.body = [ast.Expr(app)]
        self._fields = ("target", "iter", "body")
        self.lineno = comp.lineno


def task_lists(parent, tasks_expr):
    """the lists zipped to form the task tuples"""
    out = []
    if not isinstance(tasks_expr, ast.Name):
        return out, None
    for s in walk_no_nested(parent.node):
        if isinstance(s, ast.Assign) and \
                norm(s.targets[0]) == tasks_expr.id and \
                isinstance(s.value, ast.ListComp) and \
                len(s.value.generators) == 1 and \
                not s.value.generators[0].ifs and \
                isinstance(s.value.elt, ast.Tuple):
            it = s.value.generators[0].iter
            if isinstance(it, ast.Call) and norm(it.func) == "zip":
                out = [norm(a) for a in it.args]
            elif isinstance(it, ast.Name):
                out = [it.id]
            return out, _CompLoop(s.value, tasks_expr.id)
    for s in walk_no_nested(parent.node):
        if isinstance(s, ast.For) and any(
                isinstance(c, ast.Call) and isinstance(c.func, ast.Attribute)
                and c.func.attr == "append" and
                norm(c.func.value) == tasks_expr.id for c in ast.walk(s)):
            it = s.iter
            if isinstance(it, ast.Call) and norm(it.func) == "zip":
                out = [norm(a) for a in it.args]
            elif isinstance(it, ast.Name):
                out = [it.id]
            return out, s
    return out, None


def r1(ctx, parent, bar, pool, tasks_expr):
    ctx.rule("C07-R1", "barrier arity: parties == number of submitted tasks "
             "and Pool processes >= parties is provable; otherwise a party "
             "can never start while the others block forever")
    parties = arg_or_kw(bar, 0, "parties")
    procs = arg_or_kw(pool, 0, "processes")
    if parties is None or procs is None:
        raise AnalysisError("C07-R1: parties/processes expression missing")
    lists, loop = task_lists(parent, tasks_expr)
    ptxt = norm(parties).replace(" ", "")
    ok_par = ptxt == "len(%s)" % norm(tasks_expr) or \
        any(ptxt == "len(%s)" % l for l in lists)
    ctx.check("C07-R1", parent, "parties of " + norm(bar), ok_par,
              "parties=%s is not the number of submitted tasks "
              "(len(%s) or the length of one of the zipped stripe lists %s)"
              % (norm(parties), norm(tasks_expr), lists),
              {"parties": norm(parties), "tasks": norm(tasks_expr)}, bar)
    if not ok_par:
        return      # the comparison below presupposes the right arity
    # processes >= parties provable?
    qtxt = norm(procs).replace(" ", "")
    proven = qtxt == ptxt
    if isinstance(procs, ast.Call) and norm(procs.func) == "max":
        proven = proven or any(norm(a).replace(" ", "") == ptxt or
                               norm(a).replace(" ", "") ==
                               "len(%s)" % norm(tasks_expr)
                               for a in procs.args)
    if qtxt == "len(%s)" % norm(tasks_expr) or \
            any(qtxt == "len(%s)" % l for l in lists):
        proven = True
    if isinstance(procs, ast.Name):
        ds = _defs(parent.node, procs.id)
        for d in ds:
            v = d.value
            if isinstance(v, ast.Call) and norm(v.func) == "max" and any(
                    norm(a).replace(" ", "") == ptxt for a in v.args):
                proven = len(ds) == 1
    if proven:
        ctx.ob("C07-R1", parent, "processes >= parties", True,
               {"processes": norm(procs), "parties": norm(parties)}, pool)
        return
    pn, pst = _slice_names(parent.node, parties)
    qn, qst = _slice_names(parent.node, procs)
    # any statement relating the two slices other than a conditional default?
    relating = []
    for s in walk_no_nested(parent.node):
        if isinstance(s, (ast.Assign, ast.AugAssign)):
            tn = names_in(s.targets[0] if isinstance(s, ast.Assign)
                          else s.target)
            vn = names_in(s.value)
            if (tn & pn and vn & qn) or (tn & qn and vn & pn):
                relating.append(s)
    def on_proc_side(s_):
        """does the statement define something the PROCESSES expression is
        made of, from the parties' side?  (only such a statement could make
        processes >= parties hold in a way this rule does not recognise)"""
        tn_ = names_in(s_.targets[0] if isinstance(s_, ast.Assign)
                       else s_.target)
        return bool(tn_ & qn) and bool(names_in(s_.value) & pn)
    clamps = [s for s in relating if on_proc_side(s) and any(
        isinstance(c, ast.Call) and norm(c.func) in ("max",)
        for c in ast.walk(s.value))]
    uncond_alias = []
    cfg = CFG(parent.node)
    for s in relating:
        nodes = cfg.nodes_for_stmt(s)
        if on_proc_side(s) and nodes and \
                cfg.path_avoiding(ENTRY, EXIT, nodes) is None:
            uncond_alias.append(s)
    if clamps or uncond_alias:
        raise AnalysisError(
            "C07-R1: cannot decide processes >= parties: processes=%s, "
            "parties=%s are related through %s -- idiom not recognised" %
            (norm(procs), norm(parties), [norm(s) for s in relating]))
    ctx.check("C07-R1", parent, "processes >= parties", False,
              "Pool(processes=%s) and Barrier(parties=%s) derive from "
              "independent inputs (%s vs %s; only conditional defaults "
              "relate them: %s): when more stripes are realised than "
              "processes exist, the surplus tasks never start, the running "
              "ones block in barrier.wait() forever (deadlock)" %
              (norm(procs), norm(parties), sorted(qn & set(parent.params)),
               sorted(pn & set(parent.params)),
               [norm(s) for s in relating]),
              {"processes": norm(procs), "parties": norm(parties)}, pool)


# --------------------------------------------------------------------------
def r2(ctx, prog, closure, bglobal, worker, parent, tasks_expr, wrapper):
    ctx.rule("C07-R2", "barrier protocol in worker code: outside exception "
             "handlers only wait() is called on the barrier (reset() races "
             "with parties that already re-entered the next wait()); every "
             "condition controlling a wait() or an early return before a "
             "wait() depends only on task-uniform values")
    n = 0
    for q in closure:
        fi = prog.functions[q]
        for c in barrier_calls(fi.node, bglobal):
            n += 1
            op = c.func.attr
            ok = op == "wait" or (op == "abort")
            ctx.check("C07-R2", fi, "barrier.%s()" % op, ok,
                      "worker code calls barrier.reset(): a Barrier re-arms "
                      "itself when all parties have passed; a reset() issued "
                      "by one party after the release breaks every party that "
                      "has already entered the next wait() "
                      "(BrokenBarrierError) and the remaining parties then "
                      "wait forever", node=c)
    ctx.floor("C07-R2", n, 1, "barrier operations in worker code")
    # positive fixture for the zero-expected 'reset' rule
    fx = os.path.join(VERIF, "fixtures", "c07_reset.py")
    if not os.path.exists(fx):
        raise AnalysisError("fixture %s missing" % fx)
    ft = ast.parse(open(fx).read())
    hits = sum(1 for f in ast.walk(ft) if isinstance(f, ast.FunctionDef)
               for c in barrier_calls(f, "barrier")
               if c.func.attr == "reset")
    if hits < 1:
        raise AnalysisError("C07-R2 detector does not fire on its fixture")
    # uniformity: which task-tuple positions vary between tasks
    lists, loop = task_lists(parent, tasks_expr)
    if loop is None:
        raise AnalysisError("C07-R2: task construction loop not recognised")
    varying = names_in(loop.target)
    tup = None
    for c in (ast.walk(loop) if isinstance(loop, ast.AST)
              else ast.walk(loop.body[0])):
        if isinstance(c, ast.Call) and isinstance(c.func, ast.Attribute) and \
                c.func.attr == "append" and c.args and \
                isinstance(c.args[0], ast.Tuple):
            tup = c.args[0]
    if tup is None:
        raise AnalysisError("C07-R2: task tuple not recognised")
    # wrapper must forward positionally:  worker(*args)
    fwd = [c for c in walk_no_nested(wrapper.node) if isinstance(c, ast.Call)
           and norm(c.func) == worker.name and len(c.args) == 1 and
           isinstance(c.args[0], ast.Starred)]
    if not fwd:
        raise AnalysisError("C07-R2: wrapper does not forward the task tuple "
                            "as worker(*args)")
    wparams = worker.params
    if len(wparams) != len(tup.elts):
        raise AnalysisError("C07-R2: task tuple has %d fields, worker takes "
                            "%d" % (len(tup.elts), len(wparams)))
    nonuniform = {p for p, e in zip(wparams, tup.elts)
                  if names_in(e) & varying}
    ctx.note("task-uniform worker parameters: %s ; varying: %s" %
             ([p for p in wparams if p not in nonuniform],
              sorted(nonuniform)))
    # forward taint of non-uniform values through the worker
    tainted = set(nonuniform)
    changed = True
    while changed:
        changed = False
        for s in walk_no_nested(worker.node):
            tg = None
            if isinstance(s, ast.Assign):
                tg, val = s.targets, s.value
            elif isinstance(s, ast.AugAssign):
                tg, val = [s.target], s.value
            elif isinstance(s, ast.For):
                tg, val = [s.target], s.iter
            if tg is None:
                continue
            if names_in(val) & tainted:
                for t in tg:
                    for nm in names_in(t):
                        if nm not in tainted:
                            tainted.add(nm)
                            changed = True
    tainted.discard(bglobal)
    pm = {}
    for x in ast.walk(worker.node):
        for c in ast.iter_child_nodes(x):
            pm[c] = x
    waits = [c for c in barrier_calls(worker.node, bglobal)
             if c.func.attr == "wait"]
    for w in waits:
        cur = w
        conds = []
        while cur in pm and cur is not worker.node:
            p = pm[cur]
            if isinstance(p, (ast.If, ast.While)) and cur is not p.test:
                conds.append(p.test)
            if isinstance(p, ast.For) and cur is not p.iter:
                conds.append(p.iter)
            cur = p
        bad = [c for c in conds if names_in(c) & tainted]
        ctx.check("C07-R2", worker, "conditions controlling a wait(): %s" %
                  [norm(c) for c in conds], not bad,
                  "a wait() is guarded by %s which depends on stripe-"
                  "specific values %s: some stripes would skip a "
                  "synchronisation point the others block on" %
                  ([norm(c) for c in bad],
                   sorted(set().union(*[names_in(c) & tainted
                                        for c in bad])) if bad else []),
                  node=w)
    # early normal returns before the last wait
    cfg = CFG(worker.node)
    wait_nodes = [n for n, s in cfg.stmt.items() if cfg.kind[n] == "stmt"
                  and any(x in waits for x in ast.walk(s))]
    rets = [n for n, s in cfg.stmt.items() if cfg.kind[n] == "return"]
    for rn in rets:
        # does some wait lie on a path that bypasses this return?  i.e. the
        # return is an early exit: a wait is reachable from ENTRY avoiding it
        # and the return does not come after all waits
        after_all = all(cfg.path_avoiding(ENTRY, rn, [wn]) is None
                        for wn in wait_nodes)
        if after_all:
            continue
        s = cfg.stmt[rn]
        cur, conds = s, []
        while cur in pm and cur is not worker.node:
            p = pm[cur]
            if isinstance(p, (ast.If, ast.While)) and cur is not p.test:
                conds.append(p.test)
            cur = p
        bad = [c for c in conds if names_in(c) & tainted]
        ctx.check("C07-R2", worker, "early return " + norm(s), not bad,
                  "a return that skips a later wait() is guarded by stripe-"
                  "specific values %s" % [norm(c) for c in bad], node=s)


# --------------------------------------------------------------------------
def r3(ctx, wrapper, worker, bglobal, parent):
    ctx.rule("C07-R3", "failure containment: the submitted wrapper's "
             "exception handler aborts the barrier before re-raising, so a "
             "failing stripe cannot leave the others blocked; the barrier "
             "and its waits carry NO finite timeout (a timeout turns a slow "
             "but correct schedule -- one stripe reaching the "
             "synchronisation point late -- into a failure, so termination "
             "and the result would depend on timing)")
    # no finite timeout anywhere on the barrier
    tmo = []
    for c in walk_no_nested(parent.node):
        if isinstance(c, ast.Call) and norm(c.func).split(".")[-1] == \
                "Barrier":
            t_ = kwarg(c, "timeout") or (c.args[2] if len(c.args) > 2
                                         else None)
            if t_ is not None and not (isinstance(t_, ast.Constant) and
                                       t_.value is None):
                tmo.append(c)
    for c in barrier_calls(worker.node, bglobal):
        if c.func.attr == "wait":
            t_ = kwarg(c, "timeout") or (c.args[0] if c.args else None)
            if t_ is not None and not (isinstance(t_, ast.Constant) and
                                       t_.value is None):
                tmo.append(c)
    ctx.check("C07-R3", parent, "no finite timeout on the barrier", not tmo,
              "`%s` gives the barrier a finite timeout: when one stripe "
              "reaches a synchronisation point later than that after the "
              "others (large image with a thin last stripe, more stripes "
              "than free cores, slow disk) every wait raises "
              "BrokenBarrierError and BANE fails although no worker did" %
              (norm(tmo[0], 70) if tmo else ""),
              node=tmo[0] if tmo else parent.node)
    waits = [c for f in (worker,) for c in barrier_calls(f.node, bglobal)
             if c.func.attr == "wait"]
    all_timeout = False        # timeouts are no containment (see above)
    handlers = [h for h in walk_no_nested(wrapper.node)
                if isinstance(h, ast.ExceptHandler)]
    if not handlers:
        ctx.check("C07-R3", wrapper, "worker exception handler",
                  all_timeout, "the submitted callable has no exception "
                  "handler and the waits have no timeout", node=wrapper.node)
        return
    for h in handlers:
        aborts = [c for c in ast.walk(h) if isinstance(c, ast.Call) and
                  isinstance(c.func, ast.Attribute) and
                  c.func.attr == "abort" and
                  isinstance(c.func.value, ast.Name) and
                  c.func.value.id == bglobal]
        raises = [s for s in ast.walk(h) if isinstance(s, ast.Raise)]
        catches_all = h.type is None or norm(h.type) in ("Exception",
                                                         "BaseException")
        order_ok = bool(aborts) and (not raises or
                                     aborts[0].lineno <= raises[0].lineno)
        ctx.check("C07-R3", wrapper, "handler 'except %s' of the worker "
                  "wrapper" % (norm(h.type) if h.type else ""),
                  (catches_all and order_ok) or all_timeout,
                  "a stripe that fails re-raises without barrier.abort() and "
                  "the waits have no timeout: the surviving stripes block in "
                  "barrier.wait() forever and the parent's get() never "
                  "returns", node=h)
    # parent side (note only)
    term = [c for c in walk_no_nested(parent.node) if isinstance(c, ast.Call)
            and isinstance(c.func, ast.Attribute) and
            c.func.attr == "terminate"]
    if not term:
        ctx.note("parent never calls pool.terminate(): after a worker "
                 "failure the pool is reclaimed only by garbage collection "
                 "(not a clause of the property)")


# --------------------------------------------------------------------------
def r4(ctx, parent):
    ctx.rule("C07-R4", "every SharedMemory(create=True) bound to a name is "
             "closed and unlinked on every path (normal and exceptional) "
             "from its creation to the function's exits; the release of the "
             "first segment does not reference the second")
    cfg = CFG(parent.node)
    created = []
    for n, s in cfg.stmt.items():
        if cfg.kind[n] == "stmt" and isinstance(s, ast.Assign) and \
                isinstance(s.value, ast.Call) and \
                norm(s.value.func).endswith("SharedMemory"):
            cr = kwarg(s.value, "create")
            if isinstance(cr, ast.Constant) and cr.value is True and \
                    isinstance(s.targets[0], ast.Name):
                created.append((n, s.targets[0].id, s))
    ctx.floor("C07-R4", len(created), 2, "SharedMemory(create=True) sites")
    order = [nm for _, nm, _ in sorted(created, key=lambda t: t[2].lineno)]
    for n, nm, s in created:
        for op in ("close", "unlink"):
            rel = [m for m, st in cfg.stmt.items() if cfg.kind[m] == "stmt"
                   and any(isinstance(c, ast.Call) and
                           norm(c.func) == "%s.%s" % (nm, op)
                           for c in ast.walk(st))]
            bad = None
            for tgt in (EXIT, RAISE):
                # start from the normal successors of the creation
                for v in cfg.g.successors(n):
                    if cfg.g[n][v].get("label") == "exc":
                        continue
                    if v in rel:
                        continue
                    p = cfg.path_avoiding(v, tgt, rel) if v != tgt else [v]
                    if p:
                        bad = [n] + p
                        break
                if bad:
                    break
            ctx.check("C07-R4", parent, "%s.%s() after %s" % (nm, op,
                                                            norm(s, 60)),
                      bad is None,
                      "a path from the creation of segment '%s' leaves the "
                      "function without %s(): the segment stays in /dev/shm"
                      % (nm, op), node=s,
                      path=cfg.describe(bad) if bad else None)
    # typestate of the pool: join() only after close() / terminate()
    pools = [(n, st.targets[0].id) for n, st in cfg.stmt.items()
             if cfg.kind[n] == "stmt" and isinstance(st, ast.Assign)
             and isinstance(st.value, ast.Call)
             and norm(st.value.func).split(".")[-1] == "Pool"
             and isinstance(st.targets[0], ast.Name)]
    for pn, pname in pools:
        def nodes_calling(meths):
            return {m for m, st in cfg.stmt.items() if cfg.kind[m] == "stmt"
                    and any(isinstance(c, ast.Call) and norm(c.func) in
                            ["%s.%s" % (pname, x) for x in meths]
                            for c in ast.walk(st))}
        closed = nodes_calling(("close", "terminate"))
        for jn in sorted(nodes_calling(("join",))):
            p_ = cfg.path_avoiding(pn, jn, closed)
            ctx.check("C07-R4", parent, "%s.join() only on a closed pool" %
                      pname, p_ is None,
                      "a path reaches %s.join() while the pool is still "
                      "running (no close() / terminate() before it -- e.g. "
                      "when a worker failed): Pool.join() then raises "
                      "ValueError, which replaces the worker's error and "
                      "skips every statement after it, including the "
                      "release of the shared memory" % pname,
                      node=cfg.stmt[jn],
                      path=cfg.describe(p_) if p_ else None)
    # names read in the releasing finally block before the last release are
    # bound on every path that enters it
    import builtins
    segs = {nm for _, nm, _ in created}
    for t in walk_no_nested(parent.node):
        if not (isinstance(t, ast.Try) and t.finalbody):
            continue
        rel_idx = [k for k, st in enumerate(t.finalbody) if any(
            isinstance(c, ast.Call) and isinstance(c.func, ast.Attribute)
            and norm(c.func.value) in segs and c.func.attr in ("close",
                                                               "unlink")
            for c in ast.walk(st))]
        if not rel_idx:
            continue
        for st in t.finalbody[:rel_idx[-1] + 1]:
            head = st.test if isinstance(st, (ast.If, ast.While)) else st
            for nm_ in sorted({x.id for x in ast.walk(head)
                               if isinstance(x, ast.Name) and
                               isinstance(x.ctx, ast.Load)}):
                if nm_ in segs or hasattr(builtins, nm_) or \
                        nm_ in parent.params:
                    continue
                defs = {m for m, s_ in cfg.stmt.items()
                        if any(isinstance(x, ast.Name) and x.id == nm_ and
                               isinstance(x.ctx, ast.Store)
                               for x in ast.walk(s_.target if isinstance(
                                   s_, ast.For) else s_ if isinstance(
                                       s_, (ast.Assign, ast.AugAssign,
                                            ast.Global)) else ast.Pass()))}
                if not defs:
                    continue        # module-level name / import
                # the property's fault model: a worker fails, i.e. the
                # statement that dispatches / collects the tasks raises
                disp = [m for m, s_ in cfg.stmt.items()
                        if cfg.kind[m] == "stmt" and any(
                            isinstance(c, ast.Call) and
                            isinstance(c.func, ast.Attribute) and
                            c.func.attr in ("map", "map_async", "starmap",
                                            "imap", "imap_unordered",
                                            "apply_async", "starmap_async")
                            for c in ast.walk(s_))]
                if not disp:
                    raise AnalysisError("C07-R4: task dispatch statement "
                                        "not found")
                bad_p = None
                for un in cfg.nodes_for_stmt(st):
                    for dn in disp:
                        if any(cfg.dominates(d_, dn) for d_ in defs):
                            continue
                        bad_p = bad_p or cfg.path_avoiding(dn, un, defs)
                for un in cfg.nodes_for_stmt(st)[:1]:
                    p_ = bad_p
                    ctx.check("C07-R4", parent, "`%s` bound wherever the "
                              "releasing finally block reads it" % nm_,
                              p_ is None, "`%s` is read before the shared "
                              "memory is released but is not assigned on "
                              "every path into the finally block (e.g. after "
                              "a worker failure): the NameError skips the "
                              "release" % nm_, node=st,
                              path=cfg.describe(p_) if p_ else None)
                    break
    # exported buffer views: np.frombuffer / memoryview / the .buf object
    # keep an export on the segment's mmap; close() raises BufferError while
    # one is alive (np.ndarray(buffer=...) does not hold one)
    for n, nm, s_ in created:
        views = []
        for vn, st in cfg.stmt.items():
            if cfg.kind[vn] != "stmt" or not isinstance(st, ast.Assign) or \
                    not isinstance(st.targets[0], ast.Name):
                continue
            v = st.value
            exported = (isinstance(v, ast.Call) and
                        norm(v.func).split(".")[-1] in ("frombuffer",
                                                        "memoryview") and
                        any(norm(x) == nm + ".buf" for a in v.args
                            for x in ast.walk(a))) or \
                norm(v) == nm + ".buf" or (
                    isinstance(v, ast.Subscript) and
                    norm(v.value) == nm + ".buf")
            if exported:
                views.append((vn, st.targets[0].id, st))
        closes = [m for m, st in cfg.stmt.items() if cfg.kind[m] == "stmt"
                  and any(isinstance(c, ast.Call) and
                          norm(c.func) == nm + ".close"
                          for c in ast.walk(st))]
        for vn, vname, vst in views:
            gone = {m for m, st in cfg.stmt.items() if cfg.kind[m] == "stmt"
                    and m != vn and (
                        (isinstance(st, ast.Assign) and any(
                            isinstance(t, ast.Name) and t.id == vname
                            for t in st.targets)) or
                        (isinstance(st, ast.Delete) and any(
                            norm(t) == vname for t in st.targets)))}
            bad = None
            for cn in closes:
                bad = bad or cfg.path_avoiding(vn, cn, gone)
            ctx.check("C07-R4", parent, "buffer view %s released before "
                      "%s.close()" % (vname, nm), bad is None,
                      "`%s` holds an exported buffer of segment '%s'; on a "
                      "path to %s.close() (e.g. after a worker failure) it "
                      "is still alive, so close() raises BufferError and "
                      "neither segment is unlinked" %
                      (norm(vst, 60), nm, nm), node=vst,
                      path=cfg.describe(bad) if bad else None)
    # independence of releases
    if len(order) >= 2:
        first, second = order[0], order[1]
        for blk in [t.finalbody for t in walk_no_nested(parent.node)
                    if isinstance(t, ast.Try) and t.finalbody]:
            seen_second = False
            for st in blk:
                txt_names = names_in(st)
                if second in txt_names and first not in txt_names:
                    seen_second = True
                if first in txt_names and any(
                        isinstance(c, ast.Call) and
                        norm(c.func) in (first + ".unlink", first + ".close")
                        for c in ast.walk(st)):
                    ctx.check("C07-R4", parent, "release of %s independent "
                              "of %s: %s" % (first, second, norm(st)),
                              not seen_second,
                              "segment '%s' is released only after a "
                              "statement that needs '%s': if creating '%s' "
                              "failed, '%s' leaks" % (first, second, second,
                                                      first), node=st)


# --------------------------------------------------------------------------
def shared_arrays(worker):
    """names bound to np.ndarray(..., buffer=<shm>.buf)"""
    nested = [n for n in ast.walk(worker.node)
              if isinstance(n, ast.FunctionDef) and n is not worker.node
              and not getattr(n, "_inlined", False)]
    for nf in nested:
        stores_param = any(
            isinstance(t, ast.Subscript) and isinstance(t.value, ast.Name)
            and t.value.id in {a.arg for a in nf.args.args}
            for st in ast.walk(nf) if isinstance(st, (ast.Assign,
                                                      ast.AugAssign))
            for t in (st.targets if isinstance(st, ast.Assign)
                      else [st.target]))
        if stores_param:
            raise AnalysisError(
                "the worker delegates writes to a local helper (%s) that "
                "stores into one of its parameters: per-phase access "
                "extents of the shared arrays cannot be attributed "
                "(idiom not recognised)" % nf.name)
    out = {}
    for s in walk_no_nested(worker.node):
        if isinstance(s, ast.Assign) and isinstance(s.value, ast.Call) and \
                norm(s.value.func).endswith("ndarray") and \
                kwarg(s.value, "buffer") is not None and \
                isinstance(s.targets[0], ast.Name):
            out[s.targets[0].id] = s
    return out


def row_extent(sub, own, halo):
    """classify the row extent of a subscript on a shared array"""
    sl = sub.slice
    first = sl.elts[0] if isinstance(sl, ast.Tuple) else sl
    if isinstance(first, ast.Slice) and first.lower is not None and \
            first.upper is not None:
        t = (norm(first.lower), norm(first.upper))
        if t == own:
            return "own"
        if t == halo:
            return "halo"
    return "all"


def r5(ctx, worker, bglobal):
    ctx.rule("C07-R5", "phase race-freedom: within one barrier-delimited "
             "phase no stripe writes rows of a shared array that another "
             "stripe reads or writes (own rows are disjoint between stripes; "
             "halo/whole-array accesses overlap other stripes' own rows)")
    arrays = shared_arrays(worker)
    if len(arrays) < 2:
        raise AnalysisError("C07-R5: shared array views not recognised")
    # own / halo extents by role: own = the task's region tuple unpacked
    own = halo = None
    for s in walk_no_nested(worker.node):
        if isinstance(s, ast.Assign) and isinstance(s.targets[0], ast.Tuple) \
                and isinstance(s.value, ast.Name) and \
                s.value.id in worker.params and len(s.targets[0].elts) == 2:
            own = tuple(norm(e) for e in s.targets[0].elts)
    hal = {}
    for s in walk_no_nested(worker.node):
        if isinstance(s, ast.Assign) and isinstance(s.targets[0], ast.Name) \
                and isinstance(s.value, ast.Call) and \
                norm(s.value.func) in ("max", "min") and own and \
                any(own[0] in names_in(a) or own[1] in names_in(a)
                    for a in s.value.args):
            hal[norm(s.value.func)] = s.targets[0].id
    if own is None or len(hal) != 2:
        raise AnalysisError("C07-R5: own/halo row bounds not recognised")
    halo = (hal["max"], hal["min"])
    cfg = CFG(worker.node)
    wait_nodes = [n for n, s in cfg.stmt.items() if cfg.kind[n] == "stmt" and
                  any(isinstance(c, ast.Call) and
                      norm(c.func) == bglobal + ".wait"
                      for c in ast.walk(s))]
    # phase of a node = number of wait nodes that dominate it
    accesses = []
    for n, s in cfg.stmt.items():
        if cfg.kind[n] not in ("stmt", "if", "for", "while", "return"):
            continue
        parts = [s] if cfg.kind[n] in ("stmt", "return") else \
            [s.test] if cfg.kind[n] in ("if", "while") else [s.iter]
        for part in parts:
            stores = set()
            if isinstance(part, (ast.Assign, ast.AugAssign)):
                tg = part.targets if isinstance(part, ast.Assign) \
                    else [part.target]
                for t in tg:
                    for x in ast.walk(t):
                        if isinstance(x, ast.Subscript) and \
                                isinstance(x.value, ast.Name) and \
                                x.value.id in arrays:
                            stores.add(x)
            for x in ast.walk(part):
                if isinstance(x, ast.Subscript) and \
                        isinstance(x.value, ast.Name) and \
                        x.value.id in arrays:
                    # outermost subscript on the array only
                    ph = sum(1 for w in wait_nodes if cfg.dominates(w, n)
                             and w != n)
                    mode = "write" if x in stores or any(
                        x is y for st in stores for y in ast.walk(st)) \
                        else "read"
                    if isinstance(part, ast.AugAssign) and x in stores:
                        mode = "write"
                    accesses.append((ph, x.value.id, mode,
                                     row_extent(x, own, halo), part))
    ctx.floor("C07-R5", len(accesses), 4, "accesses to shared arrays in the "
              "worker")
    phases = sorted({a[0] for a in accesses})
    for ph in phases:
        for arr in arrays:
            acc = [a for a in accesses if a[0] == ph and a[1] == arr]
            if not acc:
                continue
            writes = [a for a in acc if a[2] == "write"]
            wide = [a for a in acc if a[3] in ("halo", "all")]
            bad = bool(writes) and bool(wide) and (
                any(w[3] != "own" for w in writes) or
                any(a[3] != "own" for a in acc))
            ctx.check("C07-R5", worker, "phase %d array %s: %s" %
                      (ph, arr, sorted({"%s/%s" % (a[2], a[3])
                                        for a in acc})), not bad,
                      "in phase %d array '%s' is written (%s) while an "
                      "access with extent %s overlaps other stripes' rows: "
                      "the result depends on the interleaving" %
                      (ph, arr, [norm(w[4], 50) for w in writes],
                       [a[3] for a in wide]),
                      node=(writes or acc)[0][4])


# --------------------------------------------------------------------------
def r10_halo(ctx, prog, worker, rule="C07-R10"):
    """the number of stripes changes the maps only slightly: rows a stripe
    borrows from its neighbours (the halo) are treated like its own rows
    before the noise statistics are taken"""
    ctx.rule(rule, "stripe layout independence of the noise map: the "
             "background is subtracted from the WHOLE block a stripe loaded "
             "(own rows and halo rows, block rows = background rows), so a "
             "noise box next to a stripe boundary sees the same pixel values "
             "whatever the layout (shared intent with C06-R1)")
    loads = [st for st in walk_no_nested(worker.node)
             if isinstance(st, ast.Assign) and
             isinstance(st.targets[0], ast.Name) and
             ".section[" in norm(st.value, 400)]
    if not loads:
        # the read sits in a helper: C06-R1 follows it there
        ctx.unknown_site(rule, worker, "block load of the worker not written "
                         "as <name> = ....section[...]", node=worker.node)
        return
    blk = loads[0].targets[0].id
    rows = set()
    for st in loads:
        for x in ast.walk(st.value):
            if isinstance(x, ast.Subscript) and \
                    norm(x.value).endswith(".section"):
                sl = x.slice.elts if isinstance(x.slice, ast.Tuple) \
                    else [x.slice]
                if len(sl) >= 2 and isinstance(sl[-2], ast.Slice):
                    rows.add((norm(sl[-2].lower), norm(sl[-2].upper)))
    subs = [st for st in walk_no_nested(worker.node)
            if isinstance(st, ast.AugAssign) and isinstance(st.op, ast.Sub)
            and (norm(st.target) == blk or
                 isinstance(st.target, ast.Subscript) and
                 norm(st.target.value) == blk)]
    if len(rows) != 1 or len(subs) != 1:
        # written another way (C06-R1 decides the subtraction itself)
        ctx.unknown_site(rule, worker, "block rows %s / %d in-place "
                         "subtraction(s) on the block" %
                         (sorted(rows), len(subs)), node=worker.node)
        if len(rows) == 1:
            r11_halo_reach(ctx, worker, *sorted(rows)[0])
        return
    lo, hi = rows.pop()
    r11_halo_reach(ctx, worker, lo, hi)
    st = subs[0]
    whole = isinstance(st.target, ast.Name)
    if isinstance(st.target, ast.Subscript):
        sl = st.target.slice.elts if isinstance(st.target.slice, ast.Tuple) \
            else [st.target.slice]
        r0 = sl[0]
        whole = isinstance(r0, ast.Slice) and \
            (r0.lower is None or norm(r0.lower) == "0") and \
            (r0.upper is None or norm(r0.upper) == blk + ".shape[0]")
    v = st.value
    vr = None
    if isinstance(v, ast.Subscript):
        sl = v.slice.elts if isinstance(v.slice, ast.Tuple) else [v.slice]
        if isinstance(sl[0], ast.Slice):
            vr = (norm(sl[0].lower) if sl[0].lower else None,
                  norm(sl[0].upper) if sl[0].upper else None)
    ctx.check(rule, worker, "background removed from the whole block: " +
              norm(st, 70), whole and vr == (lo, hi),
              "the block holds rows %s:%s of the image but the background is "
              "subtracted from %s with background rows %s: the halo rows keep "
              "their DC level, and the noise next to every internal stripe "
              "boundary is inflated by it -- the more stripes, the more "
              "boundaries" % (lo, hi, "all rows" if whole else
                              norm(st.target, 50), vr), node=st)


def r11_halo_reach(ctx, worker, lo, hi, rule="C07-R11"):
    """the block a stripe loads reaches half a box beyond its own rows"""
    from .. import concrete
    ctx.rule(rule, "the halo of a stripe: the bounds of the block a worker "
             "loads are interpreted for stripes at the top, in the middle and "
             "at the bottom of the image -- the block starts at or before "
             "max(0, first own row - box/2), ends at or after min(height, "
             "last own row + box/2) and stays inside the image; a shorter "
             "halo truncates the boxes next to a stripe boundary, so the maps "
             "depend on the stripe layout")
    pre = []
    for st in worker.node.body:
        if any(".section" in norm(x, 200) for x in [st]):
            break
        pre.append(st)
    H, W, bh, bw = 100, 80, 21, 31
    bad = []
    for ymin, ymax in ((0, 25), (25, 50), (75, 100), (0, 100), (40, 45)):
        env = {"region": [ymin, ymax], "box_size": [bh, bw],
               "shape": [H, W], "step_size": [4, 4]}
        for st in pre:
            if isinstance(st, (ast.Assign, ast.AugAssign)):
                try:
                    concrete.run([st], env)
                except concrete.Unknown:
                    pass
        try:
            a, b = concrete.ev(ast.parse(lo, mode="eval").body, env), \
                concrete.ev(ast.parse(hi, mode="eval").body, env)
        except (concrete.Unknown, SyntaxError) as e:
            ctx.unknown_site(rule, worker, "block bounds %s:%s not "
                             "interpreted (%s)" % (lo, hi, e),
                             node=worker.node)
            return
        if not (isinstance(a, (int, float)) and isinstance(b, (int, float))):
            ctx.unknown_site(rule, worker, "block bounds are not numbers",
                             node=worker.node)
            return
        if a < 0 or b > H or a > max(0, ymin - bh // 2) or \
                b < min(H, ymax + bh // 2) or a != int(a) or b != int(b):
            bad.append((ymin, ymax, a, b))
    ctx.check(rule, worker, "block rows %s:%s cover the stripe and half a "
              "box on either side" % (lo, hi), not bad,
              "for the stripe rows %s:%s of a %d-row image with a %d-row box "
              "the worker loads rows %s:%s" %
              ((bad[0][0], bad[0][1], H, bh, bad[0][2], bad[0][3])
               if bad else (0,) * 6), node=worker.node)


def r9_layout(ctx, prog, parent, rule="C07-R9"):
    """the stripe layout is a function of the request and the image, not of
    the number of workers"""
    from .. import concrete
    ctx.rule(rule, "a fixed stripe layout for every worker count: the "
             "statements of the parent that settle the number of stripes are "
             "interpreted -- an explicit stripe request survives for every "
             "core count above 1 (it is replaced only when it is None or when "
             "a single core forces a single stripe)")
    sp_ = [p_ for p_ in parent.params if "slice" in p_ or "stripe" in p_]
    cp_ = [p_ for p_ in parent.params if "core" in p_]
    if not sp_ or not cp_:
        raise AnalysisError("%s: stripe / core parameters of %s" %
                            (rule, parent.short))
    sname, cname = sp_[0], cp_[0]
    stmts = [st for st in parent.node.body
             if isinstance(st, (ast.If, ast.Assign, ast.AugAssign)) and
             any(isinstance(x, ast.Name) and x.id == sname and
                 isinstance(x.ctx, ast.Store) for x in ast.walk(st))]
    if not stmts:
        raise AnalysisError("%s: no statement settles %s" % (rule, sname))
    bad = []
    n = 0
    for req, cores in ((2, 2), (2, 3), (2, 8), (3, 2), (5, 3), (7, 16),
                       (None, 4), (4, 1), (1, 6)):
        env = {sname: req, cname: cores}
        try:
            concrete.run(stmts, env)
        except concrete.Unknown as e:
            raise AnalysisError("%s: stripe count: %s" % (rule, e))
        n += 1
        want = cores if (req is None or cores == 1) else req
        if env[sname] != want:
            bad.append((req, cores, env[sname], want))
    ctx.check(rule, parent, "stripe count over %d (request, cores) pairs" % n,
              not bad, "a request for %s stripes with %s cores becomes %s "
              "stripes (expected %s): the layout, and with it the maps, "
              "depend on the number of workers" %
              (bad[0] if bad else ("", "", "", "")), node=stmts[0])
    ctx.floor(rule, n, 9, "(request, cores) samples")


def r8_nodes(ctx, prog, worker, rule="C07-R8"):
    """every stripe height gives a legal interpolation grid: the node added
    after list(range(a, b, s)) is >= b.  range() already holds b-1 whenever
    (b-1-a) % s == 0, so a closing node b-1 duplicates it for those heights:
    RegularGridInterpolator refuses a non-ascending axis, the worker dies
    and the call fails for a perfectly legal (rows, grid, stripes)."""
    import sympy as sp
    from .. import sym
    ctx.rule(rule, "grid nodes strictly ascending for EVERY stripe height: "
             "the closing node appended to list(range(a, b, step)) is "
             "provably >= b (a node b-1 repeats the last range element when "
             "(b-1-a) % step == 0 and the interpolator raises)")
    mod = prog.modules[worker.module]
    n = 0
    for st in walk_no_nested(worker.node):
        if not (isinstance(st, ast.Assign) and len(st.targets) == 1 and
                isinstance(st.targets[0], ast.Name)):
            continue
        nm = st.targets[0].id
        v = st.value
        last = None
        if isinstance(v, ast.BinOp) and isinstance(v.op, ast.Add) and \
                isinstance(v.right, ast.List) and len(v.right.elts) == 1:
            last, v = v.right.elts[0], v.left
        if isinstance(v, ast.Call) and norm(v.func) == "list" and v.args:
            v = v.args[0]
        if not (isinstance(v, ast.Call) and norm(v.func) == "range" and
                len(v.args) == 3):
            continue
        aps = [c for c in walk_no_nested(worker.node)
               if isinstance(c, ast.Call) and
               isinstance(c.func, ast.Attribute) and
               c.func.attr in ("append", "extend", "insert") and
               norm(c.func.value) == nm]
        if last is None and len(aps) == 1 and aps[0].func.attr == "append" \
                and aps[0].args:
            last = aps[0].args[0]
        elif aps:
            raise AnalysisError("%s: node list %s is extended in a way that "
                                "is not recognised" % (rule, nm))
        if last is None:
            continue
        tr = sym.Translator(prog, mod, {}, free_symbols=True)
        try:
            gap = sp.simplify(tr.expr(last) - tr.expr(v.args[1]))
        except (sym.Untranslatable, TypeError, AttributeError) as e:
            raise AnalysisError("%s: closing node of %s: %s" % (rule, nm, e))
        n += 1
        ok = gap.is_number and gap >= 0
        ctx.check(rule, worker, "closing node of %s = stop %+d" %
                  (nm, int(gap)) if gap.is_number else
                  "closing node of %s = %s" % (nm, norm(last)), bool(ok),
                  "list(range(%s, %s, %s)) followed by %s: the closing node "
                  "is not provably >= the range's stop, so for some stripe "
                  "height it repeats the last range element" %
                  (norm(v.args[0]), norm(v.args[1]), norm(v.args[2]),
                   norm(last)), node=last)
    ctx.floor(rule, n, 2, "node lists (rows, cols)")


def r6(ctx, parent, tasks_expr, worker):
    ctx.rule("C07-R6", "tiling: stripe bounds come from range(0,H,w) zipped "
             "with range(w,H,w)+[H] (or the single stripe [0],[H]); each "
             "worker assigns its whole own row slice of both shared maps on "
             "every path to its normal return")
    lists, loop = task_lists(parent, tasks_expr)
    if len(lists) != 2:
        raise AnalysisError("C07-R6: stripe lists not recognised: %s" % lists)
    lo, hi = lists
    # the stripe lists may be produced by a helper of the module:
    #   ymins, ymaxs = _stripe_edges(img_y, nslice, step_size)
    prog_ = ctx.prog
    for d_ in _defs(parent.node, lo):
        if isinstance(d_, ast.Assign) and \
                isinstance(d_.targets[0], ast.Tuple) and \
                [norm(e) for e in d_.targets[0].elts] == [lo, hi] and \
                isinstance(d_.value, ast.Call) and \
                isinstance(d_.value.func, ast.Name):
            q_ = prog_.resolve_name(prog_.modules[parent.module],
                                    d_.value.func.id)
            h_ = prog_.functions.get(q_)
            rets_ = [r_ for r_ in walk_no_nested(h_.node)
                     if isinstance(r_, ast.Return) and
                     isinstance(r_.value, ast.Tuple) and
                     len(r_.value.elts) == 2 and
                     all(isinstance(e, ast.Name) for e in r_.value.elts)] \
                if h_ is not None else []
            pairs_ = {tuple(e.id for e in r_.value.elts) for r_ in rets_}
            if len(pairs_) == 1:
                parent = h_
                lo, hi = pairs_.pop()
    # ... or be plain aliases of other locals (an inlined helper's result)
    def _unalias(nm):
        for _ in range(4):
            ds = _defs(parent.node, nm)
            if len(ds) == 1 and isinstance(ds[0], ast.Assign) and \
                    isinstance(ds[0].value, ast.Name) and \
                    isinstance(ds[0].targets[0], ast.Name):
                nm = ds[0].value.id
            else:
                break
        return nm
    lo, hi = _unalias(lo), _unalias(hi)
    lo_defs = _defs(parent.node, lo)
    hi_defs = _defs(parent.node, hi)
    n = 0
    rng = {}
    tail = []          # values appended / concatenated after the range
    for nm, defs in ((lo, lo_defs), (hi, hi_defs)):
        for d in defs:
            v = d.value
            if isinstance(v, ast.BinOp) and isinstance(v.op, ast.Add) and \
                    isinstance(v.right, ast.List) and \
                    len(v.right.elts) == 1 and nm == hi:
                tail.append(v.right.elts[0])
                v = v.left
            if isinstance(v, ast.Call) and norm(v.func) == "list" and v.args:
                v = v.args[0]
            if isinstance(v, ast.Call) and norm(v.func) == "range" and \
                    len(v.args) == 3:
                rng[nm] = [norm(a) for a in v.args]
            elif isinstance(v, ast.List) and len(v.elts) == 1:
                rng.setdefault(nm + "_single", norm(v.elts[0]))
    apps = [c for c in walk_no_nested(parent.node) if isinstance(c, ast.Call)
            and norm(c.func) == hi + ".append"]
    lasts = [c.args[0] for c in apps if c.args] + tail
    if lo not in rng or hi not in rng or len(lasts) != 1:
        raise AnalysisError("C07-R6: tiling idiom not recognised "
                            "(lo=%s hi=%s last=%s)" %
                            (rng.get(lo), rng.get(hi),
                             [norm(a) for a in lasts]))
    l0, lH, lw = rng[lo]
    h0, hH, hw = rng[hi]
    ok = l0 == "0" and h0 == lw and lw == hw and lH == hH and \
        norm(lasts[0]) == lH
    n += 1
    ctx.check("C07-R6", parent, "stripe bounds %s=range(%s,%s,%s) "
              "%s=range(%s,%s,%s)+[%s]" % (lo, l0, lH, lw, hi, h0, hH, hw,
                                           norm(lasts[0])), ok,
              "stripe k must end where stripe k+1 starts, the first start at "
              "0 and the last end at the image height",
              node=apps[0] if apps else parent.node)
    s_lo, s_hi = rng.get(lo + "_single"), rng.get(hi + "_single")
    if s_lo is not None or s_hi is not None:
        ctx.check("C07-R6", parent, "single stripe [%s],[%s]" % (s_lo, s_hi),
                  s_lo == "0" and s_hi == lH,
                  "the single stripe must be [0, %s)" % lH, node=parent.node)
    # each worker writes its own slice of both arrays on every path
    arrays = shared_arrays(worker)
    cfg = CFG(worker.node)
    own = None
    for s in walk_no_nested(worker.node):
        if isinstance(s, ast.Assign) and isinstance(s.targets[0], ast.Tuple) \
                and isinstance(s.value, ast.Name) and \
                s.value.id in worker.params and len(s.targets[0].elts) == 2:
            own = tuple(norm(e) for e in s.targets[0].elts)
    for arr in arrays:
        ws = []
        for m, st in cfg.stmt.items():
            if cfg.kind[m] == "stmt" and isinstance(st, ast.Assign):
                t = st.targets[0]
                if isinstance(t, ast.Subscript) and norm(t.value) == arr and \
                        row_extent(t, own, None) == "own":
                    sl = t.slice
                    cols = sl.elts[1] if isinstance(sl, ast.Tuple) and \
                        len(sl.elts) == 2 else None
                    full = cols is None or (isinstance(cols, ast.Slice) and
                                            cols.lower is None and
                                            cols.upper is None)
                    if full:
                        ws.append(m)
        p = cfg.path_avoiding(ENTRY, EXIT, ws)
        ctx.check("C07-R6", worker, "own slice of %s written on every path"
                  % arr, bool(ws) and p is None,
                  "a path reaches the worker's return without assigning "
                  "%s[%s:%s, :]: output pixels stay uninitialised" %
                  (arr, own[0] if own else "?", own[1] if own else "?"),
                  node=worker.node, path=cfg.describe(p) if p else None)
