"""C08 -- region operations are set algebra on sky pixels, for every history."""
from __future__ import annotations

import ast

from .. import link
from ..absint import Interp, Observer
from ..cfg import CFG, ENTRY, EXIT
from ..core import AnalysisError, arg_or_kw, names_in, norm, walk_no_nested
from ..regionmodel import (REGION, SET_MUTATORS, RegionLib, assigns_cache,
                           direct_mutations,
                           is_cache_reset, levelset_owner, linear,
                           pixeldict_aliases, region_methods, self_calls)

EXPLANATION = (
    "Static analysis of AegeanTools/regions.py (class Region) and its callers "
    "in MIMAS.py. Decides necessary structural clauses of the set-algebra "
    "property: R1 every value inserted into a level set is integer-kinded "
    "(numeric-kind abstract interpretation; true division yields floats); "
    "R2 cache typestate: every method that can mutate the level sets resets "
    "the demoted cache on every path to a normal return (CFG path rule), the "
    "cache builder reads no loop variable that is unbound for maxdepth=1; "
    "R3 each binary operation applies the matching in-place set method to "
    "the deepest level of self after demoting both operands, guarded by the "
    "equal-depth check and followed by re-normalisation; union adds per "
    "common level and floor-divides deeper pixels; R4 promotion removes the "
    "four children in the block that adds the parent and demotion adds "
    "exactly 4p..4p+3 and clears the source level (linear forms); R5 query "
    "methods have no write effect on the level sets except re-levelling via "
    "the cache builder; R6 full-region consumers iterate levels 1..maxdepth; "
    "R7 link check of every library symbol reachable from the region API. "
    "A PASS means these clauses hold on the current tree, not that arbitrary "
    "histories were explored; the induction over histories rests on R1-R5 "
    "re-establishing 'cache valid, ids integral, levels normalised' per method.")
ASSUMPTIONS = [
    "healpy pixelisation and query functions behave as documented",
    "python set methods implement set algebra",
    "Region objects are only mutated through Region methods (no external "
    "writes to pixeldict other than those analysed in MIMAS.py)",
]

QUERIES = ["sky_within", "get_demoted", "get_area", "write_reg", "write_fits",
           "_uniq", "__repr__", "save"]
OP_TABLE = {"without": "difference_update",
            "intersect": "intersection_update",
            "symmetric_difference": "symmetric_difference_update"}


class R1Obs(Observer):
    def __init__(self, ctx):
        self.ctx = ctx
        self.sites = 0

    def _verdict(self, it, node, what, v, construct):
        num = v.num
        self.sites += 1
        if num in ("int", "bool"):
            self.ctx.ob("C08-R1", it.fi, construct, True,
                        {"kind": v.short()}, node)
        elif num in ("float", "ifloat"):
            self.ctx.check(
                "C08-R1", it.fi, construct, False,
                "%s is %s-kinded (%s): a non-integer pixel id enters a level "
                "set (true division of an integer pixel id; floor division "
                "is required)" % (what, num, v.short()),
                {"kind": v.short()}, node)
        else:
            self.ctx.unknown_site("C08-R1", it.fi, construct, node)

    def on_call(self, it, node, dotted, args, kwargs, result):
        if not dotted:
            return
        if dotted == "pixset.add" and args:
            self._verdict(it, node, "argument of add()", args[0],
                          "insert " + norm(node))
        elif dotted == "pixset.update" and args:
            el = it.iter_elem(args[0])
            self._verdict(it, node, "elements of update() operand", el,
                          "insert " + norm(node))
        elif dotted == REGION + ".add_pixels" and args:
            a = args[0]
            el = it.iter_elem(a) if (a.elem is not None or a.elts) else a
            self._verdict(it, node, "pixels passed to add_pixels", el,
                          "insert " + norm(node))

    def on_store(self, it, target, key, val, stmt):
        if isinstance(target, ast.Subscript):
            b = it.eval(target.value, it.env)
            if b.cls == "pixeldict":
                if val.cls == "set" and val.elem is None:
                    self.sites += 1
                    self.ctx.ob("C08-R1", it.fi, "store " + norm(stmt), True,
                                {"value": "empty set"}, stmt)
                else:
                    self._verdict(it, stmt, "elements stored as a level set",
                                  it.iter_elem(val), "store " + norm(stmt))


MUTANTS = [
    ("union skips the deepest level of a finer operand",
     "AegeanTools/regions.py",
     "            for d in range(self.maxdepth+1, other.maxdepth+1):",
     "            for d in range(self.maxdepth+1, other.maxdepth):", "C08-R3"),
    ("add_pixels drops pixel identifiers that fail 0 < p",
     "AegeanTools/regions.py",
     "        self.pixeldict[depth].update(set(pix))",
     "        self.pixeldict[depth].update(p for p in pix if 0 < p)",
     "C08-R11"),
    ("pixel area taken at nside 2*maxdepth", "AegeanTools/regions.py",
     "            hp.nside2pixarea(2**self.maxdepth, degrees=degrees)",
     "            hp.nside2pixarea(2*self.maxdepth, degrees=degrees)", "C08-R8"),
    ("pickling hook that clears the aliased cache", "AegeanTools/regions.py",
     "    @classmethod\n    def load(cls, mimfile):",
     "    def __getstate__(self):\n"
     "        state = self.__dict__.copy()\n"
     "        state['demoted'].clear()\n        return state\n\n"
     "    @classmethod\n    def load(cls, mimfile):", "C08-R15"),
    ("polygon queried at maxdepth, stored at depth", "AegeanTools/regions.py",
     "        pix = hp.query_polygon(2**depth,", "        pix = hp.query_polygon(2**self.maxdepth,",
     "C08-R14"),
    ("membership test skips level 1", "AegeanTools/regions.py",
     "        pixelset = self.get_demoted()\n"
     "        result = np.isin(pix, list(pixelset))\n",
     "        result = np.zeros(len(pix), dtype=bool)\n"
     "        for d in range(2, self.maxdepth+1):\n"
     "            result |= np.isin(pix >> 2*(self.maxdepth-d),\n"
     "                              list(self.pixeldict[d]))\n", "C08-R13"),
    ("membership look-up array kept between queries",
     "AegeanTools/regions.py",
     "        pixelset = self.get_demoted()\n"
     "        result = np.isin(pix, list(pixelset))\n",
     "        if getattr(self, '_lookup', None) is None:\n"
     "            self._lookup = np.array(sorted(self.get_demoted()))\n"
     "        result = np.isin(pix, self._lookup)\n", "C08-R12"),
    ("true division in renorm", "AegeanTools/regions.py",
     "self.pixeldict[d-1].add(p//4)", "self.pixeldict[d-1].add(p/4)",
     "C08-R1"),
    ("true division in union", "AegeanTools/regions.py",
     "pp = p//4**(d-self.maxdepth)", "pp = p/4**(d-self.maxdepth)", "C08-R"),
    ("wrong promotion exponent", "AegeanTools/regions.py",
     "pp = p//4**(d-self.maxdepth)", "pp = p//4*(d-self.maxdepth)",
     "C08-R3"),
    ("add_pixels keeps stale cache", "AegeanTools/regions.py",
     "        self.pixeldict[depth].update(set(pix))\n        # the cached "
     "deepest-level representation is now out of date\n        self.demoted "
     "= set()\n", "        self.pixeldict[depth].update(set(pix))\n",
     "C08-R2"),
    ("union(renorm=False) stale cache", "AegeanTools/regions.py",
     "                    self.pixeldict[self.maxdepth].add(pp)\n"
     "            self.demoted = set()\n",
     "                    self.pixeldict[self.maxdepth].add(pp)\n", "C08-R2"),
    ("renorm forgets final reset", "AegeanTools/regions.py",
     "                        self.pixeldict[d-1].add(p//4)\n        "
     "self.demoted = set()\n        return",
     "                        self.pixeldict[d-1].add(p//4)\n        return",
     "C08-R2"),
    ("loop variable after loop", "AegeanTools/regions.py",
     "            self.demoted = pd[self.maxdepth]",
     "            self.demoted = pd[d+1]", "C08-R2"),
    ("without uses intersection", "AegeanTools/regions.py",
     "        self.pixeldict[self.maxdepth].difference_update(opd)",
     "        self.pixeldict[self.maxdepth].intersection_update(opd)",
     "C08-R3"),
    ("intersect without demoting self", "AegeanTools/regions.py",
     "        self._demote_all()\n        opd = set(other.get_demoted())\n"
     "        self.pixeldict[self.maxdepth].intersection_update(opd)",
     "        opd = set(other.get_demoted())\n"
     "        self.pixeldict[self.maxdepth].intersection_update(opd)",
     "C08-R3"),
    ("symmetric_difference no renorm", "AegeanTools/regions.py",
     "        self.pixeldict[self.maxdepth].symmetric_difference_update(opd)"
     "\n        self._renorm()",
     "        self.pixeldict[self.maxdepth].symmetric_difference_update(opd)",
     "C08-R"),
    ("promotion keeps children", "AegeanTools/regions.py",
     "                        self.pixeldict[d].difference_update(nset)\n",
     "", "C08-R4"),
    ("demotion children", "AegeanTools/regions.py",
     "pd[d+1].update(set((4*p, 4*p+1, 4*p+2, 4*p+3)))",
     "pd[d+1].update(set((4*p, 4*p+1, 4*p+2, 4*p+4)))", "C08-R4"),
    ("demotion keeps source level", "AegeanTools/regions.py",
     "                pd[d] = set()  # clear the pixels from this level\n",
     "", "C08-R4"),
    ("query renormalises", "AegeanTools/regions.py",
     "        self._demote_all()\n        return self.demoted",
     "        self._renorm()\n        self._demote_all()\n        return "
     "self.demoted", "C08-R5"),
    ("area summed over levels", "AegeanTools/regions.py",
     "        area = len(self.get_demoted()) * \\\n            "
     "hp.nside2pixarea(2**self.maxdepth, degrees=degrees)\n",
     "        area = 0\n        for d in range(1, self.maxdepth+1):\n"
     "            area += len(self.pixeldict[d]) * \\\n                "
     "hp.nside2pixarea(2**d, degrees=degrees)\n", "C08-R8"),
    ("reg export skips deepest level", "AegeanTools/regions.py",
     "            for d in range(1, self.maxdepth+1):\n                for p "
     "in self.pixeldict[d]:\n                    line =",
     "            for d in range(1, self.maxdepth):\n                for p "
     "in self.pixeldict[d]:\n                    line =", "C08-R6"),
    ("flattening skips coarse levels", "AegeanTools/regions.py",
     "            for d in range(1, self.maxdepth):\n                for p in "
     "pd[d]:", "            for d in range(3, self.maxdepth):\n"
     "                for p in pd[d]:", "C08-R4"),
    ("removed numpy symbol", "AegeanTools/regions.py",
     "result = np.isin(pix, list(pixelset))",
     "result = np.in1d(pix, list(pixelset))", "C08-R7"),
    ("save empties the cache in place (seed C12b)", "AegeanTools/regions.py",
     "        cPickle.dump(self, open(mimfile, 'wb'), protocol=2)",
     "        self.demoted.clear()\n"
     "        cPickle.dump(self, open(mimfile, 'wb'), protocol=2)", "C08-R9"),
    ("operand's flattened set consumed in place", "AegeanTools/regions.py",
     "        opd = set(other.get_demoted())\n        self.pixeldict[self.maxdepth].difference_update(opd)",
     "        opd = other.get_demoted()\n        opd &= self.pixeldict[self.maxdepth]\n"
     "        self.pixeldict[self.maxdepth].difference_update(opd)", "C08-R9"),
    ("intersect returns early for an empty operand (seed C08c)",
     "AegeanTools/regions.py",
     "        opd = set(other.get_demoted())\n        self.pixeldict[self.maxdepth].intersection_update(opd)",
     "        opd = set(other.get_demoted())\n        if len(opd) == 0:\n            return\n"
     "        self.pixeldict[self.maxdepth].intersection_update(opd)", "C08-R3"),
    ("pixel ids cast to int32", "AegeanTools/regions.py",
     "pix = hp.ang2pix(2**self.maxdepth, theta, phi, nest=True)",
     "pix = hp.ang2pix(2**self.maxdepth, theta, phi, nest=True).astype(np.int32)", "C08-R10"),
    ("add_pixels replaces the level set", "AegeanTools/regions.py",
     "        self.pixeldict[depth].update(set(pix))",
     "        self.pixeldict[depth] = set(pix)", "C08-R11"),
]
TWINS = [
    ("shift instead of floor division", "AegeanTools/regions.py",
     "self.pixeldict[d-1].add(p//4)", "self.pixeldict[d-1].add(p >> 2)"),
    ("reset through helper", "AegeanTools/regions.py",
     "        self.pixeldict[depth].update(set(pix))\n        # the cached "
     "deepest-level representation is now out of date\n        self.demoted "
     "= set()\n",
     "        self.pixeldict[depth].update(set(pix))\n        self.demoted "
     "= set()\n"),
    ("without returns early for an empty operand (identity)",
     "AegeanTools/regions.py",
     "        opd = set(other.get_demoted())\n        self.pixeldict[self.maxdepth].difference_update(opd)",
     "        opd = set(other.get_demoted())\n        if not opd:\n            return\n"
     "        self.pixeldict[self.maxdepth].difference_update(opd)"),
]



def run(ctx):
    prog = ctx.prog
    ci = region_methods(prog)
    ctx.trust(*RegionLib.trusted)
    # ------------------------------------------------------------- R1
    ctx.rule("C08-R1", "every value inserted into Region.pixeldict[level] is "
             "integer-kinded given integer inputs (D-num)")
    lib = RegionLib()
    obs = R1Obs(ctx)
    roots = [fi for q, fi in prog.functions.items()
             if fi.module in ("AegeanTools.regions", "AegeanTools.MIMAS")
             and fi.parent is None]
    for fi in roots:
        Interp(prog, fi, observers=[obs], lib=lib).run()
    ctx.floor("C08-R1", obs.sites, 8, "insertions into level sets")

    # ------------------------------------------------------------- R2
    r2(ctx, ci)
    # ------------------------------------------------------------- R3
    r3(ctx, ci)
    # ------------------------------------------------------------- R4
    r4(ctx, ci)
    # ------------------------------------------------------------- R5
    r5(ctx, ci)
    # ------------------------------------------------------------- R6
    r6_levels(ctx, ci, "C08-R6")
    # ------------------------------------------------------------- R8
    r8(ctx, ci)
    r9_cache_alias(ctx, ci, "C08-R9")
    r12_derived(ctx, ci, "C08-R12")
    # membership answers come from the flattened set (shared with C09-R6)
    from .c09 import membership_for
    membership_for(ctx, ctx.prog, ci, "C08-R13")
    # membership is answered for every finite position, the poles included:
    # the only positions forced to False are the non-finite ones, decided
    # per position (rule shared with C09-R3 / C10-R8)
    from .c09 import nonfinite_rule
    ctx.rule("C08-R17", "sky_within agrees with the pixel set at every "
             "finite position: only non-finite coordinates are forced to "
             "False (mask = not all-finite along axis 1, no other writer of "
             "the mask, e.g. a colatitude range test that excludes the "
             "poles)")
    nonfinite_rule(ctx, ctx.prog, ci, "C08-R17")
    # pixel identifiers are valid for the level they are stored under: the
    # shape builders query at 2**depth (shared with C09-R1)
    from .c09 import query_rule
    query_rule(ctx, ctx.prog, ci, "C08-R14")
    # save and reload is a plain pickle of the object: no hook that could
    # drop or (through the cache alias) empty a field (shared with C12-R5)
    from .c12 import pickle_rule
    pickle_rule(ctx, ci, "C08-R15")
    r11_add(ctx, ci)
    from .. import precision
    precision.rule(
        ctx, ctx.prog, "C08-R10",
        [lambda sh: sh.startswith("regions.Region.")],
        "pixel identifiers keep full width: no cast to a 32-bit (or "
        "narrower) integer / float type anywhere in Region -- at depth >= "
        "14 a level has 12*4**14 > 2**31 pixels, so narrowed identifiers "
        "wrap and stop being valid for their level",
        "a narrow dtype is used on the way of the pixel identifiers",
        floats=True, ints=True, floor=15)
    # ------------------------------------------------------------- R7
    n = link.check(ctx, ["regions.Region." + m for m in ci.methods] +
                   ["MIMAS.combine_regions", "MIMAS.mask2mim",
                    "MIMAS.intersect_regions"], rule="C08-R7",
                   what="region API")
    ctx.floor("C08-R7", n, 15, "library symbols in the region API")


# --------------------------------------------------------------------------
def classify(ci):
    """fixpoint classification of Region methods"""
    meths = {m: fi for m, fi in ci.methods.items()}
    builder = [m for m, fi in meths.items() if m != "__init__" and any(
        assigns_cache(s) and not is_cache_reset(s)
        for s in walk_no_nested(fi.node) if isinstance(s, ast.stmt))]
    direct = {m: direct_mutations(fi.node) for m, fi in meths.items()}
    cfgs = {m: CFG(fi.node) for m, fi in meths.items()}
    always_resets: set[str] = set()
    mutating = {m for m in meths if direct[m]}
    changed = True
    info = {}
    while changed:
        changed = False
        for m, fi in meths.items():
            if m == "__init__":
                continue
            g = cfgs[m]
            mut_nodes, reset_nodes = set(), set()
            mut_desc = {}
            for n, s in g.stmt.items():
                if g.kind[n] in ("if", "for", "while", "with", "except",
                                 "finally_exc", "propagate"):
                    inner = [s.test] if g.kind[n] in ("if", "while") else \
                        [s.iter] if g.kind[n] == "for" else []
                else:
                    inner = [s]
                for part in inner:
                    if isinstance(part, ast.stmt) and is_cache_reset(part):
                        reset_nodes.add(n)
                    for c in ([part] if isinstance(part, ast.Call) else []) \
                            + [x for x in ast.walk(part)
                               if isinstance(x, ast.Call)]:
                        if isinstance(c.func, ast.Attribute) and \
                                isinstance(c.func.value, ast.Name) and \
                                c.func.value.id == "self":
                            cm = c.func.attr
                            if cm in always_resets:
                                reset_nodes.add(n)
                            elif cm in mutating and cm not in builder:
                                mut_nodes.add(n)
                                mut_desc[n] = "call self.%s()" % cm
                    for node, desc in direct[m]:
                        if node is part or any(node is x
                                               for x in ast.walk(part)):
                            mut_nodes.add(n)
                            mut_desc[n] = desc
            info[m] = (mut_nodes, reset_nodes, mut_desc)
            if mut_nodes and m not in mutating:
                mutating.add(m)
                changed = True
            if m not in always_resets and reset_nodes:
                ok = g.path_avoiding(ENTRY, EXIT, reset_nodes) is None
                # after the last reset no further mutation
                if ok:
                    for mn in mut_nodes - reset_nodes:
                        if g.path_avoiding(mn, EXIT, reset_nodes):
                            ok = False
                    for mn in mut_nodes & reset_nodes:
                        pass
                if ok:
                    always_resets.add(m)
                    changed = True
    return meths, cfgs, info, builder, mutating, always_resets


def r2(ctx, ci):
    ctx.rule("C08-R2", "typestate of the demoted cache: on every path from a "
             "statement that mutates a level set to a normal return of a "
             "Region method there is a cache reset (self.demoted = set()) or "
             "a call to a method that always ends with one; the cache "
             "builder uses no loop variable that is unbound when maxdepth=1")
    meths, cfgs, info, builder, mutating, always_resets = classify(ci)
    if len(builder) != 1:
        raise AnalysisError("C08-R2: expected exactly one cache builder "
                            "(method assigning self.demoted a non-empty "
                            "value), found %s" % builder)
    ctx.note("C08-R2 roles: builder=%s mutating=%s always_resets=%s" %
             (builder, sorted(mutating), sorted(always_resets)))
    n = 0
    for m, fi in meths.items():
        if m == "__init__" or m in builder or m not in mutating:
            continue
        g = cfgs[m]
        mut_nodes, reset_nodes, desc = info[m]
        for mn in sorted(mut_nodes):
            n += 1
            p = g.path_avoiding(mn, EXIT, reset_nodes - {mn}) \
                if mn not in reset_nodes else None
            s = g.stmt[mn]
            ctx.check("C08-R2", fi, "mutation: " + desc.get(mn, norm(s)),
                      p is None,
                      "a path from this mutation reaches the normal return "
                      "without resetting the demoted cache: a later "
                      "get_demoted()/sky_within() answers from the stale "
                      "cache", {"mutation": norm(s)}, s,
                      path=g.describe(p) if p else None)
    ctx.floor("C08-R2", n, 6, "mutation sites in mutating Region methods")
    # the builder fills the cache on every path on which it found it empty
    bfi = meths[builder[0]]
    gb = cfgs[builder[0]]
    fill = [nn for nn, s_ in gb.stmt.items() if gb.kind[nn] == "stmt" and
            assigns_cache(s_) and not is_cache_reset(s_)]
    guards = [nn for nn, s_ in gb.stmt.items() if gb.kind[nn] == "if" and
              "demoted" in norm(s_.test)]
    if len(guards) == 1 and fill:
        # which branch of the guard is taken when the cache is EMPTY?
        t = norm(gb.stmt[guards[0]].test).replace(" ", "")
        empty_true = t in ("len(self.demoted)==0", "len(self.demoted)<1",
                           "notself.demoted", "notlen(self.demoted)",
                           "self.demoted==set()")
        empty_false = t in ("len(self.demoted)>0", "len(self.demoted)!=0",
                            "len(self.demoted)>=1", "self.demoted",
                            "len(self.demoted)")
        if not (empty_true or empty_false):
            raise AnalysisError("C08-R2: cache guard `%s` not recognised" % t)
        p = gb.path_avoiding(guards[0], EXIT, fill,
                             first_label="T" if empty_true else "F")
        ctx.check("C08-R2", bfi, "cache filled whenever it was found empty",
                  p is None, "a path from the 'cache is empty' branch "
                  "reaches the return without assigning self.demoted (e.g. "
                  "when the level loop runs zero times for maxdepth=1): "
                  "get_demoted() and sky_within() then answer from an empty "
                  "cache although the region has pixels",
                  node=gb.stmt[guards[0]], path=gb.describe(p) if p else None)
    else:
        raise AnalysisError("C08-R2: cache guard / fill not recognised in "
                            "%s" % builder[0])
    # unbound loop variable in the builder
    n2 = 0
    for blk in _blocks(bfi.node):
        for i, s in enumerate(blk):
            if isinstance(s, ast.For) and isinstance(s.target, ast.Name):
                rng = _range_bounds(s.iter)
                if rng is None:
                    continue
                lo, hi = rng
                l1 = linear(_subst_maxdepth(lo), "MAXDEPTH")
                h1 = linear(_subst_maxdepth(hi), "MAXDEPTH")
                if l1 is None or h1 is None:
                    continue
                empty_at_1 = (h1[0] * 1 + h1[1]) <= (l1[0] * 1 + l1[1])
                assigned_before = any(
                    isinstance(x, ast.Name) and x.id == s.target.id and
                    isinstance(x.ctx, ast.Store)
                    for prev in blk[:i] for x in ast.walk(prev))
                for later in blk[i + 1:]:
                    for x in ast.walk(later):
                        if isinstance(x, ast.Name) and \
                                x.id == s.target.id and \
                                isinstance(x.ctx, ast.Load):
                            n2 += 1
                            ctx.check(
                                "C08-R2", bfi,
                                "use of loop variable '%s' after %s" %
                                (s.target.id, norm(s)),
                                not (empty_at_1 and not assigned_before),
                                "the loop runs zero times for maxdepth=1, so "
                                "'%s' is unbound here (NameError on the "
                                "first query of a depth-1 region)" %
                                s.target.id, node=later)
                            break
                        else:
                            continue
                    else:
                        continue
                    break


def _blocks(fnode):
    yield fnode.body
    for n in walk_no_nested(fnode):
        for f in ("body", "orelse", "finalbody"):
            b = getattr(n, f, None)
            if isinstance(b, list) and b and isinstance(b[0], ast.stmt) \
                    and n is not fnode:
                yield b


def _range_bounds(it):
    if isinstance(it, ast.Call) and isinstance(it.func, ast.Name) and \
            it.func.id == "range" and not it.keywords:
        if len(it.args) == 1:
            return ast.Constant(0), it.args[0]
        if len(it.args) == 2:
            return it.args[0], it.args[1]
        if len(it.args) == 3:
            return it.args[0], it.args[1]
    return None


class _Sub(ast.NodeTransformer):
    def visit_Attribute(self, n):
        if n.attr == "maxdepth" and isinstance(n.value, ast.Name) and \
                n.value.id == "self":
            return ast.Name("MAXDEPTH", ast.Load())
        return self.generic_visit(n)


def _subst_maxdepth(e):
    import copy
    return _Sub().visit(copy.deepcopy(e))


# --------------------------------------------------------------------------
def _emptiness(fnode, test, opname):
    """If `test` only asks whether the operand of the set operation (name
    `opname`, or other.get_demoted() itself) is empty, return (value of the
    test for an empty operand, value for a non-empty one); else None."""
    def is_operand(e):
        if isinstance(e, ast.Name) and e.id == opname:
            return True
        return _depends_on_call(fnode, e, "other", ("get_demoted",)) and \
            isinstance(e, (ast.Name, ast.Call))

    def ev(e, empty):
        if isinstance(e, ast.Constant) and isinstance(e.value, (int, bool)):
            return e.value
        if is_operand(e):
            return not empty            # truthiness of the set
        if isinstance(e, ast.Call) and norm(e.func) == "len" and \
                len(e.args) == 1 and is_operand(e.args[0]):
            return 0 if empty else 1
        if isinstance(e, ast.UnaryOp) and isinstance(e.op, ast.Not):
            return not ev(e.operand, empty)
        if isinstance(e, ast.Compare) and len(e.ops) == 1:
            l_, r_ = ev(e.left, empty), ev(e.comparators[0], empty)
            # "non-empty" stands for every size >= 1: only comparisons with
            # 0 / 1 thresholds that separate 0 from >= 1 are decided
            op = type(e.ops[0])
            table = {ast.Eq: l_ == r_, ast.NotEq: l_ != r_, ast.Lt: l_ < r_,
                     ast.LtE: l_ <= r_, ast.Gt: l_ > r_, ast.GtE: l_ >= r_}
            if op not in table:
                raise ValueError
            consts = [x for x in (e.left, e.comparators[0])
                      if isinstance(x, ast.Constant)]
            if len(consts) != 1 or consts[0].value not in (0, 1):
                raise ValueError
            if consts[0].value == 1 and op in (ast.Eq, ast.NotEq, ast.Gt,
                                               ast.LtE):
                raise ValueError      # distinguishes 1 from 2: not emptiness
            return table[op]
        raise ValueError
    try:
        return bool(ev(test, True)), bool(ev(test, False))
    except (ValueError, TypeError):
        return None


def _helper_calls(ci, node):
    """[(call, helper FuncInfo, name of the helper parameter that receives
    `other`)] for self.<private method>(... other ...) calls inside node"""
    out = []
    for c in ast.walk(node):
        if isinstance(c, ast.Call) and isinstance(c.func, ast.Attribute) \
                and isinstance(c.func.value, ast.Name) and \
                c.func.value.id == "self" and c.func.attr in ci.methods:
            h = ci.methods[c.func.attr]
            hp = h.params[1:] if h.params[:1] == ["self"] else h.params
            bound = None
            for k, a in enumerate(c.args):
                if norm(a) == "other" and k < len(hp):
                    bound = hp[k]
            for kw in c.keywords:
                if norm(kw.value) == "other" and kw.arg in hp:
                    bound = kw.arg
            out.append((c, h, bound))
    return out


def _helper_demotes(h):
    """every normal return of helper h is preceded by a flattening of self"""
    g = CFG(h.node)
    dem = [n for n, s in g.stmt.items() if g.kind[n] == "stmt" and any(
        isinstance(x, ast.Call) and norm(x.func) in
        ("self._demote_all", "self.get_demoted") for x in ast.walk(s))]
    return bool(dem) and g.path_avoiding(ENTRY, EXIT, set(dem)) is None


def _helper_returns_demoted(h, param):
    rets = [s for s in walk_no_nested(h.node) if isinstance(s, ast.Return)]
    return bool(rets) and param is not None and all(
        r.value is not None and _depends_on_call(
            h.node, r.value, param, ("get_demoted",)) for r in rets)


def r3(ctx, ci, rule="C08-R3"):
    ctx.rule(rule, "without/intersect/symmetric_difference apply "
             "difference_update/intersection_update/"
             "symmetric_difference_update to self.pixeldict[self.maxdepth], "
             "after self._demote_all(), with an operand data-dependent on "
             "other.get_demoted(), guarded by an equal-depth check that "
             "raises, and followed by self._renorm(); union updates each "
             "common level and floor-divides deeper pixels of other")
    for m, setop in OP_TABLE.items():
        if m not in ci.methods:
            raise AnalysisError("C08-R3: Region.%s missing" % m)
        fi = ci.methods[m]
        body = [s for s in fi.node.body
                if not (isinstance(s, ast.Expr) and
                        isinstance(s.value, ast.Constant))]
        al = pixeldict_aliases(fi.node)
        ops = []
        for n in walk_no_nested(fi.node):
            if isinstance(n, ast.Call) and \
                    isinstance(n.func, ast.Attribute) and \
                    n.func.attr.endswith("_update") or \
                    (isinstance(n, ast.Call) and
                     isinstance(n.func, ast.Attribute) and
                     n.func.attr == "update" and
                     levelset_owner(n.func.value, al)):
                o = levelset_owner(n.func.value, al)
                if o and o[0] == "self":
                    ops.append((n, o))
        ctx.check(rule, fi, "set operation of %s" % m,
                  len(ops) == 1 and ops[0][0].func.attr == setop,
                  "expected exactly one in-place %s on the deepest level "
                  "set of self, found %s" %
                  (setop, [c.func.attr for c, _ in ops]),
                  {"found": [norm(c) for c, _ in ops]},
                  ops[0][0] if ops else fi.node)
        if len(ops) != 1:
            continue
        call, (_, level) = ops[0]
        ctx.check(rule, fi, "level of the operated set in %s" % m,
                  norm(level) == "self.maxdepth",
                  "the set operation must act on level self.maxdepth "
                  "(the demoted representation), found level %s" %
                  norm(level), node=call)
        # operand depends on other.get_demoted()
        dep = _depends_on_call(fi.node, call.args[0] if call.args else None,
                               "other", ("get_demoted",))
        if not dep and call.args:
            # ... or on a helper that returns other's flattened set
            ex = call.args[0]
            for _ in range(4):
                if isinstance(ex, ast.Name):
                    r_ = _resolve_local(fi.node, ex)
                    if r_ is ex:
                        break
                    ex = r_
            dep = any(b is not None and _helper_returns_demoted(h, b)
                      for c_, h, b in _helper_calls(ci, ex))
        ctx.check(rule, fi, "operand of the set operation in %s" % m,
                  dep, "operand %s is not derived from other.get_demoted()"
                  % (norm(call.args[0]) if call.args else "<none>"),
                  node=call)
        # order: guard raise, _demote_all before, _renorm after
        g = CFG(fi.node)
        opn = [n for n, s in g.stmt.items()
               if any(x is call for x in ast.walk(s))
               and g.kind[n] == "stmt"]
        dem = [n for n, s in g.stmt.items() if g.kind[n] == "stmt" and any(
            isinstance(x, ast.Call) and norm(x.func) in
            ("self._demote_all", "self.get_demoted") for x in ast.walk(s))]
        dem += [n for n, s in g.stmt.items() if g.kind[n] == "stmt" and any(
            _helper_demotes(h) for c_, h, b in _helper_calls(ci, s))]
        ren = [n for n, s in g.stmt.items() if g.kind[n] == "stmt" and any(
            isinstance(x, ast.Call) and norm(x.func) == "self._renorm"
            for x in ast.walk(s))]
        ok_dem = bool(opn) and any(g.dominates(d, opn[0]) and d != opn[0]
                                   for d in dem)
        ctx.check(rule, fi, "demote-before-operate in %s" % m, ok_dem,
                  "self._demote_all() does not dominate the set operation: "
                  "coarser-level pixels of self would be ignored", node=call)
        ok_ren = bool(opn) and \
            g.path_avoiding(opn[0], EXIT, set(ren)) is None
        ctx.check(rule, fi, "renorm-after-operate in %s" % m, ok_ren,
                  "a path from the set operation reaches the return without "
                  "self._renorm() (normal form / cache reset)", node=call)
        # a normal return that skips the set operation is only allowed
        # where the operation would be the identity: an EMPTY operand for
        # difference / symmetric difference (never for intersection)
        if opn:
            bypass = g.path_avoiding(ENTRY, EXIT, set(opn))
            explained = False
            why = ""
            if bypass:
                opname = norm(call.args[0]) if call.args else ""
                for k_, nd in enumerate(bypass[:-1]):
                    if g.kind.get(nd) != "if":
                        continue
                    lab = g.g[nd][bypass[k_ + 1]].get("label")
                    tv = _emptiness(fi.node, g.stmt[nd].test, opname)
                    if tv is None:
                        continue
                    on_empty, on_full = tv
                    taken = (lab == "T")
                    if on_empty == taken and on_full != taken:
                        explained = setop in ("difference_update",
                                              "symmetric_difference_update")
                        why = "taken when the operand is empty (`%s`)" % \
                            norm(g.stmt[nd].test)
                ctx.check(rule, fi, "every normal return of %s applies "
                          "the set operation" % m, explained,
                          "the path %s returns without %s%s: %s" % (
                              g.describe(bypass), setop,
                              (", " + why) if why else "",
                              "intersecting with an empty region must EMPTY "
                              "self, not leave it unchanged"
                              if setop == "intersection_update" else
                              "the region is left unchanged although the "
                              "operation is not the identity there"),
                          node=call, path=g.describe(bypass))
            else:
                ctx.ob(rule, fi, "every normal return of %s applies the "
                       "set operation" % m, True, {}, call)
        # equal-depth guard: an If whose test compares self.maxdepth with
        # other.maxdepth and whose failing branch raises, dominating the op
        guard_ok = False

        def raising_depth_guard(stmts):
            for st in stmts:
                for x in ast.walk(st):
                    if isinstance(x, ast.If) and \
                            {"self.maxdepth", "other.maxdepth"} <= \
                            {norm(a) for a in ast.walk(x.test)
                             if isinstance(a, ast.Attribute)} and any(
                                isinstance(r, ast.Raise)
                                for b in (x.body, x.orelse) for y in b
                                for r in ast.walk(y)):
                        return True
            return False
        for n, s in g.stmt.items():
            if g.kind[n] == "if" and raising_depth_guard([s]) and opn and \
                    g.dominates(n, opn[0]):
                guard_ok = True
            # the guard may live in a helper method called with `other`
            if g.kind[n] == "stmt" and opn and g.dominates(n, opn[0]):
                for c in ast.walk(s):
                    if isinstance(c, ast.Call) and \
                            isinstance(c.func, ast.Attribute) and \
                            isinstance(c.func.value, ast.Name) and \
                            c.func.value.id == "self" and \
                            c.func.attr in ci.methods and \
                            any(norm(a) == "other" for a in c.args):
                        h = ci.methods[c.func.attr]
                        if h.params[1:2] == ["other"] and \
                                raising_depth_guard(h.node.body):
                            guard_ok = True
        ctx.check(rule, fi, "equal-depth guard in %s" % m, guard_ok,
                  "no raising guard comparing self.maxdepth with "
                  "other.maxdepth dominates the set operation: operands of "
                  "different depth would be combined pixel-id-wise", node=call)
    # union
    fi = ci.methods.get("union")
    if fi is None:
        raise AnalysisError("C08-R3: Region.union missing")
    al = pixeldict_aliases(fi.node)
    okc = False
    import copy as _copy
    import sympy as sp
    from .. import sym as _sym
    S_, O_ = sp.Symbol("S", integer=True, positive=True), \
        sp.Symbol("O", integer=True, positive=True)

    class _Res(ast.NodeTransformer):
        def visit_Name(self, nd):
            r = _resolve_local(fi.node, nd)
            if r is not nd and isinstance(nd.ctx, ast.Load):
                return self.visit(_copy.deepcopy(r))
            return nd

    def symb(e, extra=None):
        env = {"self.maxdepth": S_, "other.maxdepth": O_}
        env.update(extra or {})
        e2 = _Res().visit(_copy.deepcopy(e))
        try:
            return _sym.Translator(ctx.prog, ctx.prog.modules[fi.module],
                                   env).expr(e2)
        except _sym.Untranslatable:
            return None
    common = [n for n in walk_no_nested(fi.node) if isinstance(n, ast.For)
              and _range_bounds(n.iter) and any(
                  isinstance(c_, ast.Call) and norm(c_.func) == "min"
                  for c_ in ast.walk(_Res().visit(_copy.deepcopy(n.iter))))]
    for lp in common:
        lo, hi = _range_bounds(lp.iter)
        hs, ls = symb(hi), symb(lo)
        wants = [symb(ast.parse(t_, mode="eval").body) for t_ in (
            "min(self.maxdepth, other.maxdepth) + 1",
            "min(other.maxdepth, self.maxdepth) + 1")]
        if ls == 1 and hs is not None and any(
                w_ is not None and sp.simplify(hs - w_) == 0
                for w_ in wants):
            for c in ast.walk(lp):
                if isinstance(c, ast.Call) and norm(c.func) in (
                        "self.add_pixels",) and len(c.args) >= 2 and \
                        norm(c.args[1]) == lp.target.id and \
                        norm(c.args[0]) == "other.pixeldict[%s]" % \
                        lp.target.id:
                    okc = True
                if isinstance(c, ast.Call) and \
                        isinstance(c.func, ast.Attribute) and \
                        c.func.attr == "update":
                    o = levelset_owner(c.func.value, al)
                    if o and o[0] == "self" and norm(o[1]) == lp.target.id \
                            and c.args and norm(c.args[0]) == \
                            "other.pixeldict[%s]" % lp.target.id:
                        okc = True
    ctx.check(rule, fi, "union: common levels", okc,
              "union must add other.pixeldict[d] into level d of self for "
              "d = 1..min(self.maxdepth, other.maxdepth)", node=fi.node)
    # deeper levels: added value is p // 4**(d - self.maxdepth)
    found = False
    for c in walk_no_nested(fi.node):
        if isinstance(c, ast.Call) and isinstance(c.func, ast.Attribute) \
                and c.func.attr == "add":
            o = levelset_owner(c.func.value, al)
            if o and o[0] == "self":
                found = True
                ctx.check(rule, fi, "union: promotion target level",
                          norm(o[1]) == "self.maxdepth",
                          "deeper pixels of other must be promoted to level "
                          "self.maxdepth, found %s" % norm(o[1]), node=c)
                v = _resolve_local(fi.node, c.args[0]) if c.args else None
                shape_ok = isinstance(v, ast.BinOp) and \
                    isinstance(v.op, (ast.FloorDiv, ast.RShift, ast.Div))
                div_ok = False
                if shape_ok:
                    # the level variable: the loop over the deeper levels
                    lvl = [l_.target.id for l_ in walk_no_nested(fi.node)
                           if isinstance(l_, ast.For) and
                           isinstance(l_.target, ast.Name) and
                           _range_bounds(l_.iter) and
                           any(x is c for x in ast.walk(l_))]
                    D_ = sp.Symbol("D", integer=True, positive=True)
                    rs = symb(v.right, {lvl[0]: D_}) if lvl else None
                    if rs is not None:
                        want = 2 * (D_ - S_) if isinstance(
                            v.op, ast.RShift) else 4 ** (D_ - S_)
                        div_ok = sp.simplify(rs - want) == 0
                # ... for EVERY deeper level of the operand
                lps = [l_ for l_ in walk_no_nested(fi.node)
                       if isinstance(l_, ast.For) and
                       isinstance(l_.target, ast.Name) and
                       _range_bounds(l_.iter) and
                       any(x is c for x in ast.walk(l_))]
                if lps:
                    lo_, hi_ = _range_bounds(lps[0].iter)
                    ls_, hs_ = symb(lo_), symb(hi_)
                    okr = ls_ is not None and hs_ is not None and \
                        sp.simplify(hs_ - (O_ + 1)) == 0 and \
                        sp.simplify(ls_ - (S_ + 1)) in (0, -1)
                    ctx.check(rule, fi, "union: deeper levels " +
                              norm(lps[0].iter, 60), bool(okr),
                              "the levels self.maxdepth+1 .. other.maxdepth "
                              "of the finer operand must all be promoted; "
                              "the loop runs over %s" % norm(lps[0].iter),
                              node=lps[0])
                ctx.check(rule, fi, "union: promotion divisor",
                          shape_ok and div_ok,
                          "a pixel of level d>maxdepth maps to "
                          "p // 4**(d-maxdepth); found %s" %
                          (norm(v) if v is not None else "?"), node=c)
    ctx.check(rule, fi, "union: deeper levels handled", found,
              "no promotion of other's deeper levels into self found",
              node=fi.node)


def _resolve_local(fnode, expr):
    """the defining expression of a local name that is bound exactly once
    (directly, or element-wise by  a, b = x, y ); anything else is returned
    unchanged"""
    if isinstance(expr, ast.Name):
        defs = []
        other = 0
        for n in walk_no_nested(fnode):
            if isinstance(n, ast.Assign):
                for t in n.targets:
                    if isinstance(t, ast.Name) and t.id == expr.id:
                        if len(n.targets) == 1:
                            defs.append(n.value)
                        else:
                            other += 1
                    elif isinstance(t, (ast.Tuple, ast.List)) and any(
                            isinstance(e, ast.Name) and e.id == expr.id
                            for e in t.elts):
                        if len(n.targets) == 1 and isinstance(
                                n.value, (ast.Tuple, ast.List)) and \
                                len(n.value.elts) == len(t.elts) and \
                                not any(isinstance(e, ast.Starred)
                                        for e in list(t.elts) +
                                        list(n.value.elts)):
                            k = [isinstance(e, ast.Name) and e.id == expr.id
                                 for e in t.elts].index(True)
                            defs.append(n.value.elts[k])
                        else:
                            other += 1
            elif isinstance(n, (ast.AugAssign, ast.For, ast.AnnAssign)) and \
                    isinstance(getattr(n, "target", None), ast.Name) and \
                    n.target.id == expr.id:
                other += 1
        if len(defs) == 1 and not other:
            return defs[0]
    return expr


def _depends_on_call(fnode, expr, recv, methods, depth=0):
    if expr is None or depth > 6:
        return False
    for x in ast.walk(expr):
        if isinstance(x, ast.Call) and isinstance(x.func, ast.Attribute) and \
                x.func.attr in methods and \
                isinstance(x.func.value, ast.Name) and \
                x.func.value.id == recv:
            return True
        # the value of an inlined private helper (loader normalisation)
        if getattr(x, "_inlined_from", None) in [
                "%s.%s" % (recv, m_) for m_ in methods]:
            return True
    for x in ast.walk(expr):
        if isinstance(x, ast.Name):
            r = _resolve_local(fnode, x)
            if r is not x and _depends_on_call(fnode, r, recv, methods,
                                               depth + 1):
                return True
    return False


# --------------------------------------------------------------------------
def r4(ctx, ci):
    ctx.rule("C08-R4", "normal form: promotion adds parent p//4 and removes "
             "exactly {p..p+3} in the same block under the guard p%4==0 and "
             "p+1,p+2,p+3 present; demotion adds exactly 4p..4p+3 to the "
             "next level and clears the source level")
    fi = ci.methods.get("_renorm")
    if fi is None:
        raise AnalysisError("C08-R4: Region._renorm missing")
    al = pixeldict_aliases(fi.node)
    adds = []
    for blk in _blocks(fi.node):
        a = r = None
        for s in blk:
            for c in ast.walk(s) if not isinstance(
                    s, (ast.If, ast.For, ast.While)) else []:
                if isinstance(c, ast.Call) and \
                        isinstance(c.func, ast.Attribute):
                    o = levelset_owner(c.func.value, al)
                    if o and o[0] == "self":
                        if c.func.attr == "add":
                            a = (c, o[1])
                        if c.func.attr in ("difference_update",
                                           "discard", "remove"):
                            r = (c, o[1])
        if a or r:
            adds.append((blk, a, r))
    promo = [x for x in adds if x[1]]
    ctx.floor("C08-R4", len(promo), 1, "promotion sites in _renorm")
    for blk, a, r in promo:
        ctx.check("C08-R4", fi, "paired promotion " + norm(a[0]),
                  r is not None,
                  "the parent is added but the children are not removed in "
                  "the same block: sky would be represented twice",
                  node=a[0])
        if r is None:
            continue
        # loop variable: innermost For over a copy of the level set
        sym = None
        for lp in walk_no_nested(fi.node):
            if isinstance(lp, ast.For) and isinstance(lp.target, ast.Name) \
                    and any(x is a[0] for x in ast.walk(lp)):
                sym = lp.target.id
        pa = a[0].args[0] if a[0].args else None
        pa = _resolve_local(fi.node, pa)
        okp = isinstance(pa, ast.BinOp) and (
            (isinstance(pa.op, (ast.FloorDiv, ast.Div)) and
             norm(pa.left) == sym and norm(pa.right) == "4") or
            (isinstance(pa.op, ast.RShift) and norm(pa.left) == sym and
             norm(pa.right) == "2"))
        ctx.check("C08-R4", fi, "parent id " + norm(a[0]), okp,
                  "parent of pixel p is p//4, found %s" %
                  (norm(pa) if pa is not None else "?"), node=a[0])
        # parent level = child level - 1
        lvl = None
        for lp in walk_no_nested(fi.node):
            if isinstance(lp, ast.For) and isinstance(lp.target, ast.Name) \
                    and any(x is a[0] for x in ast.walk(lp)) and \
                    lp.target.id != sym and lp.target.id in (
                        names_in(a[1]) | names_in(r[1])):
                lvl = lp.target.id
        la = linear(a[1], lvl) if lvl else None
        lr = linear(r[1], lvl) if lvl else None
        ctx.check("C08-R4", fi, "levels of promotion " + norm(a[0]),
                  la is not None and lr is not None and
                  la[0] == lr[0] == 1 and la[1] == lr[1] - 1,
                  "parent must go to the level above the children: add at "
                  "[%s], remove at [%s]" % (norm(a[1]), norm(r[1])),
                  node=a[0])
        # removed set = {p, p+1, p+2, p+3}
        rs = _resolve_local(fi.node, r[0].args[0]) if r[0].args else None
        elts = _set_elts(rs)
        forms = sorted(linear(e, sym) or (None, None) for e in elts) \
            if elts is not None and sym else None
        ctx.check("C08-R4", fi, "children removed " + norm(r[0]),
                  forms == [(1, 0), (1, 1), (1, 2), (1, 3)],
                  "the removed children must be exactly {p,p+1,p+2,p+3}; "
                  "found %s" % (norm(rs) if rs is not None else "?"),
                  node=r[0])
        # guard: p % 4 == 0 and membership of p+1..p+3 (as syntax trees:
        # enclosing if-tests, and `if C: continue` earlier in the loop body
        # contributes not-C)
        conds = []          # (test, holds?)
        for iff in walk_no_nested(fi.node):
            if isinstance(iff, ast.If) and any(
                    x is a[0] for st in iff.body for x in ast.walk(st)):
                conds.append((iff.test, True))
        for lp in walk_no_nested(fi.node):
            if isinstance(lp, ast.For) and any(
                    x is a[0] for x in ast.walk(lp)):
                for st in lp.body:
                    if any(x is a[0] for x in ast.walk(st)):
                        break
                    if isinstance(st, ast.If) and len(st.body) == 1 and \
                            isinstance(st.body[0], ast.Continue) and \
                            not st.orelse:
                        conds.append((st.test, False))
        flat = []
        for t_, pol in conds:
            while isinstance(t_, ast.UnaryOp) and isinstance(t_.op, ast.Not):
                t_, pol = t_.operand, not pol
            if isinstance(t_, ast.BoolOp) and isinstance(t_.op, ast.And) \
                    and pol:
                flat += [(v_, True) for v_ in t_.values]
            else:
                flat.append((t_, pol))

        def is_mod4(e):
            return isinstance(e, ast.BinOp) and (
                (isinstance(e.op, ast.Mod) and norm(e.right) == "4") or
                (isinstance(e.op, ast.BitAnd) and norm(e.right) == "3")) \
                and norm(e.left) == sym
        first_of_four = False
        present = set()
        for t_, pol in flat:
            if is_mod4(t_) and not pol:          # not (p % 4)
                first_of_four = True
            if isinstance(t_, ast.Compare) and len(t_.ops) == 1:
                l_, r_ = t_.left, t_.comparators[0]
                if is_mod4(l_) and norm(r_) == "0" and (
                        (isinstance(t_.ops[0], ast.Eq) and pol) or
                        (isinstance(t_.ops[0], ast.NotEq) and not pol)):
                    first_of_four = True
                if isinstance(t_.ops[0], ast.In) and pol:
                    lf = linear(l_, sym)
                    if lf and lf[0] == 1:
                        present.add(lf[1])
                if isinstance(t_.ops[0], ast.LtE) and pol:
                    es = _set_elts(_resolve_local(fi.node, l_))
                    if es is not None:
                        for e_ in es:
                            lf = linear(e_, sym)
                            if lf and lf[0] == 1:
                                present.add(lf[1])
            if isinstance(t_, ast.Call) and pol and isinstance(
                    t_.func, ast.Attribute) and t_.func.attr == "issubset":
                es = _set_elts(_resolve_local(fi.node, t_.func.value))
                for e_ in es or []:
                    lf = linear(e_, sym)
                    if lf and lf[0] == 1:
                        present.add(lf[1])
        gtxt = " && ".join(("" if pol else "not ") + norm(t_, 40)
                           for t_, pol in flat)
        ok_g = first_of_four and {1, 2, 3} <= present
        ctx.check("C08-R4", fi, "promotion guard", ok_g,
                  "promotion must be guarded by p%%4==0 and the presence of "
                  "p+1,p+2,p+3; guards found: %s" % gtxt, node=a[0])
    # demotion
    bfi = ci.methods.get("_demote_all")
    if bfi is None:
        raise AnalysisError("C08-R4: Region._demote_all missing")
    al = pixeldict_aliases(bfi.node)
    n = 0
    for lp in walk_no_nested(bfi.node):
        if not (isinstance(lp, ast.For) and isinstance(lp.target, ast.Name)):
            continue
        o = levelset_owner(lp.iter, al)
        if not (o and o[0] == "self"):
            continue
        sym = lp.target.id
        for c in ast.walk(lp):
            if isinstance(c, ast.Call) and isinstance(c.func, ast.Attribute) \
                    and c.func.attr == "update":
                o2 = levelset_owner(c.func.value, al)
                if not (o2 and o2[0] == "self"):
                    continue
                n += 1
                elts = _set_elts(c.args[0]) if c.args else None
                forms = sorted(linear(e, sym) or (None, None)
                               for e in elts) if elts is not None else None
                ctx.check("C08-R4", bfi, "children added " + norm(c),
                          forms == [(4, 0), (4, 1), (4, 2), (4, 3)],
                          "demoting pixel p must add exactly 4p..4p+3; "
                          "found %s" % (norm(c.args[0]) if c.args else "?"),
                          node=c)
                lv_ = [l2.target.id for l2 in walk_no_nested(bfi.node)
                       if isinstance(l2, ast.For) and l2 is not lp
                       and isinstance(l2.target, ast.Name)
                       and any(x is lp for x in ast.walk(l2))
                       and l2.target.id in names_in(o[1])]
                ls = linear(o[1], lv_[-1]) if lv_ else None
                ld = linear(o2[1], lv_[-1]) if lv_ else None
                ctx.check("C08-R4", bfi, "levels of demotion " + norm(c),
                          ls is not None and ld is not None and
                          ld[0] == ls[0] == 1 and ld[1] == ls[1] + 1,
                          "children go one level below their parent: read "
                          "[%s], write [%s]" % (norm(o[1]), norm(o2[1])),
                          node=c)
        # the source level is cleared in the enclosing level loop
        outer = None
        for lp2 in walk_no_nested(bfi.node):
            if isinstance(lp2, ast.For) and lp2 is not lp and \
                    any(x is lp for x in ast.walk(lp2)):
                outer = lp2
        cleared = False
        if outer is not None:
            for s in outer.body:
                if isinstance(s, ast.Assign):
                    for t in s.targets:
                        o3 = levelset_owner(t, al)
                        if o3 and o3[0] == "self" and \
                                norm(o3[1]) == norm(o[1]) and \
                                norm(s.value) in ("set()", "set([])"):
                            cleared = True
                if isinstance(s, ast.Expr) and isinstance(s.value, ast.Call) \
                        and norm(s.value.func).endswith(".clear"):
                    o3 = levelset_owner(s.value.func.value, al)
                    if o3 and norm(o3[1]) == norm(o[1]):
                        cleared = True
        ctx.check("C08-R4", bfi, "source level cleared after demotion",
                  cleared, "level [%s] is not emptied after its pixels were "
                  "demoted: the same sky would be stored at two levels" %
                  norm(o[1]), node=lp)
    ctx.floor("C08-R4", n, 1, "demotion update sites in _demote_all")
    demotion_levels(ctx, ci, "C08-R4")


def demotion_levels(ctx, ci, rule):
    """the flattening loop must read every level above the deepest one:
    source levels 1 .. maxdepth-1 (shared with C09)"""
    bfi = ci.methods.get("_demote_all")
    if bfi is None:
        raise AnalysisError("Region._demote_all missing")
    al = pixeldict_aliases(bfi.node)
    found = 0
    for lp in walk_no_nested(bfi.node):
        if not (isinstance(lp, ast.For) and isinstance(lp.target, ast.Name)):
            continue
        rb = _range_bounds(lp.iter)
        if rb is None:
            continue
        srcs = []
        for inner in ast.walk(lp):
            if isinstance(inner, ast.For) and inner is not lp:
                o = levelset_owner(inner.iter, al)
                if o and o[0] == "self":
                    srcs.append(o[1])
        if not srcs:
            continue
        lo = linear(_subst_maxdepth(rb[0]), "MAXDEPTH")
        hi = linear(_subst_maxdepth(rb[1]), "MAXDEPTH")
        for lv in srcs:
            off = linear(lv, lp.target.id)
            found += 1
            if lo is None or hi is None or off is None or off[0] != 1:
                ctx.unknown_site(rule, bfi, norm(lp), lp)
                continue
            first = (lo[0], lo[1] + off[1])
            last = (hi[0], hi[1] - 1 + off[1])
            ctx.check(rule, bfi, "levels flattened by " + norm(lp),
                      first == (0, 1) and last == (1, -1),
                      "the flattening reads levels %s..%s but pixels can be "
                      "stored at every level 1..maxdepth-1 above the "
                      "deepest one: pixels at the skipped levels are "
                      "missing from get_demoted()/sky_within() while "
                      "get_area() still counts them" %
                      (_fmt(first), _fmt(last)), {"first": first,
                                                  "last": last}, lp)
    ctx.floor(rule + "-levels", found, 1, "flattening loops in _demote_all")


def _set_elts(e):
    if e is None:
        return None
    if isinstance(e, ast.Set):
        return e.elts
    if isinstance(e, ast.Call) and isinstance(e.func, ast.Name) and \
            e.func.id in ("set", "frozenset", "list", "tuple") and \
            len(e.args) == 1:
        return _set_elts(e.args[0]) if not isinstance(
            e.args[0], (ast.Tuple, ast.List)) else e.args[0].elts
    if isinstance(e, (ast.Tuple, ast.List)):
        return e.elts
    return None


# --------------------------------------------------------------------------
def r5(ctx, ci):
    ctx.rule("C08-R5", "query methods (sky_within, get_demoted, get_area, "
             "write_*, _uniq, __repr__, save) never mutate a level set "
             "directly and call no mutating method other than the cache "
             "builder / other queries")
    meths, cfgs, info, builder, mutating, always_resets = classify(ci)
    allowed = set(builder) | set(QUERIES)
    n = 0
    for q in QUERIES:
        if q not in meths:
            continue
        fi = meths[q]
        n += 1
        d = direct_mutations(fi.node)
        ctx.check("C08-R5", fi, "no direct mutation in query " + q, not d,
                  "query method mutates a level set: %s" %
                  [x[1] for x in d], node=d[0][0] if d else fi.node)
        for c, m in self_calls(fi.node):
            if m in mutating and m not in allowed:
                ctx.check("C08-R5", fi, "query %s calls self.%s" % (q, m),
                          False, "a query calls the mutating method %s: "
                          "a read-only question changes later answers" % m,
                          node=c)
    ctx.floor("C08-R5", n, 6, "query methods of Region")


# --------------------------------------------------------------------------
def r6_levels(ctx, ci, rule):
    ctx.rule(rule, "every consumer that enumerates all pixels of a region "
             "(get_area, write_reg, _uniq) iterates exactly the levels "
             "1..maxdepth created by __init__")
    # key set created by __init__
    init = ci.methods.get("__init__")
    if init is None:
        raise AnalysisError("Region.__init__ missing")
    created = None
    for n in walk_no_nested(init.node):
        if isinstance(n, ast.Call) and isinstance(n.func, ast.Name) and \
                n.func.id == "range" and len(n.args) == 2:
            lo = linear(n.args[0], "maxdepth")
            hi = linear(n.args[1], "maxdepth")
            if lo is not None and hi is not None:
                created = (lo, (hi[0], hi[1] - 1))
    if created is None:
        raise AnalysisError("cannot determine level keys created by "
                            "Region.__init__")
    cnt = 0
    for m in ("get_area", "write_reg", "_uniq"):
        fi = ci.methods.get(m)
        if fi is None:
            raise AnalysisError("Region.%s missing" % m)
        al = pixeldict_aliases(fi.node)
        if any(isinstance(c, ast.Call) and norm(c.func) in (
                "self.get_demoted", "self._demote_all")
               for c in walk_no_nested(fi.node)) and not any(
                isinstance(x, ast.Subscript) and levelset_owner(x, al)
                for x in walk_no_nested(fi.node)):
            cnt += 1
            ctx.ob(rule, fi, "%s works on the flattened set" % m, True, {},
                   fi.node)
            continue
        class _L:          # a loop or a comprehension clause over levels
            def __init__(self, target, it, scope):
                self.target, self.iter, self.scope = target, it, scope
                self.lineno = getattr(scope, "lineno", 0)
        level_loops = []
        for x_ in walk_no_nested(fi.node):
            if isinstance(x_, ast.For):
                level_loops.append(_L(x_.target, x_.iter, x_))
            elif isinstance(x_, (ast.ListComp, ast.GeneratorExp,
                                 ast.SetComp)):
                for gen in x_.generators:
                    level_loops.append(_L(gen.target, gen.iter, x_))
        for lp_ in level_loops:
            # iterating the level dictionary itself: whatever keys it holds
            it_ = lp_.iter
            while isinstance(it_, ast.Call) and it_.args and \
                    norm(it_.func) in ("sorted", "list", "iter", "reversed",
                                       "enumerate"):
                it_ = it_.args[0]
            if isinstance(it_, ast.Call) and \
                    isinstance(it_.func, ast.Attribute) and \
                    it_.func.attr in ("items", "keys", "values"):
                it_ = it_.func.value
            whole = (isinstance(it_, ast.Attribute) and
                     it_.attr == "pixeldict" and norm(it_.value) == "self") \
                or (isinstance(it_, ast.Name) and al.get(it_.id) == "self")
            if whole:
                cnt += 1
                ctx.check(rule, fi, "level coverage of " + norm(lp_.iter, 50),
                          False, "iterates whatever keys the level "
                          "dictionary holds instead of the levels "
                          "1..maxdepth: add_pixels creates a key for any "
                          "depth it is given (0, or beyond maxdepth), which "
                          "every query ignores -- this output would include "
                          "those pixels, so the export no longer describes "
                          "the region's membership", node=lp_.scope)
                continue
            if not isinstance(lp_.target, ast.Name):
                continue
            rb = _range_bounds(lp_.iter)
            if rb is None:
                continue
            lp = lp_.scope
            lp_target_id = lp_.target.id
            used = []
            for x in ast.walk(lp):
                o = levelset_owner(x, al) if isinstance(x, ast.Subscript) \
                    else None
                if o and o[0] == "self":
                    used.append(o[1])
            if not used:
                continue
            lo = linear(_subst_maxdepth(rb[0]), "MAXDEPTH")
            hi = linear(_subst_maxdepth(rb[1]), "MAXDEPTH")
            for lv in used:
                off = linear(lv, lp_target_id)
                cnt += 1
                if lo is None or hi is None or off is None or off[0] != 1:
                    ctx.unknown_site(rule, fi, norm(lp), lp)
                    continue
                first = (lo[0], lo[1] + off[1])
                last = (hi[0], hi[1] - 1 + off[1])
                ok = first == created[0] and last == created[1]
                ctx.check(rule, fi, "level coverage of " + norm(lp), ok,
                          "iterates levels %s..%s but the region stores "
                          "levels %s..%s: pixels at the omitted level(s) are "
                          "silently dropped from this output" %
                          (_fmt(first), _fmt(last), _fmt(created[0]),
                           _fmt(created[1])),
                          {"first": first, "last": last}, lp)
    ctx.floor(rule, cnt, 3, "full-region consumers (level loops or flattened)")
    # ... and the normaliser writes only levels of that range: what it put at
    # a level outside 1..maxdepth (the 12 base pixels, say) no consumer
    # enumerates
    rn = ci.methods.get("_renorm")
    if rn is None:
        raise AnalysisError("Region._renorm missing")
    al = pixeldict_aliases(rn.node)
    nw = 0
    for lp in walk_no_nested(rn.node):
        if not (isinstance(lp, ast.For) and isinstance(lp.target, ast.Name)):
            continue
        rb = _range_bounds(lp.iter)
        if rb is None:
            continue
        step = lp.iter.args[2] if len(lp.iter.args) == 3 else None
        down = step is not None and norm(step).replace(" ", "") == "-1"
        a_ = linear(_subst_maxdepth(rb[0]), "MAXDEPTH")
        b_ = linear(_subst_maxdepth(rb[1]), "MAXDEPTH")
        if a_ is None or b_ is None:
            continue
        # values taken by the loop variable: first .. last
        first, last = (a_, (b_[0], b_[1] + 1)) if down else \
            (a_, (b_[0], b_[1] - 1))
        for c in ast.walk(lp):
            lvl = None
            if isinstance(c, ast.Call) and isinstance(c.func, ast.Attribute):
                if c.func.attr in ("add", "update"):
                    o = levelset_owner(c.func.value, al)
                    if o and o[0] == "self":
                        lvl = o[1]
                    elif isinstance(c.func.value, ast.Call) and \
                            isinstance(c.func.value.func, ast.Attribute) and \
                            c.func.value.func.attr == "setdefault" and \
                            c.func.value.args:
                        lvl = c.func.value.args[0]
            if lvl is None:
                continue
            off = linear(lvl, lp.target.id)
            if off is None or off[0] != 1:
                continue
            nw += 1
            ends = [(first[0], first[1] + off[1]), (last[0], last[1] + off[1])]
            lo_w = min(ends, key=lambda t: (t[0], t[1]))
            hi_w = max(ends, key=lambda t: (t[0], t[1]))
            ok = (lo_w[0], lo_w[1]) >= (created[0][0], created[0][1]) and \
                hi_w[0] <= created[1][0] and (
                    hi_w[0] < created[1][0] or hi_w[1] <= created[1][1])
            ctx.check(rule, rn, "levels written by " + norm(c, 50), ok,
                      "the normaliser writes levels %s..%s, outside the "
                      "levels %s..%s that __init__ creates and every "
                      "consumer enumerates: pixels promoted there (complete "
                      "level-1 quads -> base pixels) are missing from the "
                      "exports until some query flattens the region" %
                      (_fmt(lo_w), _fmt(hi_w), _fmt(created[0]),
                       _fmt(created[1])), node=c)
    ctx.floor(rule, nw + cnt, 4, "level writes of _renorm and full-region "
              "consumers")


def r8(ctx, ci):
    ctx.rule("C08-R8", "the area counts every patch of sky once: get_area "
             "either works on the flattened (deepest-level) set, or every "
             "public method that can add pixels re-normalises on all paths "
             "before returning (otherwise the same sky can sit at two "
             "levels and is counted twice until some query flattens it)")
    meths, cfgs, info, builder, mutating, always_resets = classify(ci)
    ga = ci.methods.get("get_area")
    if ga is None:
        raise AnalysisError("Region.get_area missing")
    flattens = any(isinstance(c, ast.Call) and norm(c.func) in (
        "self.get_demoted", "self._demote_all")
        for c in walk_no_nested(ga.node))
    if flattens:
        ctx.ob("C08-R8", ga, "get_area counts the flattened set", True, {},
               ga.node)
        # ... and converts the count with the pixel area OF THAT LEVEL:
        # area = len(flattened) * nside2pixarea(2**self.maxdepth, degrees)
        from ..core import expand_locals
        rets = [r for r in walk_no_nested(ga.node)
                if isinstance(r, ast.Return) and r.value is not None]
        ok = False
        why = "no single return value"
        if len(rets) == 1:
            v = expand_locals(ga.node, rets[0].value)
            why = norm(v, 90)
            if isinstance(v, ast.BinOp) and isinstance(v.op, ast.Mult):
                parts = [v.left, v.right]
                cnt = [x for x in parts if isinstance(x, ast.Call) and
                       norm(x.func) == "len" and any(
                           isinstance(c, ast.Call) and norm(c.func) in (
                               "self.get_demoted",)
                           for c in ast.walk(x))]
                pa = [x for x in parts if isinstance(x, ast.Call) and
                      ctx.prog.dotted(ctx.prog.modules[ga.module], x.func)
                      == "healpy.nside2pixarea"]
                if len(cnt) == 1 and len(pa) == 1:
                    ns = arg_or_kw(pa[0], 0, "nside")
                    dg = arg_or_kw(pa[0], 1, "degrees")
                    dpar = [p_ for p_ in ga.params if p_ != "self"]
                    ok = ns is not None and \
                        norm(ns).replace(" ", "") in (
                            "2**self.maxdepth", "1<<self.maxdepth") and \
                        dg is not None and dpar and norm(dg) == dpar[0]
        ctx.check("C08-R8", ga, "area = count * pixel area of the deepest "
                  "level", ok, "the number of flattened pixels must be "
                  "multiplied by healpy.nside2pixarea(2**self.maxdepth, "
                  "degrees=<the caller's choice>); found %s" % why,
                  node=rets[0] if rets else ga.node)
        return
    bad = []
    for m, fi in meths.items():
        if m.startswith("_") or m not in mutating or m in builder:
            continue
        g = cfgs[m]
        mut_nodes, _, desc = info[m]
        ren = [n for n, s in g.stmt.items() if g.kind[n] == "stmt" and any(
            isinstance(x, ast.Call) and norm(x.func) == "self._renorm"
            for x in ast.walk(s))]
        for mn in mut_nodes:
            p = g.path_avoiding(mn, EXIT, ren)
            if p:
                bad.append((m, desc.get(mn, "?"), g.describe(p)))
                break
    ctx.check("C08-R8", ga, "get_area sums the levels; public mutators "
              "without re-normalisation: %s" % [b[0] for b in bad], not bad,
              "get_area adds up the pixels of every level, but %s can leave "
              "the same sky stored at two levels (no _renorm on the path "
              "%s): the area is over-counted until a membership query "
              "flattens the region, so a read-only query changes a later "
              "answer" % ([b[0] for b in bad], bad[0][2] if bad else ""),
              {"methods": [b[0] for b in bad]}, ga.node)


def r9_cache_alias(ctx, ci, rule):
    """The cache attribute may alias the deepest level set (the builder
    stores the set itself, not a copy).  Then the cache, and everything
    handed out by get_demoted(), must never be modified in place."""
    prog = ctx.prog
    ctx.rule(rule, "aliasing: _demote_all stores the deepest level set "
             "itself in self.demoted, so the cache (and whatever "
             "get_demoted() returns) is only ever re-bound or copied, never "
             "modified in place -- anywhere in the package")
    aliasing = []
    for m, fi in ci.methods.items():
        al = pixeldict_aliases(fi.node)
        for st in walk_no_nested(fi.node):
            if assigns_cache(st):
                v = st.value
                if levelset_owner(v, al) is not None or (
                        isinstance(v, ast.Name) and any(
                            isinstance(a, ast.Assign) and
                            len(a.targets) == 1 and
                            isinstance(a.targets[0], ast.Name) and
                            a.targets[0].id == v.id and
                            levelset_owner(a.value, al) is not None
                            for a in walk_no_nested(fi.node))):
                    aliasing.append((fi, st))
    if not aliasing:
        ctx.ob(rule, ci.methods["__init__"], "the cache never aliases a "
               "level set (always a copy)", True, {}, None)
        return
    INPLACE_AUG = (ast.BitOr, ast.BitAnd, ast.BitXor, ast.Sub)

    def is_cache_expr(e, names):
        if isinstance(e, ast.Attribute) and e.attr == "demoted":
            return True
        if isinstance(e, ast.Call) and isinstance(e.func, ast.Attribute) \
                and e.func.attr == "get_demoted":
            return True
        return isinstance(e, ast.Name) and e.id in names
    n = 0
    for fi in prog.functions.values():
        names = set()
        for st in walk_no_nested(fi.node):
            if isinstance(st, ast.Assign) and len(st.targets) == 1 and \
                    isinstance(st.targets[0], ast.Name) and \
                    is_cache_expr(st.value, ()):
                names.add(st.targets[0].id)
        for x in walk_no_nested(fi.node):
            bad = None
            if isinstance(x, ast.Call) and \
                    isinstance(x.func, ast.Attribute) and \
                    x.func.attr in SET_MUTATORS and \
                    is_cache_expr(x.func.value, names):
                bad = x
            elif isinstance(x, ast.AugAssign) and \
                    isinstance(x.op, INPLACE_AUG) and \
                    is_cache_expr(x.target, names):
                bad = x
            if isinstance(x, (ast.Attribute, ast.Call)) and \
                    is_cache_expr(x, ()):
                n += 1
            if bad is not None:
                ctx.check(rule, fi, "in-place update " + norm(bad, 60), False,
                          "%s modifies the flattened cache in place; after "
                          "any query the cache IS the deepest level set "
                          "(%s in %s), so this silently changes the region "
                          "itself and every later answer / export" %
                          (norm(bad, 60), norm(aliasing[0][1]),
                           aliasing[0][0].short), node=bad)
    ctx.ob(rule, aliasing[0][0], "cache aliases a level set; %d uses of "
           "the cache checked for in-place updates" % n, True, {},
           aliasing[0][1])
    ctx.floor(rule, n, 6, "uses of Region.demoted / get_demoted()")


def r11_add(ctx, ci):
    ctx.rule("C08-R11", "add_pixels ADDS: the given pixels reach the level "
             "set through update / |= on every path, and the only plain "
             "assignment to a level set there creates a missing level "
             "(guarded by `depth not in self.pixeldict`) -- replacing the "
             "set would forget everything added before")
    fi = ci.methods.get("add_pixels")
    if fi is None:
        raise AnalysisError("C08-R11: Region.add_pixels missing")
    al = pixeldict_aliases(fi.node)
    pixp = fi.params[1] if len(fi.params) > 1 else "pix"
    derived = {pixp}
    for _ in range(4):
        for st in walk_no_nested(fi.node):
            if isinstance(st, ast.Assign) and len(st.targets) == 1 and \
                    isinstance(st.targets[0], ast.Name) and \
                    names_in(st.value) & derived:
                derived.add(st.targets[0].id)
    g = CFG(fi.node)
    adds = []
    for n, st in g.stmt.items():
        if g.kind[n] != "stmt":
            continue
        for c in ast.walk(st):
            if isinstance(c, ast.Call) and \
                    isinstance(c.func, ast.Attribute) and \
                    c.func.attr in ("update",) and \
                    levelset_owner(c.func.value, al) and c.args and \
                    names_in(c.args[0]) & derived:
                adds.append(n)
        if isinstance(st, ast.AugAssign) and isinstance(st.op, ast.BitOr) \
                and levelset_owner(st.target, al) and \
                names_in(st.value) & derived:
            adds.append(n)
    # ... ALL of them: the merged collection is the argument itself (or a
    # plain conversion of it), not a filtered / sliced selection
    for n_ in adds:
        st_ = g.stmt[n_]
        srcs = []
        for c in ast.walk(st_):
            if isinstance(c, ast.Call) and \
                    isinstance(c.func, ast.Attribute) and \
                    c.func.attr == "update" and c.args:
                srcs.append(c.args[0])
        if isinstance(st_, ast.AugAssign):
            srcs.append(st_.value)
        for a_ in srcs:
            filt = [x for x in ast.walk(a_)
                    if isinstance(x, (ast.GeneratorExp, ast.ListComp,
                                      ast.SetComp)) and
                    any(gen.ifs for gen in x.generators) or
                    isinstance(x, ast.Call) and norm(x.func) == "filter" or
                    isinstance(x, ast.Subscript) and
                    names_in(x.value) & derived]
            ctx.check("C08-R11", fi, "every given pixel is merged: " +
                      norm(a_, 60), not filt,
                      "%s passes only a selection of the given pixels on to "
                      "the level set: valid pixels (e.g. nested pixel 0, "
                      "which exists at every depth) are silently dropped" %
                      (norm(filt[0], 60) if filt else ""), node=st_)
    ok = bool(adds) and g.path_avoiding(ENTRY, EXIT, set(adds)) is None
    ctx.check("C08-R11", fi, "pixels are merged into the level set on every "
              "path", ok, "a normal return of add_pixels is reached without "
              "`<level set>.update(%s)`" % pixp, node=fi.node)
    pm = {}
    for x in ast.walk(fi.node):
        for ch in ast.iter_child_nodes(x):
            pm[ch] = x
    for st in walk_no_nested(fi.node):
        if isinstance(st, ast.Assign) and any(
                isinstance(t, ast.Subscript) and levelset_owner(t, al)
                for t in st.targets):
            par = pm.get(st)
            guarded = isinstance(par, ast.If) and st in par.body and \
                isinstance(par.test, ast.Compare) and \
                isinstance(par.test.ops[0], ast.NotIn) and \
                "pixeldict" in norm(par.test.comparators[0])
            keeps = any(levelset_owner(x, al) for x in ast.walk(st.value)
                        if isinstance(x, ast.Subscript))
            ctx.check("C08-R11", fi, "assignment " + norm(st, 60),
                      guarded or keeps,
                      "%s replaces the level set: pixels added earlier at "
                      "that depth are lost" % norm(st, 60), node=st)


def _fmt(ab):
    a, b = ab
    if a == 0:
        return str(b)
    s = "maxdepth" if a == 1 else "%d*maxdepth" % a
    return s + ("%+d" % b if b else "")


def r12_derived(ctx, ci, rule):
    """Any further per-instance cache derived from the region's content is
    dropped wherever the demoted cache is dropped."""
    ctx.rule(rule, "derived caches: an instance attribute that a Region "
             "method fills from the region's content (pixeldict / demoted / "
             "get_demoted()) is reset on every path on which the demoted "
             "cache is reset -- otherwise membership answers keep describing "
             "the region as it was when first queried")
    CONTENT = ("pixeldict", "demoted", "get_demoted")
    derived = {}
    for m, fi in ci.methods.items():
        if m == "__init__":
            continue
        for st in walk_no_nested(fi.node):
            if not isinstance(st, ast.Assign):
                continue
            for t in st.targets:
                if isinstance(t, ast.Attribute) and norm(t.value) == "self" \
                        and t.attr not in ("demoted", "pixeldict",
                                           "maxdepth") and any(
                            isinstance(x, ast.Attribute) and
                            x.attr in CONTENT for x in ast.walk(st.value)):
                    derived.setdefault(t.attr, []).append((fi, st))
    ctx.ob(rule, "regions.Region", "derived caches: %s" %
           (sorted(derived) or "none"), True, {}, ci.node)
    for attr, fills in sorted(derived.items()):
        for m, fi in ci.methods.items():
            if m == "__init__":
                continue
            g = CFG(fi.node)
            resets = [n for n, s_ in g.stmt.items()
                      if g.kind[n] == "stmt" and is_cache_reset(s_)]
            if not resets:
                continue
            xres = {n for n, s_ in g.stmt.items() if g.kind[n] == "stmt"
                    and isinstance(s_, ast.Assign) and any(
                        isinstance(t, ast.Attribute) and t.attr == attr
                        and norm(t.value) == "self" for t in s_.targets)}
            for r in resets:
                before = any(g.dominates(x, r) for x in xres)
                p_ = None if before else g.path_avoiding(r, EXIT, xres)
                ctx.check(rule, fi, "self.%s dropped with the demoted cache "
                          "in %s" % (attr, m), p_ is None,
                          "self.%s (filled in %s from the region's content) "
                          "survives this reset of the demoted cache: after "
                          "the region changes here, %s keeps answering from "
                          "the old content" %
                          (attr, fills[0][0].short, fills[0][0].short),
                          node=g.stmt[r])
