"""C09 -- circle and polygon regions cover their shape."""
from __future__ import annotations

import ast

from .. import unitrules
from ..cfg import CFG, ENTRY, EXIT
from ..core import AnalysisError, arg_or_kw, kwarg, names_in, norm, \
    walk_no_nested

EXPLANATION = (
    "Static analysis of AegeanTools/regions.py and its callers. R1: every "
    "call resolving to healpy.query_disc / query_polygon passes "
    "inclusive=True and nest=True with nside = 2**depth for the same depth "
    "the result is stored under. R2: unit/kind abstract interpretation of "
    "the convention chain (ra:lon, dec:lat) -> sky2ang -> (colatitude, "
    "longitude) in radians into healpy.ang2pix / ang2vec, vec2sky the "
    "inverse, radii in radians, degin handled by np.radians, and all call "
    "sites of add_circles / add_poly / sky_within in the package passing the "
    "unit the contract demands. R3: positions that are not finite are forced "
    "to False after the membership test (last-writer ordering on the CFG) "
    "and the non-finite mask is derived from isfinite of the converted "
    "coordinates. R4: radec2sky accepts scalars and vectors (TypeError "
    "fallback) and always yields a 2-column array, also for zero positions. "
    "The geometric covering guarantee itself is healpy's contract and is not "
    "decided.")
ASSUMPTIONS = ["healpy.query_disc/query_polygon(inclusive=True) return a "
               "superset of the pixels overlapping the shape",
               "healpy angle conventions (colatitude, longitude in radians)"]

MUTANTS = [
    ("non-finite mask reduced over the whole query",
     "AegeanTools/regions.py",
     "        mask = np.bitwise_not(np.logical_and.reduce(\n"
     "            np.isfinite(theta_phi), axis=1))",
     "        mask = np.bitwise_not(np.all(np.isfinite(theta_phi)))", "C09-R3"),
    ("depth clamp written with max instead of min", "AegeanTools/regions.py",
     "        if depth is None or depth > self.maxdepth:\n"
     "            depth = self.maxdepth\n        try:",
     "        depth = self.maxdepth if depth is None else max(depth, self.maxdepth)\n        try:",
     "C09-R9"),
    ("huge discs queried and stored at a coarser level",
     "AegeanTools/regions.py",
     "            pix = hp.query_disc(2**depth, vec, r, inclusive=True, nest=True)\n"
     "            self.add_pixels(pix, depth)",
     "            qdepth = depth\n"
     "            while qdepth > 3 and 128*hp.nside2resol(2**qdepth) < r:\n"
     "                qdepth -= 1\n"
     "            pix = hp.query_disc(2**qdepth, vec, r, inclusive=True, nest=True)\n"
     "            self.add_pixels(pix, qdepth)", "C09-R1"),
    ("sub-pixel circles reduced to the pixel of their centre",
     "AegeanTools/regions.py",
     "            pix = hp.query_disc(2**depth, vec, r, inclusive=True, nest=True)\n",
     "            pix = hp.query_disc(2**depth, vec, r, inclusive=True, nest=True)\n"
     "            if 2*r < hp.nside2resol(2**depth):\n"
     "                pix = [hp.vec2pix(2**depth, *vec, nest=True)]\n",
     "C09-R1"),
    ("negative RA wrapped by 2 pi in the unit-agnostic packer",
     "AegeanTools/regions.py",
     "            sky = np.array([(ra, dec)])\n        return sky",
     "            sky = np.array([(ra, dec)])\n"
     "        sky[:, 0] = np.where(sky[:, 0] < 0, sky[:, 0] + 2*np.pi, "
     "sky[:, 0])\n        return sky", "C09-R8"),
    ("cache cleared in place while it aliases the level set",
     "AegeanTools/regions.py",
     "        self.demoted = set()\n\n    def get_area",
     "        self.demoted.clear()\n\n    def get_area", "C09-R7"),
    ("swap theta/phi", "AegeanTools/regions.py",
     "pix = hp.ang2pix(2**self.maxdepth, theta, phi, nest=True)",
     "pix = hp.ang2pix(2**self.maxdepth, phi, theta, nest=True)", "C09-R2"),
    ("no colatitude", "AegeanTools/regions.py",
     "        theta_phi[:, 0] = np.pi/2 - theta_phi[:, 0]\n", "", "C09-R2"),
    ("no column swap", "AegeanTools/regions.py",
     "        theta_phi[:, [1, 0]] = theta_phi[:, [0, 1]]\n", "", "C09-R2"),
    ("degrees into healpy", "AegeanTools/regions.py",
     "        if degin:\n            sky = np.radians(sky)\n",
     "        if not degin:\n            sky = np.radians(sky)\n", "C09-R2"),
    ("circles in degrees", "AegeanTools/MIMAS.py",
     "            circles = np.radians(np.array(c))\n            if "
     "container.galactic:\n                l, b, radii = circles.reshape(3, "
     "circles.shape[0]//3)\n                ras, decs = galactic2fk5(l, b)\n"
     "            else:\n                ras, decs, radii = circles.reshape(3"
     ", circles.shape[0]//3)\n            region.add_circles(ras, decs, "
     "radii)",
     "            circles = np.array(c)\n            if "
     "container.galactic:\n                l, b, radii = circles.reshape(3, "
     "circles.shape[0]//3)\n                ras, decs = galactic2fk5(l, b)\n"
     "            else:\n                ras, decs, radii = circles.reshape(3"
     ", circles.shape[0]//3)\n            region.add_circles(ras, decs, "
     "radii)", "C09-R2"),
    ("not inclusive", "AegeanTools/regions.py",
     "pix = hp.query_disc(2**depth, vec, r, inclusive=True, nest=True)",
     "pix = hp.query_disc(2**depth, vec, r, inclusive=False, nest=True)",
     "C09-R1"),
    ("ring ordering", "AegeanTools/regions.py",
     "                               inclusive=True, nest=True)",
     "                               inclusive=True)", "C09-R1"),
    ("depth mismatch", "AegeanTools/regions.py",
     "pix = hp.query_disc(2**depth, vec, r, inclusive=True, nest=True)",
     "pix = hp.query_disc(2**self.maxdepth, vec, r, inclusive=True, "
     "nest=True)", "C09-R1"),
    ("NaN mask before membership", "AegeanTools/regions.py",
     "        # apply the mask and set the shonky values to False\n"
     "        result[mask] = False\n", "", "C09-R3"),
    ("vec2sky latitude", "AegeanTools/regions.py",
     "        dec = np.pi/2-theta\n", "        dec = theta\n", "C09-R2"),
    ("wcs degrees without degin", "AegeanTools/MIMAS.py",
     "bigmask = region.sky_within(ra, dec, degin=True)",
     "bigmask = region.sky_within(ra, dec)", "C09-R2"),
    ("assume_unique look-up (seed C09b)", "AegeanTools/regions.py",
     "result = np.isin(pix, list(pixelset))",
     "result = np.isin(pix, list(pixelset), assume_unique=True)", "C09-R6"),
    ("ring-ordered query pixels", "AegeanTools/regions.py",
     "pix = hp.ang2pix(2**self.maxdepth, theta, phi, nest=True)",
     "pix = hp.ang2pix(2**self.maxdepth, theta, phi)", "C09-R6"),
    ("looked up in the deepest level only", "AegeanTools/regions.py",
     "        pixelset = self.get_demoted()\n        result = np.isin(",
     "        pixelset = self.pixeldict[self.maxdepth]\n        result = np.isin(", "C09-R6"),
    ("poles masked as undefined (seed C09c)", "AegeanTools/regions.py",
     "        theta_phi[mask, :] = 0\n",
     "        mask |= (theta_phi[:, 0] <= 0) | (theta_phi[:, 0] >= np.pi)\n"
     "        theta_phi[mask, :] = 0\n", "C09-R3"),
]
TWINS = [
    ("colatitude via variable", "AegeanTools/regions.py",
     "        theta_phi[:, 0] = np.pi/2 - theta_phi[:, 0]\n",
     "        halfpi = np.pi/2\n        theta_phi[:, 0] = halfpi - "
     "theta_phi[:, 0]\n"),
    ("radians spelled out", "AegeanTools/regions.py",
     "            sky = np.radians(sky)\n",
     "            sky = sky * np.pi / 180\n"),
]


def run(ctx):
    prog = ctx.prog
    ci = prog.klass("regions.Region")
    mod = prog.modules[ci.module]
    # ---------------------------------------------------------------- R1
    query_rule(ctx, prog, ci, "C09-R1")
    # ---------------------------------------------------------------- R2
    ctx.rule("C09-R2", "(lon, lat) -> (colatitude, longitude) radians chain "
             "into healpy; callers pass the contracted units")
    scope = lambda s: s.startswith("regions.Region.") or s in (
        "MIMAS.combine_regions", "MIMAS.mask2mim", "MIMAS.mask_plane",
        "MIMAS.mask_table", "source_finder.find_islands")
    unitrules.apply(ctx, "C09-R2", scope, kinds={"call", "return", "sink"},
                    what="contract sites in the region conversion chain",
                    floor=12)
    # ---------------------------------------------------------------- R5
    ctx.rule("C09-R5", "membership queries flatten every stored level "
             "(1..maxdepth-1) into the deepest one")
    from .c08 import demotion_levels, r9_cache_alias
    demotion_levels(ctx, ci, "C09-R5")
    # ---------------------------------------------------------------- R7
    # the pixels a circle / polygon stored survive later additions: the
    # flattened cache may BE the deepest level set (shared with C08-R9)
    r9_cache_alias(ctx, ci, "C09-R7")
    # ---------------------------------------------------------------- R3
    sw, g, rets, rname = nonfinite_rule(ctx, prog, ci, "C09-R3")
    # ---------------------------------------------------------------- R6
    membership_rule(ctx, prog, sw, g, rets, rname, "C09-R6")
    r8_unit_agnostic(ctx, prog, ci, sw)
    r9_depth_clamp(ctx, prog, ci)
    r10_dtype(ctx, prog, ci)
    # ---------------------------------------------------------------- R4
    ctx.rule("C09-R4", "radec2sky: scalar fallback on TypeError; the result "
             "is a 2-column array for any number of positions")
    r2s = ci.methods.get("radec2sky")
    if r2s is None:
        raise AnalysisError("Region.radec2sky missing")
    trys = [t for t in walk_no_nested(r2s.node) if isinstance(t, ast.Try)]
    ok = len(trys) == 1 and any(
        h.type is not None and "TypeError" in norm(h.type)
        for h in trys[0].handlers)
    ctx.check("C09-R4", r2s, "scalar fallback", ok,
              "zip(ra, dec) of scalars raises TypeError and must fall back "
              "to a single (ra, dec) pair", node=r2s.node)
    two_column_rule(ctx, "C09-R4", r2s)


def two_column_rule(ctx, rule, r2s):
    """np.array(list(zip(a, b))) is 1-d (shape (0,)) for zero positions while
    every consumer indexes columns [:, k]: the result has to be forced to two
    columns"""
    for s in walk_no_nested(r2s.node):
        if isinstance(s, ast.Assign) and isinstance(s.value, ast.Call):
            v = s.value
            txt = norm(v).replace(" ", "")
            if "zip(" in txt and ("np.array(" in txt or "numpy.array(" in txt):
                forced = ".reshape(-1,2)" in txt or "reshape((-1,2))" in txt \
                    or "ndmin=2" in txt
                # or reshaped in a later statement on the same name
                nm = norm(s.targets[0])
                later = any(isinstance(x, ast.Call) and
                            isinstance(x.func, ast.Attribute) and
                            x.func.attr == "reshape" and
                            norm(x.func.value) == nm
                            for x in walk_no_nested(r2s.node))
                ctx.check(rule, r2s, "2-column shape of " + norm(s, 70),
                          forced or later,
                          "for zero positions np.array(list(zip(ra, dec))) "
                          "has shape (0,), and the column indexing "
                          "[:, [1, 0]] in sky2ang raises IndexError: masking "
                          "an empty table / testing an empty position list "
                          "fails instead of returning an empty result",
                          node=s)


def nonfinite_rule(ctx, prog, ci, rule):
    """positions with non-finite coordinates are never inside (shared by
    C09-R3 and C10-R8); returns (sw, g, rets, rname) for the caller"""
    ctx.rule(rule, "non-finite positions: mask from isfinite of the "
             "converted coordinates; result[mask] = False is the last "
             "writer of the result before the return")
    sw = ci.methods.get("sky_within")
    if sw is None:
        raise AnalysisError("Region.sky_within missing")
    g = CFG(sw.node)
    rets = [nn for nn, s in g.stmt.items() if g.kind[nn] == "return"]
    if len(rets) != 1:
        raise AnalysisError(rule + ": sky_within return sites")
    rname = norm(g.stmt[rets[0]].value)
    writers = [nn for nn, s in g.stmt.items() if g.kind[nn] == "stmt" and
               isinstance(s, ast.Assign) and any(
                   norm(t) == rname or (isinstance(t, ast.Subscript) and
                                        norm(t.value) == rname)
                   for t in s.targets)]
    forced = [nn for nn in writers
              if isinstance(g.stmt[nn].targets[0], ast.Subscript) and
              norm(g.stmt[nn].value) == "False"]
    ok = len(forced) == 1 and all(
        g.dominates(w, forced[0]) for w in writers) and \
        g.path_avoiding(ENTRY, rets[0], forced) is None
    ctx.check(rule, sw, "last writer of the result", ok,
              "positions with non-finite coordinates must be forced to False "
              "after the membership test on every path (they were mapped to "
              "pixel 0 for the look-up and would otherwise be reported "
              "inside whenever pixel 0 is in the region)",
              node=g.stmt[forced[0]] if forced else sw.node)
    if forced:
        mname = norm(g.stmt[forced[0]].targets[0].slice)
        mdef = [s for s in walk_no_nested(sw.node) if isinstance(s, ast.Assign)
                and norm(s.targets[0]) == mname]
        if len(mdef) == 1:
            from .c08 import _resolve_local

            class _R(ast.NodeTransformer):
                def visit_Name(self, nd):
                    r = _resolve_local(sw.node, nd)
                    return r if r is not nd and isinstance(
                        nd.ctx, ast.Load) else nd
            import copy as _copy
            mdef = [ast.fix_missing_locations(
                _R().visit(_copy.deepcopy(mdef[0])))]
        okm = len(mdef) == 1 and "isfinite" in norm(mdef[0].value) and (
            "bitwise_not" in norm(mdef[0].value) or
            "logical_not" in norm(mdef[0].value) or "~" in norm(mdef[0].value))
        ctx.check(rule, sw, "mask definition " + norm(mdef[0], 80)
                  if mdef else "mask definition", okm,
                  "the mask must flag rows where any coordinate is not "
                  "finite", node=mdef[0] if mdef else sw.node)
        # ... decided PER POSITION: the finiteness test is reduced along
        # the coordinate axis of the (N, 2) array (axis=1 / -1), or combined
        # element-wise (isfinite(a) & isfinite(b)); a reduction over the
        # whole array makes one undefined position spoil all the others
        if len(mdef) == 1:
            reds = [c for c in ast.walk(mdef[0].value)
                    if isinstance(c, ast.Call) and (
                        norm(c.func).split(".")[-1] in ("all", "any",
                                                        "alltrue") or
                        norm(c.func).endswith(".reduce")) and any(
                            isinstance(x, ast.Call) and
                            norm(x.func).split(".")[-1] == "isfinite"
                            for x in ast.walk(c))]
            badax = []
            for c in reds:
                ax = kwarg(c, "axis")
                if ax is None and len(c.args) > 1:
                    ax = c.args[1]
                if ax is None and isinstance(c.func, ast.Attribute) and \
                        c.func.attr in ("all", "any") and c.args and \
                        not norm(c.func).startswith(("np.", "numpy.")):
                    ax = c.args[0]
                if not (ax is not None and
                        norm(ax).replace(" ", "") in ("1", "-1")):
                    badax.append(c)
            ctx.check(rule, sw, "finiteness decided per position "
                      "(%d reduction(s))" % len(reds), not badax,
                      "%s reduces over every position at once (no axis=1): "
                      "a single nan / inf coordinate in a vector query makes "
                      "EVERY position report as outside" %
                      (norm(badax[0], 60) if badax else ""),
                      node=badax[0] if badax else mdef[0])
    # the mask is EXACTLY the non-finite mask: no other writer widens it
    if forced:
        others = []
        for s_ in walk_no_nested(sw.node):
            tg = []
            if isinstance(s_, ast.AugAssign):
                tg = [s_.target]
            elif isinstance(s_, ast.Assign):
                tg = s_.targets
            for t in tg:
                base = t
                while isinstance(base, ast.Subscript):
                    base = base.value
                if norm(base) == mname and not (
                        isinstance(s_, ast.Assign) and t is s_.targets[0]
                        and isinstance(t, ast.Name) and
                        len([d for d in walk_no_nested(sw.node)
                             if isinstance(d, ast.Assign) and
                             norm(d.targets[0]) == mname]) == 1):
                    others.append(s_)
        ctx.check(rule, sw, "the mask has no other writer", not others,
                  "the mask of undefined positions is widened by %s: "
                  "positions with perfectly finite coordinates (e.g. exactly "
                  "at a pole, colatitude 0 or pi) are forced to 'outside'" %
                  [norm(o, 70) for o in others],
                  node=others[0] if others else sw.node)
    # non-finite inputs must still be non-finite where the mask is taken:
    # nothing on the way (radec2sky, sky2ang, the head of sky_within)
    # replaces NaN / inf by numbers
    n_prop = 0
    first_mask_line = min([d.lineno for d in walk_no_nested(sw.node)
                           if isinstance(d, ast.Assign) and forced and
                           norm(d.targets[0]) == mname] or [10 ** 9])
    for m_ in ("radec2sky", "sky2ang", "sky_within"):
        fi = ci.methods.get(m_)
        if fi is None:
            continue
        n_prop += 1
        bad = []
        for x in walk_no_nested(fi.node):
            if m_ == "sky_within" and getattr(x, "lineno", 0) >= \
                    first_mask_line:
                continue
            if isinstance(x, ast.Call) and norm(x.func) in (
                    "np.nan_to_num", "numpy.nan_to_num"):
                bad.append(x)
            if isinstance(x, (ast.Assign, ast.AugAssign)):
                tgs = x.targets if isinstance(x, ast.Assign) else [x.target]
                for t in tgs:
                    if isinstance(t, ast.Subscript) and any(
                            isinstance(c, ast.Call) and norm(c.func) in (
                                "np.isfinite", "np.isnan", "np.isinf",
                                "numpy.isfinite", "numpy.isnan",
                                "numpy.isinf")
                            for c in ast.walk(t.slice)):
                        bad.append(x)
                    elif isinstance(t, ast.Subscript):
                        # x[m] = c with m a local non-finite mask
                        for nm in names_in(t.slice):
                            d_ = [d for d in walk_no_nested(fi.node)
                                  if isinstance(d, ast.Assign) and
                                  norm(d.targets[0]) == nm and any(
                                      isinstance(c, ast.Call) and
                                      norm(c.func) in ("np.isfinite",
                                                       "np.isnan")
                                      for c in ast.walk(d.value))]
                            if d_:
                                bad.append(x)
        ctx.check(rule, fi, "non-finite values survive " + m_, not bad,
                  "%s replaces non-finite coordinates by numbers before "
                  "sky_within takes its mask of undefined positions: the "
                  "mask is then empty and a NaN position is looked up as a "
                  "real one (the pole / RA 0) and can be reported inside" %
                  [norm(b_, 60) for b_ in bad[:2]],
                  node=bad[0] if bad else fi.node)
    ctx.floor(rule, n_prop, 3, "functions on the way to the non-finite mask")
    return sw, g, rets, rname


def membership_rule(ctx, prog, sw, g, rets, rname, rule):
    """the membership answer of sky_within is a look-up in the flattened
    set (shared by C09-R6, C08-R13, C11-R8)"""
    ctx.rule(rule, "membership test: the result is an element-wise "
             "look-up of the queried pixel numbers (healpy.ang2pix at nside "
             "2**self.maxdepth, nest=True) in the flattened set "
             "(self.get_demoted()), through numpy.isin / in1d called within "
             "its contract: no invert=True, no assume_unique=True (the "
             "queried pixels repeat whenever two positions share a pixel)")
    from .c08 import _depends_on_call, _resolve_local
    tests = [c for c in walk_no_nested(sw.node) if isinstance(c, ast.Call)
             and prog.dotted(prog.modules[sw.module], c.func) in
             ("numpy.isin", "numpy.in1d")]
    n6 = 0
    for c in tests:
        n6 += 1
        kws = {k.arg: k.value for k in c.keywords}
        elem = c.args[0] if c.args else kws.get("element", kws.get("ar1"))
        test = c.args[1] if len(c.args) > 1 else \
            kws.get("test_elements", kws.get("ar2"))
        bad = [k for k in ("assume_unique", "invert")
               if k in kws and not (isinstance(kws[k], ast.Constant) and
                                    kws[k].value is False)]
        if len(c.args) > 2:
            bad.append("positional assume_unique")
        ctx.check(rule, sw, "contract of " + norm(c, 60), not bad,
                  "%s: numpy requires BOTH arrays to be duplicate-free for "
                  "assume_unique (the queried pixels are not: positions in "
                  "the same pixel repeat), and invert flips the answer; "
                  "positions far outside the region are reported inside" %
                  bad, node=c)

        def from_ang2pix(e, depth=0):
            if e is None or depth > 6:
                return None
            for x in ast.walk(e):
                if isinstance(x, ast.Call) and prog.dotted(
                        prog.modules[sw.module], x.func) == "healpy.ang2pix":
                    return x
            for x in ast.walk(e):
                if isinstance(x, ast.Name):
                    r = _resolve_local(sw.node, x)
                    if r is not x:
                        got = from_ang2pix(r, depth + 1)
                        if got is not None:
                            return got
            return None
        a2p = from_ang2pix(elem)
        oka = a2p is not None and a2p.args and \
            norm(a2p.args[0]).replace(" ", "") in (
                "2**self.maxdepth", "1<<self.maxdepth") and \
            isinstance(kwarg(a2p, "nest"), ast.Constant) and \
            kwarg(a2p, "nest").value is True
        ctx.check(rule, sw, "queried pixels " + (norm(a2p, 70) if a2p
                                                     else norm(elem)), oka,
                  "the queried pixel numbers must come from healpy.ang2pix("
                  "2**self.maxdepth, ..., nest=True): the flattened set "
                  "holds NESTED pixel numbers of the deepest level",
                  node=a2p or c)
        okt = _depends_on_call(sw.node, test, "self", ("get_demoted",))
        ctx.check(rule, sw, "looked up in " + norm(test, 50), okt,
                  "the set the pixels are looked up in must be "
                  "self.get_demoted() (all levels flattened to the deepest)",
                  node=c)
        okr = any(isinstance(s_, ast.Assign) and s_.value is c and
                  norm(s_.targets[0]) == rname
                  for s_ in walk_no_nested(sw.node)) or \
            g.stmt[rets[0]].value is c
        ctx.check(rule, sw, "the look-up is the returned result", okr,
                  "the value returned by sky_within (%s) is not the "
                  "result of the look-up" % rname, node=c)
    ctx.floor(rule, n6, 1, "numpy.isin / in1d look-ups in sky_within")


def membership_for(ctx, prog, ci, rule):
    """membership_rule for callers that have not located sky_within's
    return themselves"""
    sw = ci.methods.get("sky_within")
    if sw is None:
        raise AnalysisError("Region.sky_within missing")
    g = CFG(sw.node)
    rets = [nn for nn, s_ in g.stmt.items() if g.kind[nn] == "return"]
    if len(rets) != 1:
        raise AnalysisError(rule + ": sky_within return sites")
    membership_rule(ctx, prog, sw, g, rets, norm(g.stmt[rets[0]].value),
                    rule)


def r10_dtype(ctx, prog, ci, rule="C09-R10"):
    """positions given as integers (add_circles(0, 0, r): a circle at the
    origin, in radians) are converted in floating point"""
    from ..precision import inplace_on_inherited_dtype
    ctx.rule(rule, "integer coordinates: the conversions of Region (sky2ang, "
             "sky2vec, vec2sky, radec2sky, sky_within, add_circles, "
             "add_poly) never store a fractional value into an array that "
             "inherited its dtype from the caller (`t = sky.copy(); t[:, 0] "
             "= pi/2 - t[:, 0]` truncates to 1 for integer input: the shape "
             "lands at dec 32.7 deg instead of the equator)")
    n = 0
    for m in ("sky2ang", "sky2vec", "vec2sky", "radec2sky", "sky_within",
              "add_circles", "add_poly"):
        fi = ci.methods.get(m)
        if fi is None:
            continue
        n += 1
        bad = inplace_on_inherited_dtype(prog, fi)
        ctx.check(rule, fi, "no fractional store into an inherited dtype in "
                  + m, not bad, bad[0][1] if bad else "",
                  node=bad[0][0] if bad else fi.node)
    ctx.floor(rule, n, 5, "conversion functions of Region")


def r9_depth_clamp(ctx, prog, ci, rule="C09-R9"):
    """for ANY requested depth the pixels land on a level the region looks
    at: the statements that (re)bind `depth` in add_circles / add_poly are
    interpreted over depth = None, below, at and above maxdepth"""
    from .. import concrete
    ctx.rule(rule, "any depth: after the clamp at the top of add_circles / "
             "add_poly the storage depth is an integer in 1..maxdepth for "
             "depth = None, < maxdepth, == maxdepth and > maxdepth (levels "
             "above maxdepth are never looked at by _demote_all, sky_within "
             "or get_area: the shape would be stored and ignored)")
    n = 0
    for m in ("add_circles", "add_poly"):
        fi = ci.methods.get(m)
        if fi is None or "depth" not in fi.params:
            continue
        # the clamp: top-level statements binding `depth`, up to the first
        # statement that uses it for something else
        clamp = []
        for st in fi.node.body:
            binds = any(isinstance(x, ast.Name) and x.id == "depth" and
                        isinstance(x.ctx, ast.Store) for x in ast.walk(st))
            if binds and isinstance(st, (ast.Assign, ast.If, ast.AugAssign)):
                clamp.append(st)
        MD = 8
        bad = []
        for d in (None, 1, MD - 1, MD, MD + 1, MD + 4):
            env = {"depth": d, "self.maxdepth": MD}
            try:
                # the clamp may live in a helper method:
                #   depth = self._clamp_depth(depth)
                rest = []
                for st in clamp:
                    v = st.value if isinstance(st, ast.Assign) else None
                    if isinstance(v, ast.Call) and \
                            isinstance(v.func, ast.Attribute) and \
                            norm(v.func.value) == "self" and \
                            v.func.attr in ci.methods:
                        h = ci.methods[v.func.attr]
                        hp_ = [p_ for p_ in h.params if p_ != "self"]
                        henv = {"self.maxdepth": MD}
                        for p_, a_ in zip(hp_, v.args):
                            henv[p_] = concrete.ev(a_, env)
                        out_, _ = concrete.call(h.node, henv)
                        env[norm(st.targets[0])] = out_
                    else:
                        concrete.run([st], env)
                clamp_done = True
            except concrete.Unknown as e:
                raise AnalysisError("%s: depth clamp of %s: %s" % (rule, m, e))
            n += 1
            r = env.get("depth")
            if not (isinstance(r, int) and 1 <= r <= MD):
                bad.append((d, r))
        ctx.check(rule, fi, "depth clamp of %s (%d statement(s))" %
                  (m, len(clamp)), not bad,
                  "with maxdepth=%d a requested depth of %s is stored at "
                  "level %s, which no query of the region ever reads" %
                  ((MD,) + (bad[0] if bad else ("", ""))),
                  node=clamp[0] if clamp else fi.node)
    ctx.floor(rule, n, 12, "depth samples interpreted")


def r8_unit_agnostic(ctx, prog, ci, sw):
    """what runs on the positions BEFORE `if degin: sky = np.radians(sky)`
    sees degrees or radians, so it may not contain a unit-specific
    constant"""
    ctx.rule("C09-R8", "positions given in degrees or radians: everything "
             "applied to the positions before the degin conversion "
             "(radec2sky, statements of sky_within in front of it) is "
             "unit-agnostic -- no angular constant (pi, 2 pi, 180, 360 ...) is "
             "added to, subtracted from or compared with them")
    mod = prog.modules[sw.module]
    # the conversion: whatever is assigned under a test on the degin
    # parameter (np.radians(sky), sky * np.pi / 180, a conditional expression)
    conv = [st for iff in walk_no_nested(sw.node) if isinstance(iff, ast.If)
            and "degin" in names_in(iff.test)
            for st in iff.body if isinstance(st, (ast.Assign,
                                                  ast.AugAssign))]
    conv += [st for st in walk_no_nested(sw.node)
             if isinstance(st, ast.Assign) and isinstance(st.value, ast.IfExp)
             and "degin" in names_in(st.value.test)]
    if not conv:
        raise AnalysisError("C09-R8: degin conversion of sky_within")
    first = min(c.lineno for c in conv)
    scope = []          # (FuncInfo, statements)
    pre = [st for st in walk_no_nested(sw.node) if isinstance(st, ast.stmt)
           and st.lineno < first and not isinstance(st, (ast.If, ast.For))]
    scope.append((sw, pre))
    for st in pre:
        for c in ast.walk(st):
            if isinstance(c, ast.Call) and isinstance(c.func, ast.Attribute) \
                    and norm(c.func.value) in ("self", "Region") \
                    and c.func.attr in ci.methods:
                h = ci.methods[c.func.attr]
                scope.append((h, [x for x in walk_no_nested(h.node)
                                  if isinstance(x, ast.stmt)]))
    import math

    def angular(e):
        d = prog.dotted(mod, e) if isinstance(e, ast.Attribute) else None
        if d in ("numpy.pi", "math.pi"):
            return True
        if isinstance(e, ast.Constant) and isinstance(e.value, (int, float)) \
                and not isinstance(e.value, bool):
            v = abs(float(e.value))
            return any(abs(v - k) < 1e-6 for k in (
                90, 180, 270, 360, math.pi, 2 * math.pi, math.pi / 2))
        if isinstance(e, ast.BinOp) and isinstance(e.op, (ast.Mult,
                                                           ast.Div)):
            return angular(e.left) or angular(e.right)
        return False
    n = 0
    for fi_, stmts in scope:
        n += 1
        bad = []
        for st in stmts:
            for x in ast.walk(st):
                if isinstance(x, ast.BinOp) and isinstance(
                        x.op, (ast.Add, ast.Sub, ast.Mod)) and (
                            angular(x.left) or angular(x.right)):
                    bad.append(x)
                if isinstance(x, ast.AugAssign) and isinstance(
                        x.op, (ast.Add, ast.Sub, ast.Mod)) and \
                        angular(x.value):
                    bad.append(x)
                if isinstance(x, ast.Compare) and any(
                        angular(y) for y in [x.left] + x.comparators):
                    bad.append(x)
        ctx.check("C09-R8", fi_, "no angular constant before the degin "
                  "conversion in " + fi_.short, not bad,
                  "`%s` uses a unit-specific constant on positions that are "
                  "in degrees when degin=True and in radians otherwise: one "
                  "of the two conventions is shifted / wrapped by the wrong "
                  "amount" % (norm(bad[0], 60) if bad else ""),
                  node=bad[0] if bad else fi_.node)
    ctx.floor("C09-R8", n, 2, "unit-agnostic stages of sky_within")


def query_rule(ctx, prog, ci, rule):
    """shapes are rasterised by the inclusive healpy queries at the level the
    pixels are stored under, and nothing else feeds add_pixels in the shape
    builders (shared by C09-R1 and C08-R14)"""
    mod = prog.modules[ci.module]
    ctx.rule(rule, "healpy.query_disc / query_polygon: inclusive=True, "
             "nest=True, nside == 2**depth with the depth the pixels are "
             "added under")
    n = 0
    for m, fi in ci.methods.items():
        for c in walk_no_nested(fi.node):
            if not isinstance(c, ast.Call):
                continue
            d = prog.dotted(mod, c.func) if isinstance(c.func,
                                                       ast.Attribute) else ""
            if d not in ("healpy.query_disc", "healpy.query_polygon"):
                continue
            n += 1
            inc, nest = kwarg(c, "inclusive"), kwarg(c, "nest")
            ctx.check(rule, fi, "flags of " + norm(c, 70),
                      isinstance(inc, ast.Constant) and inc.value is True and
                      isinstance(nest, ast.Constant) and nest.value is True,
                      "inclusive=True (cover every overlapping pixel) and "
                      "nest=True (pixel ids are NESTED) are required; found "
                      "inclusive=%s nest=%s" %
                      (norm(inc) if inc is not None else "<default False>",
                       norm(nest) if nest is not None else "<default False>"),
                      node=c)
            nside = arg_or_kw(c, 0, "nside")
            # the result variable and its add_pixels(depth)
            asg = [s for s in walk_no_nested(fi.node)
                   if isinstance(s, ast.Assign) and s.value is c]
            depth_txt = None
            if asg:
                v = norm(asg[0].targets[0])
                for a in walk_no_nested(fi.node):
                    if isinstance(a, ast.Call) and \
                            norm(a.func) == "self.add_pixels" and a.args and \
                            norm(a.args[0]) == v and len(a.args) > 1:
                        depth_txt = norm(a.args[1])
            okn = nside is not None and depth_txt is not None and \
                norm(nside).replace(" ", "") in ("2**" + depth_txt,
                                                 "1<<" + depth_txt)
            if depth_txt is None:
                msg = ("the pixels returned by this query are not handed to "
                       "add_pixels as they are (they are filtered, "
                       "intersected or combined first, or not stored at "
                       "all): the stored set is no longer the inclusive "
                       "cover of the shape at resolution %s" %
                       (norm(nside) if nside is not None else None))
            else:
                msg = ("the query resolution %s must be 2**%s, the depth "
                       "the pixels are stored under" %
                       (norm(nside) if nside is not None else None,
                        depth_txt))
            ctx.check(rule, fi, "nside of " + norm(c, 70), okn, msg, node=c)
    ctx.floor(rule, n, 2, "healpy query calls")
    # the storage level is the requested depth, whatever the shape's size
    for m in ("add_circles", "add_poly"):
        fi = ci.methods.get(m)
        if fi is None:
            continue
        geom = {p_ for p_ in fi.params if p_ not in ("self", "depth")}
        tainted = set(geom)
        changed = True
        while changed:
            changed = False
            for st in ast.walk(fi.node):
                new_ = set()
                if isinstance(st, ast.Assign) and tainted & names_in(
                        st.value):
                    for t in st.targets:
                        new_ |= {x.id for x in ast.walk(t)
                                 if isinstance(x, ast.Name)}
                elif isinstance(st, ast.For) and tainted & names_in(st.iter):
                    new_ |= {x.id for x in ast.walk(st.target)
                             if isinstance(x, ast.Name)}
                elif isinstance(st, (ast.While, ast.If)) and \
                        tainted & names_in(st.test):
                    for y in ast.walk(st):
                        if isinstance(y, (ast.Assign, ast.AugAssign)):
                            for t in (y.targets if isinstance(y, ast.Assign)
                                      else [y.target]):
                                new_ |= {x.id for x in ast.walk(t)
                                         if isinstance(x, ast.Name)}
                if new_ - tainted:
                    tainted |= new_
                    changed = True
        for a in walk_no_nested(fi.node):
            if isinstance(a, ast.Call) and norm(a.func) == "self.add_pixels" \
                    and len(a.args) > 1:
                dep = names_in(a.args[1]) & tainted
                ctx.check(rule, fi, "storage level of %s independent of the "
                          "shape" % m, not dep,
                          "the level `%s` under which %s stores its pixels "
                          "depends on the shape (%s): a large shape is "
                          "stored with coarser pixels than the region's "
                          "resolution, so its rim reaches more than three "
                          "pixel sizes beyond the shape" %
                          (norm(a.args[1]), m, sorted(dep)), node=a)
    # every pixel list a shape builder stores comes from such a query
    QUERIES = ("healpy.query_disc", "healpy.query_polygon")
    for m in ("add_circles", "add_poly"):
        fi = ci.methods.get(m)
        if fi is None:
            raise AnalysisError(rule + ": Region.%s missing" % m)
        for a in walk_no_nested(fi.node):
            if not (isinstance(a, ast.Call) and
                    norm(a.func) == "self.add_pixels" and a.args):
                continue
            srcs = []
            if isinstance(a.args[0], ast.Name):
                srcs = [st.value for st in walk_no_nested(fi.node)
                        if isinstance(st, ast.Assign) and any(
                            isinstance(t, ast.Name) and t.id == a.args[0].id
                            for t in st.targets)]
            else:
                srcs = [a.args[0]]
            bad = []
            for v in srcs:
                calls = [c for c in ast.walk(v) if isinstance(c, ast.Call)
                         and isinstance(c.func, ast.Attribute)
                         and (prog.dotted(mod, c.func) or "").startswith(
                             "healpy.")]
                if not calls or any(prog.dotted(mod, c.func) not in QUERIES
                                    for c in calls):
                    bad.append(v)
            ctx.check(rule, fi, "pixels stored by %s come from the inclusive "
                      "query" % m, bool(srcs) and not bad,
                      "`%s` feeds add_pixels without going through "
                      "query_disc / query_polygon(inclusive=True): a shape "
                      "that straddles a pixel boundary is covered only "
                      "partly (e.g. a sub-pixel circle reduced to the pixel "
                      "of its centre)" % (norm(bad[0], 60) if bad else ""),
                      node=a)
