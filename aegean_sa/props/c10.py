"""C10 -- masking keeps or removes exactly the pixels/rows in the region."""
from __future__ import annotations

import ast

from .. import link, unitrules
from ..core import AnalysisError, names_in, norm, walk_no_nested

EXPLANATION = (
    "Static analysis of AegeanTools/MIMAS.py (mask_plane, mask_file, "
    "mask_table, mask_catalog). R1: index-type abstract interpretation of the "
    "pixel grid handed to astropy's *_pix2world -- each column must be a "
    "(column, row) index whose origin equals the `origin` argument; a "
    "mismatch taints the sky positions and is reported when they reach "
    "Region.sky_within. R2: the polarity of the blanking mask / kept-row mask "
    "is tabulated over negate in {False, True} from the boolean data flow "
    "(bitwise_not, ~, if not negate) and compared with the stated table. R3: "
    "frame condition -- the only write to the image is data[mask] = nan and "
    "the table result is a boolean-mask selection of the input. R4: the cube "
    "loop calls the 2-d routine with loop-invariant wcs/region/negate on "
    "data[plane]. R5: degin=True is passed with WCS degrees and every library "
    "symbol reachable from the masking entry points resolves. Does not "
    "decide astropy's WCS or HEALPix geometry.")
ASSUMPTIONS = [
    "astropy WCS.wcs_pix2world(pairs, origin) semantics (x=column first, "
    "origin = index of the first pixel)",
    "numpy boolean-mask assignment/selection semantics",
]

NOT_FUNCS = {"np.bitwise_not", "numpy.bitwise_not", "np.logical_not",
             "numpy.logical_not", "np.invert", "numpy.invert"}


MUTANTS = [
    ("blanks written through data.ravel()", "AegeanTools/MIMAS.py",
     "    bigmask = bigmask.reshape(data.shape)\n    # and apply the mask\n"
     "    data[bigmask] = np.nan",
     "    # and apply the mask\n    data.ravel()[bigmask] = np.nan", "C10-R2"),
    ("pixel block stored over the previous row's slots", "AegeanTools/MIMAS.py",
     "        indexes[i*j:(i+1)*j] = idx", "        indexes[i*j:(i-1)*j] = idx",
     "C10-R7"),
    ("position list sized with the column count twice", "AegeanTools/MIMAS.py",
     "    indexes = np.empty((data.shape[0]*data.shape[1], 2), dtype=int)",
     "    indexes = np.empty((data.shape[1]*data.shape[1], 2), dtype=int)",
     "C10-R7"),
    ("coordinate columns converted to plain arrays before the membership test",
     "AegeanTools/MIMAS.py",
     "    inside = region.sky_within(table[racol], table[deccol], degin=True)",
     "    inside = region.sky_within(np.asarray(table[racol], dtype=float),\n"
     "                               np.asarray(table[deccol], dtype=float), degin=True)",
     "C10-R10"),
    ("membership look-up told the queried pixels are unique",
     "AegeanTools/regions.py",
     "        result = np.isin(pix, list(pixelset))\n",
     "        result = np.isin(pix, list(pixelset), assume_unique=True)\n",
     "C10-R12"),
    ("region files cached by name", "AegeanTools/regions.py",
     "    @classmethod\n    def load(cls, mimfile):",
     "    @classmethod\n    @functools.lru_cache(maxsize=32)\n"
     "    def load(cls, mimfile):", "C10-R11"),
    ("coordinate columns stacked whole (mask dropped)",
     "AegeanTools/regions.py",
     "            sky = np.array(list(zip(ra, dec))).reshape(-1, 2)",
     "            sky = np.array([ra, dec], dtype=float).T.reshape(-1, 2)",
     "C10-R10"),
    ("image copied to single precision before masking", "AegeanTools/MIMAS.py",
     "        data = np.squeeze(im[0].data)\n",
     "        data = np.array(np.squeeze(im[0].data), dtype=np.float32)\n",
     "C10-R9"),
    ("cube planes blanked from the first plane's NaNs", "AegeanTools/MIMAS.py",
     "        for plane in range(data.shape[0]):\n"
     "            mask_plane(data[plane], wcs, region, negate)\n",
     "        mask_plane(data[0], wcs, region, negate)\n"
     "        blanked = np.isnan(data[0])\n"
     "        data[1:, blanked] = np.nan\n", "C10-R3"),
    ("only the first plane of a cube masked", "AegeanTools/MIMAS.py",
     "        for plane in range(data.shape[0]):\n"
     "            mask_plane(data[plane], wcs, region, negate)\n",
     "        mask_plane(data[0], wcs, region, negate)\n", "C10-R4"),
    ("origin 1 for numpy indices", "AegeanTools/MIMAS.py",
     "ra, dec = wcs.wcs_pix2world(indexes, 0).transpose()",
     "ra, dec = wcs.wcs_pix2world(indexes, 1).transpose()", "C10-R1"),
    ("row first", "AegeanTools/MIMAS.py",
     "    idx = np.array([(j, 0) for j in range(data.shape[1])])\n    j = "
     "data.shape[1]\n    for i in range(data.shape[0]):\n        idx[:, 1] = "
     "i\n",
     "    idx = np.array([(0, j) for j in range(data.shape[1])])\n    j = "
     "data.shape[1]\n    for i in range(data.shape[0]):\n        idx[:, 0] = "
     "i\n", "C10-R1"),
    ("radians assumed", "AegeanTools/MIMAS.py",
     "bigmask = region.sky_within(ra, dec, degin=True)",
     "bigmask = region.sky_within(ra, dec)", "C10-R1"),
    ("polarity inverted", "AegeanTools/MIMAS.py",
     "    if not negate:\n        bigmask = np.bitwise_not(bigmask)",
     "    if negate:\n        bigmask = np.bitwise_not(bigmask)", "C10-R2"),
    ("table polarity", "AegeanTools/MIMAS.py",
     "    if not negate:\n        mask = np.bitwise_not(inside)\n    else:\n"
     "        mask = inside",
     "    if negate:\n        mask = np.bitwise_not(inside)\n    else:\n"
     "        mask = inside", "C10-R2"),
    ("zero outside pixels", "AegeanTools/MIMAS.py",
     "    data[bigmask] = np.nan\n    return data",
     "    data[bigmask] = np.nan\n    data[~bigmask] *= 1.0\n    return "
     "data", "C10-R3"),
    ("cube drops negate", "AegeanTools/MIMAS.py",
     "mask_plane(data[plane], wcs, region, negate)",
     "mask_plane(data[plane], wcs, region)", "C10-R4"),
    ("cube masks first plane only", "AegeanTools/MIMAS.py",
     "mask_plane(data[plane], wcs, region, negate)",
     "mask_plane(data[0], wcs, region, negate)", "C10-R4"),
    ("removed numpy symbol", "AegeanTools/regions.py",
     "result = np.isin(pix, list(pixelset))",
     "result = np.in1d(pix, list(pixelset))", "C10-R5"),
    ("empty table", "AegeanTools/regions.py",
     "sky = np.array(list(zip(ra, dec))).reshape(-1, 2)",
     "sky = np.array(list(zip(ra, dec)))", "C10-R6"),
    ("meshgrid with the axis lengths in numpy order (seed C10b)",
     "AegeanTools/MIMAS.py",
     "    indexes = np.empty((data.shape[0]*data.shape[1], 2), dtype=int)\n    idx = np.array([(j, 0) for j in range(data.shape[1])])\n    j = data.shape[1]\n    for i in range(data.shape[0]):\n        idx[:, 1] = i\n        indexes[i*j:(i+1)*j] = idx\n",
     "    xpix, ypix = np.meshgrid(np.arange(data.shape[0]),\n                             np.arange(data.shape[1]))\n    indexes = np.column_stack((xpix.ravel(), ypix.ravel()))\n", "C10-R1"),
    ("meshgrid enumerated column-major", "AegeanTools/MIMAS.py",
     "    indexes = np.empty((data.shape[0]*data.shape[1], 2), dtype=int)\n    idx = np.array([(j, 0) for j in range(data.shape[1])])\n    j = data.shape[1]\n    for i in range(data.shape[0]):\n        idx[:, 1] = i\n        indexes[i*j:(i+1)*j] = idx\n",
     "    xpix, ypix = np.meshgrid(np.arange(data.shape[1]),\n                             np.arange(data.shape[0]), indexing='ij')\n    indexes = np.column_stack((xpix.ravel(), ypix.ravel()))\n", "C10-R7"),
    ("block length is the number of rows", "AegeanTools/MIMAS.py",
     "    j = data.shape[1]\n    for i in range(data.shape[0]):",
     "    j = data.shape[0]\n    for i in range(data.shape[0]):", "C10-R7"),
    ("fortran-order reshape", "AegeanTools/MIMAS.py",
     "bigmask = bigmask.reshape(data.shape)",
     "bigmask = bigmask.reshape(data.shape, order='F')", "C10-R7"),
    ("sky2ang parks non-finite angles at zero (seed C10c)",
     "AegeanTools/regions.py",
     "        theta_phi = self.sky2ang(sky)\n",
     "        theta_phi = np.nan_to_num(self.sky2ang(sky))\n", "C10-R8"),
    ("early return before the polarity inversion (seed C10d)",
     "AegeanTools/MIMAS.py",
     "    bigmask = region.sky_within(ra, dec, degin=True)\n",
     "    bigmask = region.sky_within(ra, dec, degin=True)\n    if not np.any(bigmask):\n        return data\n", "C10-R3"),
]
TWINS = [
    ("vectorised pixel grid", "AegeanTools/MIMAS.py",
     "    indexes = np.empty((data.shape[0]*data.shape[1], 2), dtype=int)\n    idx = np.array([(j, 0) for j in range(data.shape[1])])\n    j = data.shape[1]\n    for i in range(data.shape[0]):\n        idx[:, 1] = i\n        indexes[i*j:(i+1)*j] = idx\n",
     "    xpix, ypix = np.meshgrid(np.arange(data.shape[1]),\n                             np.arange(data.shape[0]))\n    indexes = np.column_stack((xpix.ravel(), ypix.ravel()))\n"),
    ("tilde instead of bitwise_not", "AegeanTools/MIMAS.py",
     "    if not negate:\n        bigmask = np.bitwise_not(bigmask)",
     "    if not negate:\n        bigmask = ~bigmask"),
    ("early return when the final mask is empty", "AegeanTools/MIMAS.py",
     "    bigmask = bigmask.reshape(data.shape)\n",
     "    if not np.any(bigmask):\n        return data\n    bigmask = bigmask.reshape(data.shape)\n"),
]



# ---------------------------------------------------------------- layout (R7)
def _shape_axis(fnode, e, data, depth=0):
    """k if `e` is data.shape[k] (directly, via a once-assigned local, or via
    `a, b = data.shape`), else None"""
    if isinstance(e, ast.Subscript) and isinstance(e.value, ast.Attribute) \
            and e.value.attr == "shape" and norm(e.value.value) == data and \
            isinstance(e.slice, ast.Constant) and e.slice.value in (0, 1,
                                                                    -1, -2):
        return e.slice.value % 2
    if isinstance(e, ast.Call) and norm(e.func) == "len" and e.args:
        a = e.args[0]
        if norm(a) == data:
            return 0
        if isinstance(a, ast.Subscript) and norm(a.value) == data and \
                isinstance(a.slice, ast.Constant) and a.slice.value == 0:
            return 1
    if isinstance(e, ast.Name) and depth < 4:
        defs = []
        for st in walk_no_nested(fnode):
            if isinstance(st, ast.Assign) and len(st.targets) == 1:
                t = st.targets[0]
                if isinstance(t, ast.Name) and t.id == e.id:
                    defs.append(("v", st.value))
                elif isinstance(t, (ast.Tuple, ast.List)):
                    for k, el in enumerate(t.elts):
                        if isinstance(el, ast.Name) and el.id == e.id:
                            defs.append(("t", (k, st.value)))
            elif isinstance(st, (ast.For, ast.AugAssign)):
                tg = st.target
                if e.id in names_in(tg):
                    defs.append(("x", None))
        if len(defs) != 1:
            return None
        kind, v = defs[0]
        if kind == "v":
            return _shape_axis(fnode, v, data, depth + 1)
        if kind == "t":
            k, val = v
            if isinstance(val, ast.Attribute) and val.attr == "shape" and \
                    norm(val.value) == data and k in (0, 1):
                return k
            if isinstance(val, (ast.Tuple, ast.List)) and k < len(val.elts):
                return _shape_axis(fnode, val.elts[k], data, depth + 1)
    return None


def _range_axis(fnode, e, data):
    """axis enumerated by range(n) / np.arange(n) with n = data.shape[k]"""
    if isinstance(e, ast.Call) and norm(e.func) in (
            "range", "np.arange", "numpy.arange") and len(e.args) == 1:
        return _shape_axis(fnode, e.args[0], data)
    if isinstance(e, ast.Name):
        defs = [st.value for st in walk_no_nested(fnode)
                if isinstance(st, ast.Assign) and len(st.targets) == 1 and
                isinstance(st.targets[0], ast.Name) and
                st.targets[0].id == e.id]
        if len(defs) == 1:
            return _range_axis(fnode, defs[0], data)
    return None


RC, CR, BAD = "row-major (row, column)", "column-major (column, row)", \
    "not a tiling of the image"
FLIP = {RC: CR, CR: RC}


def flatten_layouts(fnode, data):
    """Forward pass over the statements of mask_plane: for every local, the
    order in which it enumerates the pixels of the image (RC / CR / BAD), or
    nothing when it is not derived from a recognised pixel enumeration.
    Returns (env, sinks) where sinks = [(node, layout-or-None)] for every
    `<x>.reshape(data.shape)`."""
    env = {}
    sinks = []

    def lay(e):
        """layout of the value of expression e"""
        if isinstance(e, ast.Name):
            return env.get(e.id)
        if isinstance(e, ast.Call):
            fn = norm(e.func)
            kw = {k.arg: k.value for k in e.keywords}
            if fn in ("np.meshgrid", "numpy.meshgrid") and len(e.args) == 2:
                a, b = (_range_axis(fnode, x, data) for x in e.args)
                ij = isinstance(kw.get("indexing"), ast.Constant) and \
                    kw["indexing"].value == "ij"
                if a is None or b is None:
                    return None
                first, second = (a, b) if ij else (b, a)
                g = RC if (first, second) == (0, 1) else \
                    CR if (first, second) == (1, 0) else BAD
                return ("tuple", g)
            if fn in ("np.indices", "numpy.indices") and e.args and \
                    norm(e.args[0]) == data + ".shape":
                return ("tuple", RC)
            if isinstance(e.func, ast.Attribute) and e.func.attr in (
                    "ravel", "flatten", "reshape") or fn in (
                    "np.ravel", "numpy.ravel"):
                base = e.func.value if isinstance(e.func, ast.Attribute) \
                    and fn not in ("np.ravel", "numpy.ravel") else (
                        e.args[0] if e.args else None)
                got = lay(base) if base is not None else None
                if isinstance(got, tuple):
                    got = got[1]
                o = kw.get("order")
                if o is None and e.func.attr != "reshape" and e.args and \
                        isinstance(e.args[-1], ast.Constant) and \
                        isinstance(e.args[-1].value, str):
                    o = e.args[-1]
                if got in FLIP and o is not None and not (
                        isinstance(o, ast.Constant) and o.value in ("C",
                                                                    "K")):
                    got = FLIP[got] if isinstance(o, ast.Constant) and \
                        o.value == "F" else None
                if isinstance(e.func, ast.Attribute) and \
                        e.func.attr == "reshape" and e.args and \
                        norm(e.args[0]) in (data + ".shape",
                                            "np.shape(%s)" % data):
                    sinks.append((e, got))
                    return None
                return got
        if isinstance(e, ast.Subscript):
            got = lay(e.value)
            if isinstance(got, tuple):
                return got[1]
            return got
        # element-wise: whatever pixel order the operands have
        found = set()
        for sub in ast.iter_child_nodes(e):
            if isinstance(sub, (ast.expr,)):
                g = lay(sub)
                if isinstance(g, tuple):
                    g = g[1]
                if g is not None:
                    found.add(g)
            elif isinstance(sub, ast.keyword):
                g = lay(sub.value)
                if g is not None and not isinstance(g, tuple):
                    found.add(g)
        if len(found) == 1:
            return found.pop()
        if len(found) > 1:
            return BAD
        return None

    def assign(t, v):
        if isinstance(t, ast.Name):
            if v is None:
                env.pop(t.id, None)
            else:
                env[t.id] = v[1] if isinstance(v, tuple) else v
        elif isinstance(t, (ast.Tuple, ast.List)):
            for el in t.elts:
                assign(el, v)

    def block(stmts, loops):
        for st in stmts:
            if isinstance(st, ast.Assign):
                v = lay(st.value)
                for t in st.targets:
                    # data[<mask>.reshape(data.shape)] = nan: the index
                    # expression may hold the reshape
                    if isinstance(t, ast.Subscript):
                        lay(t.slice)
                for t in st.targets:
                    if isinstance(t, ast.Subscript) and \
                            isinstance(t.slice, ast.Slice) and \
                            isinstance(t.value, ast.Name):
                        # block store  out[i*J:(i+1)*J] = <one row/column>
                        lo = t.slice.lower
                        if isinstance(lo, ast.BinOp) and \
                                isinstance(lo.op, ast.Mult):
                            for iv, jv in ((lo.left, lo.right),
                                           (lo.right, lo.left)):
                                if isinstance(iv, ast.Name) and \
                                        iv.id in loops:
                                    a = loops[iv.id]
                                    b = _shape_axis(fnode, jv, data)
                                    if a is None or b is None:
                                        continue
                                    env[t.value.id] = RC if (a, b) == (0, 1) \
                                        else CR if (a, b) == (1, 0) else BAD
                                    # the block is exactly one line long:
                                    # upper - lower == J
                                    import sympy as _sp

                                    def _lin(e_):
                                        if isinstance(e_, ast.Constant) and \
                                                isinstance(e_.value, int):
                                            return _sp.Integer(e_.value)
                                        if isinstance(e_, ast.BinOp) and \
                                                isinstance(e_.op, (
                                                    ast.Add, ast.Sub,
                                                    ast.Mult)):
                                            l_, r_ = _lin(e_.left), \
                                                _lin(e_.right)
                                            return l_ + r_ if isinstance(
                                                e_.op, ast.Add) else \
                                                l_ - r_ if isinstance(
                                                    e_.op, ast.Sub) \
                                                else l_ * r_
                                        return _sp.Symbol("v_" + "".join(
                                            ch if ch.isalnum() else "_"
                                            for ch in norm(e_)))
                                    d_ = _sp.expand(
                                        _lin(t.slice.upper) - _lin(lo) -
                                        _lin(jv)) if t.slice.upper is not \
                                        None else None
                                    if d_ != 0:
                                        env[t.value.id] = BAD
                    elif isinstance(t, ast.Subscript):
                        pass        # element/column store keeps the order
                    else:
                        assign(t, v)
            elif isinstance(st, ast.For):
                lp = dict(loops)
                if isinstance(st.target, ast.Name):
                    lp[st.target.id] = _range_axis(fnode, st.iter, data)
                block(st.body, lp)
                block(st.orelse, loops)
            elif isinstance(st, ast.If):
                before = dict(env)
                block(st.body, loops)
                after_body = dict(env)
                env.clear()
                env.update(before)
                block(st.orelse, loops)
                for k in set(after_body) | set(env):
                    x, y = after_body.get(k), env.get(k)
                    if x != y:
                        env[k] = BAD if x and y else None
                        if env[k] is None:
                            del env[k]
            elif isinstance(st, (ast.With,)):
                block(st.body, loops)
            elif isinstance(st, ast.Try):
                block(st.body, loops)
                block(st.finalbody, loops)
            elif isinstance(st, (ast.Expr, ast.Return)) and \
                    st.value is not None:
                lay(st.value)
            elif isinstance(st, ast.AugAssign):
                lay(st.value)

    block(fnode.body, {})
    return env, sinks


def polarity(fnode, negate_value, source_is):
    """+1: true where inside the region, -1: true where outside.
    Returns {name: polarity} at the end of the function body, following the
    branch a test on `negate` selects."""
    pol = {}

    def ev(e):
        if isinstance(e, ast.Call):
            fn = norm(e.func)
            if source_is(e):
                return +1
            if fn in NOT_FUNCS and e.args:
                v = ev(e.args[0])
                return -v if v else None
            if isinstance(e.func, ast.Attribute) and e.func.attr in (
                    "reshape", "copy", "astype", "ravel"):
                return ev(e.func.value)
            if fn in ("np.array", "np.asarray") and e.args:
                return ev(e.args[0])
        if isinstance(e, ast.UnaryOp) and isinstance(e.op, ast.Invert):
            v = ev(e.operand)
            return -v if v else None
        if isinstance(e, ast.IfExp):
            tv = test_value(e.test)
            if tv is True:
                return ev(e.body)
            if tv is False:
                return ev(e.orelse)
            return None
        if isinstance(e, ast.Name):
            return pol.get(e.id)
        return None

    def test_value(t):
        if isinstance(t, ast.Name) and t.id == "negate":
            return negate_value
        if isinstance(t, ast.UnaryOp) and isinstance(t.op, ast.Not):
            v = test_value(t.operand)
            return None if v is None else not v
        if isinstance(t, ast.Compare) and isinstance(t.left, ast.Name) and \
                t.left.id == "negate" and len(t.ops) == 1 and \
                isinstance(t.comparators[0], ast.Constant):
            c = t.comparators[0].value
            if isinstance(t.ops[0], (ast.Is, ast.Eq)):
                return negate_value == c
            if isinstance(t.ops[0], (ast.IsNot, ast.NotEq)):
                return negate_value != c
        return None

    def block(stmts):
        for s in stmts:
            if isinstance(s, ast.Assign) and len(s.targets) == 1 and \
                    isinstance(s.targets[0], ast.Name):
                v = ev(s.value)
                if v is not None:
                    pol[s.targets[0].id] = v
                else:
                    pol.pop(s.targets[0].id, None)
            elif isinstance(s, ast.If):
                tv = test_value(s.test)
                if tv is True:
                    block(s.body)
                elif tv is False:
                    block(s.orelse)
                elif all(isinstance(b, (ast.Return, ast.Expr, ast.Pass))
                         for b in s.body) and not s.orelse:
                    # an early exit that does not touch the masks: judged by
                    # the frame rule (R3), not by the polarity table
                    continue
                else:
                    raise AnalysisError(
                        "C10-R2: branch on %s is not a test of negate" %
                        norm(s.test))
            elif isinstance(s, (ast.For, ast.While, ast.With, ast.Try)):
                for sub in ("body", "orelse", "finalbody"):
                    block(getattr(s, sub, []) or [])
    block(fnode.body)
    return pol, ev


def run(ctx):
    prog = ctx.prog
    scope = {"MIMAS.mask_plane", "MIMAS.mask_file", "MIMAS.mask_table",
             "MIMAS.mask_catalog"}
    for s in scope:
        prog.func(s)
    # ---------------------------------------------------------------- R1/R5
    ctx.rule("C10-R1", "the pixel grid given to *_pix2world is (column, row) "
             "ordered, image-relative and its index origin equals the origin "
             "argument; the resulting positions reach Region.sky_within "
             "untainted, in the unit degin announces")
    unitrules.apply(ctx, "C10-R1", scope, kinds={"sink", "call"},
                    what="pix2world / sky_within sites in the masking "
                    "functions", floor=2)
    # ---------------------------------------------------------------- R2
    ctx.rule("C10-R2", "polarity: image pixels are blanked iff NOT inside "
             "(negate=False) / iff inside (negate=True); table rows are kept "
             "iff NOT inside (negate=False) / iff inside (negate=True)")
    mp = prog.func("MIMAS.mask_plane")
    mt = prog.func("MIMAS.mask_table")

    def is_within(e):
        return isinstance(e.func, ast.Attribute) and \
            e.func.attr == "sky_within"
    for fi, role, expect in ((mp, "blanked", {False: -1, True: +1}),
                             (mt, "kept", {False: -1, True: +1})):
        for neg in (False, True):
            pol, ev = polarity(fi.node, neg, is_within)
            sinks = []
            if role == "blanked":
                for s in walk_no_nested(fi.node):
                    if isinstance(s, ast.Assign) and \
                            isinstance(s.targets[0], ast.Subscript) and \
                            norm(s.targets[0].value) == fi.params[0]:
                        sinks.append((s, s.targets[0].slice))
                    elif isinstance(s, ast.Assign) and \
                            isinstance(s.targets[0], ast.Subscript) and \
                            isinstance(s.targets[0].value, ast.Call) and \
                            isinstance(s.targets[0].value.func,
                                       ast.Attribute) and \
                            norm(s.targets[0].value.func.value) == \
                            fi.params[0] and neg is False:
                        # data.ravel()[mask] = nan / data.reshape(-1)[..]:
                        # numpy returns a VIEW only for contiguous arrays
                        ctx.check("C10-R2", fi, "blanks written into the "
                                  "image itself: " + norm(s, 60), False,
                                  "`%s` stores into the result of a method "
                                  "call: for a non-contiguous image (a "
                                  "cut-out view, a transposed or strided "
                                  "array) that is a temporary copy, and the "
                                  "image comes back unmasked" %
                                  norm(s.targets[0].value, 40), node=s)
                        sinks.append((s, s.targets[0].slice))
                    elif isinstance(s, ast.Assign) and \
                            isinstance(s.targets[0], ast.Subscript) and \
                            isinstance(s.targets[0].value, ast.Call) and \
                            isinstance(s.targets[0].value.func,
                                       ast.Attribute) and \
                            norm(s.targets[0].value.func.value) == \
                            fi.params[0]:
                        sinks.append((s, s.targets[0].slice))
            else:
                for s in walk_no_nested(fi.node):
                    if isinstance(s, ast.Return) and \
                            isinstance(s.value, ast.Subscript) and \
                            norm(s.value.value) == "table":
                        sinks.append((s, s.value.slice))
            if len(sinks) != 1:
                raise AnalysisError("C10-R2: expected one %s sink in %s, "
                                    "found %d" % (role, fi.short, len(sinks)))
            s, idx = sinks[0]
            got = ev(idx)
            if got is None:
                raise AnalysisError("C10-R2: polarity of %s not derivable in "
                                    "%s" % (norm(idx), fi.short))
            ctx.check("C10-R2", fi, "%s mask with negate=%s" % (role, neg),
                      got == expect[neg],
                      "with negate=%s the %s mask is true %s the region; it "
                      "must be true %s" % (neg, role,
                                           "inside" if got > 0 else "outside",
                                           "inside" if expect[neg] > 0
                                           else "outside"),
                      {"negate": neg, "polarity": got}, s)
    # ---------------------------------------------------------------- R3
    ctx.rule("C10-R3", "frame condition: the only write to the image array "
             "is data[mask] = nan; the table result is table[mask]")
    data = mp.params[0]
    writes = []
    for s in walk_no_nested(mp.node):
        tg = []
        if isinstance(s, ast.Assign):
            tg = s.targets
        elif isinstance(s, ast.AugAssign):
            tg = [s.target]
        for t in tg:
            # the array being written is the base of the target, not every
            # mention of it inside the index expression
            base = t
            while isinstance(base, (ast.Subscript, ast.Attribute)):
                base = base.value
            if isinstance(base, ast.Name) and base.id == data and \
                    s not in writes:
                writes.append(s)
        if isinstance(s, ast.Call) and isinstance(s.func, ast.Attribute) and \
                norm(s.func.value) == data and \
                s.func.attr in ("fill", "put", "sort", "resize", "itemset"):
            writes.append(s)
    ok = len(writes) == 1 and isinstance(writes[0], ast.Assign) and \
        isinstance(writes[0].targets[0], ast.Subscript) and \
        norm(writes[0].value) in ("np.nan", "numpy.nan", "float('nan')",
                                  "np.NaN")
    ctx.check("C10-R3", mp, "writes to the image: %s" %
              [norm(w) for w in writes], ok,
              "besides data[mask] = nan the image is modified: unmasked "
              "pixel values would change", node=writes[0] if writes
              else mp.node)
    # every normal return passes the masked write -- except behind a guard
    # saying that the FINAL mask selects nothing
    if ok:
        from ..cfg import CFG, ENTRY, EXIT
        g3 = CFG(mp.node)
        wn = g3.nodes_for_stmt(writes[0])
        mname = norm(writes[0].targets[0].slice)
        bypass = g3.path_avoiding(ENTRY, EXIT, set(wn)) if wn else None
        explained = True
        why = ""
        if bypass:
            explained = False
            for k_, nd in enumerate(bypass[:-1]):
                if g3.kind.get(nd) != "if":
                    continue
                t_ = g3.stmt[nd].test
                lab = g3.g[nd][bypass[k_ + 1]].get("label")
                # `not np.any(M)` / `not M.any()` taken when true
                inner = t_.operand if isinstance(t_, ast.UnaryOp) and \
                    isinstance(t_.op, ast.Not) else None
                anym = inner is not None and isinstance(inner, ast.Call) and (
                    norm(inner.func) in ("np.any", "numpy.any") and
                    inner.args and norm(inner.args[0]) == mname or
                    isinstance(inner.func, ast.Attribute) and
                    inner.func.attr == "any" and
                    norm(inner.func.value) == mname)
                if anym and lab == "T":
                    later = [st for st in walk_no_nested(mp.node)
                             if isinstance(st, ast.Assign) and
                             norm(st.targets[0]) == mname and
                             st.lineno > g3.stmt[nd].lineno and not (
                                 # a reshape selects the same pixels
                                 isinstance(st.value, ast.Call) and
                                 isinstance(st.value.func, ast.Attribute)
                                 and st.value.func.attr in (
                                     "reshape", "ravel", "copy", "astype")
                                 and norm(st.value.func.value) == mname)]
                    explained = not later
                    why = "the guard `%s` tests %s before its final " \
                        "definition (%s)" % (norm(t_), mname,
                                             [norm(l_, 50) for l_ in later])
        ctx.check("C10-R3", mp, "every normal return applies the mask",
                  explained, "a path returns without `%s`: %s%s -- with "
                  "negate=False and no pixel inside the region nothing is "
                  "blanked although everything should be" %
                  (norm(writes[0]), g3.describe(bypass) if bypass else "",
                   ("; " + why) if why else ""), node=writes[0])
    rets = [s for s in walk_no_nested(mp.node) if isinstance(s, ast.Return)]
    ctx.check("C10-R3", mp, "returns the input array", all(
        s.value is not None and norm(s.value) == data for s in rets),
        "mask_plane must return the (in-place masked) input array",
        node=rets[0] if rets else mp.node)
    # ---------------------------------------------------------------- R7
    ctx.rule("C10-R7", "the flat list of pixel positions is enumerated in "
             "the order in which <mask>.reshape(data.shape) lays it out "
             "again: row-major over (row, column)")
    env7, sinks7 = flatten_layouts(mp.node, data)
    n7 = 0
    for node, got in sinks7:
        if got is None:
            ctx.unknown_site("C10-R7", mp, "pixel order of %s not derived "
                             "from a recognised enumeration" % norm(node),
                             node=node)
            continue
        n7 += 1
        ctx.check("C10-R7", mp, "pixel order of %s" % norm(node, 60),
                  got == RC, "the pixel list is enumerated %s but reshape("
                  "data.shape) reads it row-major: each pixel receives the "
                  "inside/outside verdict of another position" % got,
                  node=node)
    ctx.floor("C10-R7", n7, 1, "reshape(data.shape) sites with a derived "
              "pixel order")
    # the list has one entry per pixel: arrays allocated for it hold
    # shape[0] * shape[1] rows
    for st in walk_no_nested(mp.node):
        if isinstance(st, ast.Assign) and isinstance(st.value, ast.Call) and \
                norm(st.value.func).split(".")[-1] in ("empty", "zeros",
                                                       "ones", "full") and \
                st.value.args and isinstance(st.value.args[0], ast.Tuple) and \
                len(st.value.args[0].elts) == 2 and \
                isinstance(st.value.args[0].elts[1], ast.Constant) and \
                st.value.args[0].elts[1].value == 2:
            from ..core import expand_locals as _el7
            n_ = _el7(mp.node, st.value.args[0].elts[0])
            okn = isinstance(n_, ast.BinOp) and isinstance(n_.op, ast.Mult) \
                and {norm(n_.left), norm(n_.right)} == {
                    data + ".shape[0]", data + ".shape[1]"} or \
                norm(n_) == data + ".size"
            ctx.check("C10-R7", mp, "one entry per pixel: " + norm(st, 70),
                      okn, "the position list must hold %s.shape[0] * "
                      "%s.shape[1] entries; found %s (uninitialised rows of "
                      "np.empty are tested as positions, or pixels are "
                      "missing)" % (data, data, norm(n_)), node=st)
    # ---------------------------------------------------------------- R4
    ctx.rule("C10-R4", "every plane of a cube is masked by the same 2-d "
             "routine with loop-invariant wcs, region and negate")
    mf = prog.func("MIMAS.mask_file")
    loops = [l for l in walk_no_nested(mf.node) if isinstance(l, ast.For)]
    found = False
    for lp in loops:
        calls = [c for c in ast.walk(lp) if isinstance(c, ast.Call) and
                 norm(c.func) == "mask_plane"]
        if not calls:
            continue
        found = True
        assigned = {n.id for st in lp.body for n in ast.walk(st)
                    if isinstance(n, ast.Name) and isinstance(n.ctx,
                                                              ast.Store)}
        c = calls[0]
        inv = [norm(a) for a in c.args[1:]] + \
            [norm(k.value) for k in c.keywords]
        first = c.args[0] if c.args else None
        plane_ok = (isinstance(first, ast.Subscript) and
                    norm(first.slice) == norm(lp.target) and
                    isinstance(lp.iter, ast.Call) and
                    norm(lp.iter.func) == "range" and
                    norm(lp.iter.args[-1]) == norm(first.value) +
                    ".shape[0]") or \
            (isinstance(first, ast.Name) and
             norm(first) == norm(lp.target) and
             isinstance(lp.iter, ast.Name))      # for plane in data
        ctx.check("C10-R4", mf, "plane loop " + norm(c), plane_ok and
                  not (set(inv) & assigned),
                  "each plane data[k], k in range(shape[0]), must be masked "
                  "with the same wcs/region/negate", node=c)
        ctx.check("C10-R4", mf, "negate forwarded in plane loop",
                  "negate" in inv, "the cube branch drops the negate option",
                  node=c)
    # frame condition of the driver: the pixel values are written by the
    # 2-d routine only
    from ..core import view_writes
    vw = view_writes(mf.node, root_attrs=("data",))
    for st, nm, what in vw:
        if isinstance(st, ast.Assign) and norm(st.targets[0]) == what:
            continue        # im[0].data = data
        # does the written selection / value derive from pixel VALUES?
        aliases = {a for _, a, _ in vw}
        seen, todo = set(), set()
        tg = st.targets[0] if isinstance(st, ast.Assign) else st.target
        for part in ([tg.slice] if isinstance(tg, ast.Subscript) else []) \
                + [st.value]:
            todo |= names_in(part)
        while todo:
            x = todo.pop()
            if x in seen:
                continue
            seen.add(x)
            for d in walk_no_nested(mf.node):
                if isinstance(d, ast.Assign) and any(
                        norm(t) == x for t in d.targets):
                    todo |= names_in(d.value)
        if not (seen & aliases):
            ctx.unknown_site("C10-R3", mf, "mask_file writes %s from values "
                             "that do not derive from the pixels" %
                             norm(st, 50), node=st)
            continue
        ctx.check("C10-R3", mf, "write to the image in mask_file: " +
                  norm(st, 60), False,
                  "mask_file writes pixel values itself (through %s, a view "
                  "of %s): only mask_plane, which decides from the pixel "
                  "POSITIONS, may blank pixels -- a mask derived from pixel "
                  "values also blanks (or keeps) pixels because of what an "
                  "other plane contains" % (nm, what), node=st)
    single = [c for c in walk_no_nested(mf.node) if isinstance(c, ast.Call)
              and norm(c.func) == "mask_plane" and c.args
              and isinstance(c.args[0], ast.Subscript)
              and isinstance(c.args[0].slice, ast.Constant)
              and not any(c in ast.walk(l) for l in loops)]
    posderived = [x for x in ctx.unknown if "mask_file writes" in str(x)] \
        if hasattr(ctx, "unknown") else []
    if not found and single and not posderived:
        ctx.check("C10-R4", mf, "cube branch " + norm(single[0], 60), False,
                  "only plane %s of a cube is masked by the 2-d routine; "
                  "every plane must be masked by mask_plane with the same "
                  "wcs / region / negate" % norm(single[0].args[0].slice),
                  node=single[0])
        found = True
    if not found:
        raise AnalysisError("C10-R4: plane loop not found in mask_file")
    direct = [c for c in walk_no_nested(mf.node) if isinstance(c, ast.Call)
              and norm(c.func) == "mask_plane" and
              not any(c in ast.walk(l) for l in loops)]
    for c in direct:
        inv = [norm(a) for a in c.args[1:]] + \
            [norm(k.value) for k in c.keywords]
        ctx.check("C10-R4", mf, "negate forwarded in 2-d branch",
                  "negate" in inv, "the 2-d branch drops the negate option",
                  node=c)
    # ---------------------------------------------------------------- R9
    from .. import precision
    precision.rule(
        ctx, prog, "C10-R9", ["MIMAS.mask_file", "MIMAS.mask_plane"],
        "all other pixel values are unchanged: masking neither casts nor "
        "copies the image into a narrower floating-point type (a float64 "
        "or 32-bit integer image would come back rounded to 7 digits)",
        "a narrow dtype is used on the way of the pixel values", floor=2)
    # ---------------------------------------------------------------- R10
    ctx.rule("C10-R10", "masked table cells are undefined coordinates: "
             "radec2sky receives table columns (possibly masked) and must "
             "turn masked entries into NaN -- it iterates them element-wise "
             "(zip: a masked element converts to nan) or fills them "
             "explicitly; handing the whole columns to np.array / asarray / "
             "stack / column_stack drops the mask and exposes the hidden "
             "fill value as a position (numpy contract on masked arrays)")
    r2s_ = prog.func("regions.Region.radec2sky")
    cparams = [p_ for p_ in r2s_.params if p_ not in ("self", "cls")][:2]
    whole = []
    for c in walk_no_nested(r2s_.node):
        if isinstance(c, ast.Call) and norm(c.func).split(".")[-1] in (
                "array", "asarray", "asanyarray", "stack", "column_stack",
                "vstack", "hstack", "concatenate", "transpose"):
            for a in c.args[:1]:
                elts = a.elts if isinstance(a, (ast.List, ast.Tuple)) else [a]
                if any(isinstance(e, ast.Name) and e.id in cparams
                       for e in elts) and not any(
                           isinstance(x, ast.Call) and
                           norm(x.func).split(".")[-1] in ("filled", "zip")
                           for x in ast.walk(a)):
                    whole.append(c)
    tried = [h for t in walk_no_nested(r2s_.node) if isinstance(t, ast.Try)
             for h in t.handlers for x in ast.walk(h)]
    whole = [c for c in whole if not any(c is x for x in tried)]
    ctx.check("C10-R10", r2s_, "columns converted element-wise in radec2sky",
              not whole, "`%s` converts the whole coordinate columns at "
              "once: a masked cell (blank in a csv catalogue) loses its mask "
              "and is tested at its hidden value, e.g. (0, 0)" %
              (norm(whole[0], 60) if whole else ""),
              node=whole[0] if whole else r2s_.node)
    # ... and on the way there: the table masking functions hand the
    # columns to sky_within as they are
    from .c08 import _resolve_local as _rl10
    DROP = ("array", "asarray", "asfarray", "ascontiguousarray", "stack",
            "column_stack", "vstack", "hstack", "float64", "float_",
            "nan_to_num", "tolist", "filled")
    n10 = 0
    for short in ("MIMAS.mask_table", "MIMAS.mask_catalog"):
        f10 = prog.func(short)
        for c in walk_no_nested(f10.node):
            if not (isinstance(c, ast.Call) and
                    isinstance(c.func, ast.Attribute) and
                    c.func.attr == "sky_within"):
                continue
            for a in c.args[:2]:
                n10 += 1
                v = _rl10(f10.node, a) if isinstance(a, ast.Name) else a
                drop = [x for x in ast.walk(v) if isinstance(x, ast.Call) and
                        norm(x.func).split(".")[-1] in DROP or
                        isinstance(x, ast.Attribute) and
                        x.attr in ("data", "value", "values") and
                        isinstance(x.ctx, ast.Load)]
                ctx.check("C10-R10", f10, "coordinate column handed on as "
                          "it is: " + norm(v, 60), not drop,
                          "`%s` strips the mask of a table column before the "
                          "membership test: a blank cell is then tested at "
                          "the value stored under the mask (0 for csv / tab "
                          "catalogues), i.e. at RA = 0 or on the equator" %
                          (norm(drop[0], 60) if drop else ""), node=c)
    ctx.floor("C10-R10", n10, 2, "coordinate arguments of sky_within in the "
              "table masking functions")
    # ---------------------------------------------------------------- R11
    from ..core import shared_state as _shared
    ctx.rule("C10-R11", "masking uses the region that the file holds now: "
             "no method of Region and no function of MIMAS memoises "
             "(lru_cache on Region.load, module- or class-level containers, "
             "mutable defaults) -- a region cached by file name survives the "
             ".mim file being rewritten")
    _n = 0
    for _q, _f in sorted(prog.functions.items()):
        if not (_f.module.endswith("regions") or
                _f.module.endswith("AegeanTools.MIMAS")):
            continue
        _n += 1
        _st = _shared(prog, _f)
        ctx.check("C10-R11", _f, "%s keeps no state between calls" %
                  _f.short, not _st, "%s: pixels / rows are then blanked or "
                  "kept according to a region that is not the one given" %
                  "; ".join(d for _, d in _st[:3]),
                  node=_st[0][0] if _st else _f.node)
    ctx.floor("C10-R11", _n, 20, "functions examined for shared state")
    # ---------------------------------------------------------------- R12
    # the mask is exactly the membership answer: grid positions that share a
    # HEALPix pixel repeat in the query, so isin must run without
    # assume_unique / invert (rule shared with C09-R6 / C08-R13 / C11-R8)
    from ..regionmodel import region_methods as _rm
    from .c09 import membership_for as _mf
    _mf(ctx, prog, _rm(prog), "C10-R12")
    # ---------------------------------------------------------------- R8
    ctx.rule("C10-R8", "undefined coordinates are never inside: the "
             "non-finite mask of Region.sky_within is taken from values that "
             "are still non-finite, is the last writer of the result and is "
             "not widened (shared with C09-R3)")
    from ..regionmodel import region_methods
    from .c09 import nonfinite_rule
    nonfinite_rule(ctx, prog, region_methods(prog), "C10-R8")
    # ---------------------------------------------------------------- R6
    ctx.rule("C10-R6", "empty tables / position lists: the position array "
             "handed to the region test keeps two columns for zero rows")
    from .c09 import two_column_rule
    two_column_rule(ctx, "C10-R6", prog.func("regions.Region.radec2sky"))
    # ---------------------------------------------------------------- R5
    n = link.check(ctx, sorted(scope) + ["regions.Region.sky_within"],
                   rule="C10-R5", what="masking entry points")
    ctx.floor("C10-R5", n, 10, "library symbols reachable from masking")
