"""C10 -- masking keeps or removes exactly the pixels/rows in the region."""
from __future__ import annotations

import ast

from .. import link, unitrules
from ..core import AnalysisError, names_in, norm, walk_no_nested

EXPLANATION = (
    "Static analysis of AegeanTools/MIMAS.py (mask_plane, mask_file, "
    "mask_table, mask_catalog). R1: index-type abstract interpretation of the "
    "pixel grid handed to astropy's *_pix2world -- each column must be a "
    "(column, row) index whose origin equals the `origin` argument; a "
    "mismatch taints the sky positions and is reported when they reach "
    "Region.sky_within. R2: the polarity of the blanking mask / kept-row mask "
    "is tabulated over negate in {False, True} from the boolean data flow "
    "(bitwise_not, ~, if not negate) and compared with the stated table. R3: "
    "frame condition -- the only write to the image is data[mask] = nan and "
    "the table result is a boolean-mask selection of the input. R4: the cube "
    "loop calls the 2-d routine with loop-invariant wcs/region/negate on "
    "data[plane]. R5: degin=True is passed with WCS degrees and every library "
    "symbol reachable from the masking entry points resolves. Does not "
    "decide astropy's WCS or HEALPix geometry.")
ASSUMPTIONS = [
    "astropy WCS.wcs_pix2world(pairs, origin) semantics (x=column first, "
    "origin = index of the first pixel)",
    "numpy boolean-mask assignment/selection semantics",
]

NOT_FUNCS = {"np.bitwise_not", "numpy.bitwise_not", "np.logical_not",
             "numpy.logical_not", "np.invert", "numpy.invert"}


MUTANTS = [
    ("origin 1 for numpy indices", "AegeanTools/MIMAS.py",
     "ra, dec = wcs.wcs_pix2world(indexes, 0).transpose()",
     "ra, dec = wcs.wcs_pix2world(indexes, 1).transpose()", "C10-R1"),
    ("row first", "AegeanTools/MIMAS.py",
     "    idx = np.array([(j, 0) for j in range(data.shape[1])])\n    j = "
     "data.shape[1]\n    for i in range(data.shape[0]):\n        idx[:, 1] = "
     "i\n",
     "    idx = np.array([(0, j) for j in range(data.shape[1])])\n    j = "
     "data.shape[1]\n    for i in range(data.shape[0]):\n        idx[:, 0] = "
     "i\n", "C10-R1"),
    ("radians assumed", "AegeanTools/MIMAS.py",
     "bigmask = region.sky_within(ra, dec, degin=True)",
     "bigmask = region.sky_within(ra, dec)", "C10-R1"),
    ("polarity inverted", "AegeanTools/MIMAS.py",
     "    if not negate:\n        bigmask = np.bitwise_not(bigmask)",
     "    if negate:\n        bigmask = np.bitwise_not(bigmask)", "C10-R2"),
    ("table polarity", "AegeanTools/MIMAS.py",
     "    if not negate:\n        mask = np.bitwise_not(inside)\n    else:\n"
     "        mask = inside",
     "    if negate:\n        mask = np.bitwise_not(inside)\n    else:\n"
     "        mask = inside", "C10-R2"),
    ("zero outside pixels", "AegeanTools/MIMAS.py",
     "    data[bigmask] = np.nan\n    return data",
     "    data[bigmask] = np.nan\n    data[~bigmask] *= 1.0\n    return "
     "data", "C10-R3"),
    ("cube drops negate", "AegeanTools/MIMAS.py",
     "mask_plane(data[plane], wcs, region, negate)",
     "mask_plane(data[plane], wcs, region)", "C10-R4"),
    ("cube masks first plane only", "AegeanTools/MIMAS.py",
     "mask_plane(data[plane], wcs, region, negate)",
     "mask_plane(data[0], wcs, region, negate)", "C10-R4"),
    ("removed numpy symbol", "AegeanTools/regions.py",
     "result = np.isin(pix, list(pixelset))",
     "result = np.in1d(pix, list(pixelset))", "C10-R5"),
    ("empty table", "AegeanTools/regions.py",
     "sky = np.array(list(zip(ra, dec))).reshape(-1, 2)",
     "sky = np.array(list(zip(ra, dec)))", "C10-R6"),
]
TWINS = [
    ("tilde instead of bitwise_not", "AegeanTools/MIMAS.py",
     "    if not negate:\n        bigmask = np.bitwise_not(bigmask)",
     "    if not negate:\n        bigmask = ~bigmask"),
]



def polarity(fnode, negate_value, source_is):
    """+1: true where inside the region, -1: true where outside.
    Returns {name: polarity} at the end of the function body, following the
    branch a test on `negate` selects."""
    pol = {}

    def ev(e):
        if isinstance(e, ast.Call):
            fn = norm(e.func)
            if source_is(e):
                return +1
            if fn in NOT_FUNCS and e.args:
                v = ev(e.args[0])
                return -v if v else None
            if isinstance(e.func, ast.Attribute) and e.func.attr in (
                    "reshape", "copy", "astype", "ravel"):
                return ev(e.func.value)
            if fn in ("np.array", "np.asarray") and e.args:
                return ev(e.args[0])
        if isinstance(e, ast.UnaryOp) and isinstance(e.op, ast.Invert):
            v = ev(e.operand)
            return -v if v else None
        if isinstance(e, ast.IfExp):
            tv = test_value(e.test)
            if tv is True:
                return ev(e.body)
            if tv is False:
                return ev(e.orelse)
            return None
        if isinstance(e, ast.Name):
            return pol.get(e.id)
        return None

    def test_value(t):
        if isinstance(t, ast.Name) and t.id == "negate":
            return negate_value
        if isinstance(t, ast.UnaryOp) and isinstance(t.op, ast.Not):
            v = test_value(t.operand)
            return None if v is None else not v
        if isinstance(t, ast.Compare) and isinstance(t.left, ast.Name) and \
                t.left.id == "negate" and len(t.ops) == 1 and \
                isinstance(t.comparators[0], ast.Constant):
            c = t.comparators[0].value
            if isinstance(t.ops[0], (ast.Is, ast.Eq)):
                return negate_value == c
            if isinstance(t.ops[0], (ast.IsNot, ast.NotEq)):
                return negate_value != c
        return None

    def block(stmts):
        for s in stmts:
            if isinstance(s, ast.Assign) and len(s.targets) == 1 and \
                    isinstance(s.targets[0], ast.Name):
                v = ev(s.value)
                if v is not None:
                    pol[s.targets[0].id] = v
                else:
                    pol.pop(s.targets[0].id, None)
            elif isinstance(s, ast.If):
                tv = test_value(s.test)
                if tv is True:
                    block(s.body)
                elif tv is False:
                    block(s.orelse)
                else:
                    raise AnalysisError(
                        "C10-R2: branch on %s is not a test of negate" %
                        norm(s.test))
            elif isinstance(s, (ast.For, ast.While, ast.With, ast.Try)):
                for sub in ("body", "orelse", "finalbody"):
                    block(getattr(s, sub, []) or [])
    block(fnode.body)
    return pol, ev


def run(ctx):
    prog = ctx.prog
    scope = {"MIMAS.mask_plane", "MIMAS.mask_file", "MIMAS.mask_table",
             "MIMAS.mask_catalog"}
    for s in scope:
        prog.func(s)
    # ---------------------------------------------------------------- R1/R5
    ctx.rule("C10-R1", "the pixel grid given to *_pix2world is (column, row) "
             "ordered, image-relative and its index origin equals the origin "
             "argument; the resulting positions reach Region.sky_within "
             "untainted, in the unit degin announces")
    unitrules.apply(ctx, "C10-R1", scope, kinds={"sink", "call"},
                    what="pix2world / sky_within sites in the masking "
                    "functions", floor=2)
    # ---------------------------------------------------------------- R2
    ctx.rule("C10-R2", "polarity: image pixels are blanked iff NOT inside "
             "(negate=False) / iff inside (negate=True); table rows are kept "
             "iff NOT inside (negate=False) / iff inside (negate=True)")
    mp = prog.func("MIMAS.mask_plane")
    mt = prog.func("MIMAS.mask_table")

    def is_within(e):
        return isinstance(e.func, ast.Attribute) and \
            e.func.attr == "sky_within"
    for fi, role, expect in ((mp, "blanked", {False: -1, True: +1}),
                             (mt, "kept", {False: -1, True: +1})):
        for neg in (False, True):
            pol, ev = polarity(fi.node, neg, is_within)
            sinks = []
            if role == "blanked":
                for s in walk_no_nested(fi.node):
                    if isinstance(s, ast.Assign) and \
                            isinstance(s.targets[0], ast.Subscript) and \
                            norm(s.targets[0].value) == fi.params[0]:
                        sinks.append((s, s.targets[0].slice))
            else:
                for s in walk_no_nested(fi.node):
                    if isinstance(s, ast.Return) and \
                            isinstance(s.value, ast.Subscript) and \
                            norm(s.value.value) == "table":
                        sinks.append((s, s.value.slice))
            if len(sinks) != 1:
                raise AnalysisError("C10-R2: expected one %s sink in %s, "
                                    "found %d" % (role, fi.short, len(sinks)))
            s, idx = sinks[0]
            got = ev(idx)
            if got is None:
                raise AnalysisError("C10-R2: polarity of %s not derivable in "
                                    "%s" % (norm(idx), fi.short))
            ctx.check("C10-R2", fi, "%s mask with negate=%s" % (role, neg),
                      got == expect[neg],
                      "with negate=%s the %s mask is true %s the region; it "
                      "must be true %s" % (neg, role,
                                           "inside" if got > 0 else "outside",
                                           "inside" if expect[neg] > 0
                                           else "outside"),
                      {"negate": neg, "polarity": got}, s)
    # ---------------------------------------------------------------- R3
    ctx.rule("C10-R3", "frame condition: the only write to the image array "
             "is data[mask] = nan; the table result is table[mask]")
    data = mp.params[0]
    writes = []
    for s in walk_no_nested(mp.node):
        tg = []
        if isinstance(s, ast.Assign):
            tg = s.targets
        elif isinstance(s, ast.AugAssign):
            tg = [s.target]
        for t in tg:
            # the array being written is the base of the target, not every
            # mention of it inside the index expression
            base = t
            while isinstance(base, (ast.Subscript, ast.Attribute)):
                base = base.value
            if isinstance(base, ast.Name) and base.id == data and \
                    s not in writes:
                writes.append(s)
        if isinstance(s, ast.Call) and isinstance(s.func, ast.Attribute) and \
                norm(s.func.value) == data and \
                s.func.attr in ("fill", "put", "sort", "resize", "itemset"):
            writes.append(s)
    ok = len(writes) == 1 and isinstance(writes[0], ast.Assign) and \
        isinstance(writes[0].targets[0], ast.Subscript) and \
        norm(writes[0].value) in ("np.nan", "numpy.nan", "float('nan')",
                                  "np.NaN")
    ctx.check("C10-R3", mp, "writes to the image: %s" %
              [norm(w) for w in writes], ok,
              "besides data[mask] = nan the image is modified: unmasked "
              "pixel values would change", node=writes[0] if writes
              else mp.node)
    rets = [s for s in walk_no_nested(mp.node) if isinstance(s, ast.Return)]
    ctx.check("C10-R3", mp, "returns the input array", all(
        s.value is not None and norm(s.value) == data for s in rets),
        "mask_plane must return the (in-place masked) input array",
        node=rets[0] if rets else mp.node)
    # ---------------------------------------------------------------- R4
    ctx.rule("C10-R4", "every plane of a cube is masked by the same 2-d "
             "routine with loop-invariant wcs, region and negate")
    mf = prog.func("MIMAS.mask_file")
    loops = [l for l in walk_no_nested(mf.node) if isinstance(l, ast.For)]
    found = False
    for lp in loops:
        calls = [c for c in ast.walk(lp) if isinstance(c, ast.Call) and
                 norm(c.func) == "mask_plane"]
        if not calls:
            continue
        found = True
        assigned = {n.id for st in lp.body for n in ast.walk(st)
                    if isinstance(n, ast.Name) and isinstance(n.ctx,
                                                              ast.Store)}
        c = calls[0]
        inv = [norm(a) for a in c.args[1:]] + \
            [norm(k.value) for k in c.keywords]
        first = c.args[0] if c.args else None
        plane_ok = (isinstance(first, ast.Subscript) and
                    norm(first.slice) == norm(lp.target) and
                    isinstance(lp.iter, ast.Call) and
                    norm(lp.iter.func) == "range" and
                    norm(lp.iter.args[-1]) == norm(first.value) +
                    ".shape[0]") or \
            (isinstance(first, ast.Name) and
             norm(first) == norm(lp.target) and
             isinstance(lp.iter, ast.Name))      # for plane in data
        ctx.check("C10-R4", mf, "plane loop " + norm(c), plane_ok and
                  not (set(inv) & assigned),
                  "each plane data[k], k in range(shape[0]), must be masked "
                  "with the same wcs/region/negate", node=c)
        ctx.check("C10-R4", mf, "negate forwarded in plane loop",
                  "negate" in inv, "the cube branch drops the negate option",
                  node=c)
    if not found:
        raise AnalysisError("C10-R4: plane loop not found in mask_file")
    direct = [c for c in walk_no_nested(mf.node) if isinstance(c, ast.Call)
              and norm(c.func) == "mask_plane" and
              not any(c in ast.walk(l) for l in loops)]
    for c in direct:
        inv = [norm(a) for a in c.args[1:]] + \
            [norm(k.value) for k in c.keywords]
        ctx.check("C10-R4", mf, "negate forwarded in 2-d branch",
                  "negate" in inv, "the 2-d branch drops the negate option",
                  node=c)
    # ---------------------------------------------------------------- R6
    ctx.rule("C10-R6", "empty tables / position lists: the position array "
             "handed to the region test keeps two columns for zero rows")
    from .c09 import two_column_rule
    two_column_rule(ctx, "C10-R6", prog.func("regions.Region.radec2sky"))
    # ---------------------------------------------------------------- R5
    n = link.check(ctx, sorted(scope) + ["regions.Region.sky_within"],
                   rule="C10-R5", what="masking entry points")
    ctx.floor("C10-R5", n, 10, "library symbols reachable from masking")
