"""C11 -- region-restricted finding = unrestricted finding filtered by islands."""
from __future__ import annotations

import ast

from .. import link, unitrules
from ..core import AnalysisError, names_in, norm, walk_no_nested
from ..islandmodel import IslandModel

EXPLANATION = (
    "Static analysis of source_finder.find_islands (region branch) and "
    "SourceFinder.load_globals. R1: index-type abstract interpretation of the "
    "island-pixel -> sky conversion: np.where indices of the cut-out must be "
    "shifted by the offset of their own axis, ordered (column, row) and "
    "0/1-based as announced to *_pix2world; a mis-typed position is reported "
    "when it reaches Region.sky_within. R2: the pixel list is restricted to "
    "the island's own label. R3: non-interference -- values derived from "
    "`region` influence only the accept/skip guard of an island (forward "
    "taint): island pixels, masks and boxes never depend on the region. "
    "R4: region loading accepts a Region instance or an existing file, else "
    "logs an error and uses None. R5: link check of the region branch. "
    "Equality of fitted values between the two runs follows from R3 and is "
    "not separately explored.")
ASSUMPTIONS = [
    "astropy WCS.wcs_pix2world and Region.sky_within behave as contracted "
    "(C09/C10 check the latter's body)",
]


MUTANTS = [
    ("fitted components filtered by the region a second time",
     "AegeanTools/source_finder.py",
     "        # Write the output to the output file",
     "        if global_data.region is not None and len(sources) > 0:\n"
     "            within = global_data.region.sky_within(\n"
     "                [s.ra for s in sources], [s.dec for s in sources], degin=True)\n"
     "            sources = [s for s, w in zip(sources, within) if w]\n"
     "        # Write the output to the output file", "C11-R9"),
    ("region trimmed to an approximate image footprint",
     "AegeanTools/source_finder.py",
     "        self.global_data.psfhelper = self.global_data.wcshelper\n",
     "        self.global_data.psfhelper = self.global_data.wcshelper\n"
     "        if self.global_data.region is not None:\n"
     "            trimmed = copy.deepcopy(self.global_data.region)\n"
     "            self.global_data.region = trimmed\n", "C11-R4"),
    ("membership test skips level 1", "AegeanTools/regions.py",
     "        pixelset = self.get_demoted()\n"
     "        result = np.isin(pix, list(pixelset))\n",
     "        result = np.zeros(len(pix), dtype=bool)\n"
     "        for d in range(2, self.maxdepth+1):\n"
     "            result |= np.isin(pix >> 2*(self.maxdepth-d),\n"
     "                              list(self.pixeldict[d]))\n", "C11-R8"),
    ("membership look-up array kept between queries",
     "AegeanTools/regions.py",
     "        pixelset = self.get_demoted()\n"
     "        result = np.isin(pix, list(pixelset))\n",
     "        if getattr(self, '_lookup', None) is None:\n"
     "            self._lookup = np.array(sorted(self.get_demoted()))\n"
     "        result = np.isin(pix, self._lookup)\n", "C11-R7"),
    ("offset subtracted", "AegeanTools/source_finder.py",
     "                yx = list(zip(y + ymin, x + xmin))",
     "                yx = list(zip(y - ymin, x + xmin))", "C11-R1"),
    ("origin 1", "AegeanTools/source_finder.py",
     "ra, dec = wcs.wcs.wcs_pix2world(yx, 0).transpose()",
     "ra, dec = wcs.wcs.wcs_pix2world(yx, 1).transpose()", "C11-R1"),
    ("crossed offsets", "AegeanTools/source_finder.py",
     "                yx = list(zip(y + ymin, x + xmin))\n                ra, "
     "dec = wcs.wcs",
     "                yx = list(zip(y + xmin, x + ymin))\n                ra, "
     "dec = wcs.wcs", "C11-R1"),
    ("row first", "AegeanTools/source_finder.py",
     "                yx = list(zip(y + ymin, x + xmin))\n                ra, "
     "dec = wcs.wcs",
     "                yx = list(zip(x + xmin, y + ymin))\n                ra, "
     "dec = wcs.wcs", "C11-R1"),
    ("offsets dropped", "AegeanTools/source_finder.py",
     "                yx = list(zip(y + ymin, x + xmin))\n                ra, "
     "dec = wcs.wcs",
     "                yx = list(zip(y, x))\n                ra, "
     "dec = wcs.wcs", "C11-R1"),
    ("box pixels tested", "AegeanTools/source_finder.py",
     "                x, y = np.where(own)\n",
     "                x, y = np.where(snr[xmin:xmax, ymin:ymax] >= "
     "flood_clip)\n", "C11-R2"),
    ("only seed pixels tested (seed C11b)", "AegeanTools/source_finder.py",
     "                x, y = np.where(own)\n",
     "                x, y = np.where(own & (snr[xmin:xmax, ymin:ymax] > "
     "seed_clip))\n", "C11-R2"),
    ("region shapes the island", "AegeanTools/source_finder.py",
     "                if not np.any(mask):\n                    continue\n\n"
     "            # copy so that we don't blank the master data",
     "                if not np.any(mask):\n                    continue\n"
     "                own[x[~mask], y[~mask]] = False\n\n"
     "            # copy so that we don't blank the master data", "C11-R3"),
    ("all pixels must be inside", "AegeanTools/source_finder.py",
     "                if not np.any(mask):\n                    continue\n\n"
     "            # copy",
     "                if not np.all(mask):\n                    continue\n\n"
     "            # copy", "C11-R3"),
    ("region not forwarded", "AegeanTools/source_finder.py",
     "            region=global_data.region,\n            wcs=global_data."
     "psfhelper,", "            wcs=global_data.psfhelper,", "C11-R4"),
    ("region dropped when the four corners are inside (seed C11d)",
     "AegeanTools/source_finder.py",
     "    # compute SNR image\n    snr = abs(im - bkg) / rms",
     "    if region is not None:\n        ra, dec = wcs.wcs.wcs_pix2world([(0, 0), (im.shape[1] - 1, im.shape[0] - 1)], 0).transpose()\n"
     "        if np.all(region.sky_within(ra, dec, degin=True)):\n            region = None\n"
     "    # compute SNR image\n    snr = abs(im - bkg) / rms", "C11-R3"),
]
TWINS = [
    ("finite own pixels tested (implied by membership)",
     "AegeanTools/source_finder.py",
     "                x, y = np.where(own)\n",
     "                x, y = np.where(own & np.isfinite(snr[xmin:xmax, "
     "ymin:ymax]))\n"),
    ("degin via keyword order", "AegeanTools/source_finder.py",
     "                mask = region.sky_within(ra, dec, degin=True)\n"
     "                if not np.any(mask):\n                    continue\n\n"
     "            # copy",
     "                mask = region.sky_within(ra=ra, dec=dec, degin=True)\n"
     "                if not np.any(mask):\n                    continue\n\n"
     "            # copy"),
]



def run(ctx):
    prog = ctx.prog
    m = IslandModel(prog)
    fi = m.fi
    # ---------------------------------------------------------------- R1
    ctx.rule("C11-R1", "island pixel -> sky: (column, row) order, offsets of "
             "the matching axis, origin equal to the origin argument, "
             "positions in degrees with degin=True")
    unitrules.apply(ctx, "C11-R1", {"source_finder.find_islands"},
                    kinds={"sink", "call"},
                    what="pix2world / sky_within sites in find_islands",
                    floor=1)
    # ---------------------------------------------------------------- R2
    ctx.rule("C11-R2", "the pixels tested against the region are the "
             "island's own pixels")
    own = m.own_names()
    region_p = next((p for p in fi.params if p == "region"), None)
    if region_p is None:
        raise AnalysisError("C11: find_islands has no `region` parameter")
    within = [c for c in ast.walk(m.loop) if isinstance(c, ast.Call) and
              isinstance(c.func, ast.Attribute) and
              c.func.attr == "sky_within"]
    ctx.floor("C11-R2", len(within), 1, "sky_within calls in the island loop")
    for w in within:
        # backward slice of the arguments to the np.where / index source
        srcs = _sources(m.loop, w)
        ok = bool(srcs) and all(m.restricted(s, own) for s in srcs)
        ctx.check("C11-R2", fi, "pixel source of " + norm(w, 60), ok,
                  "the positions tested against the region come from %s, "
                  "which includes pixels of other islands inside the "
                  "bounding box: an island outside the region is kept "
                  "because a neighbour's pixel is inside" %
                  [norm(s, 60) for s in srcs], node=w)
        for s_ in srcs:
            extra = m.narrowing(s_)
            if extra is None:
                continue
            ctx.check("C11-R2", fi, "pixel source %s is ALL own pixels" %
                      norm(s_, 40), not extra,
                      "the positions tested against the region are only the "
                      "island pixels that also satisfy %s: an island whose "
                      "pixels inside the region all fail that condition is "
                      "dropped although one of its pixels is inside" % extra,
                      node=w)
    # ---------------------------------------------------------------- R3
    ctx.rule("C11-R3", "non-interference: region-derived values are used "
             "only in the accept/skip guard")
    tainted = {region_p}
    changed = True
    while changed:
        changed = False
        for s in ast.walk(fi.node):
            if isinstance(s, ast.Assign) and names_in(s.value) & tainted:
                for t in s.targets:
                    for nm in names_in(t):
                        if nm not in tainted and nm != region_p:
                            # values computed *for* the region test also
                            # count (ra, dec, mask)
                            tainted.add(nm)
                            changed = True
    # names used to build the test positions are inputs to the region test,
    # not outputs of it: only names downstream of sky_within matter
    down = set()
    for s in ast.walk(fi.node):
        if isinstance(s, ast.Assign) and any(
                isinstance(c, ast.Call) and isinstance(c.func, ast.Attribute)
                and c.func.attr == "sky_within" for c in ast.walk(s.value)):
            for t in s.targets:
                down |= names_in(t)
    changed = True
    while changed:
        changed = False
        for s in ast.walk(fi.node):
            if isinstance(s, ast.Assign) and names_in(s.value) & down:
                for t in s.targets:
                    for nm in names_in(t):
                        if nm not in down:
                            down.add(nm)
                            changed = True
    n = 0
    for s in ast.walk(m.loop):
        if not isinstance(s, ast.stmt) or isinstance(
                s, (ast.For, ast.While, ast.With, ast.Try)):
            continue
        used = set()
        if isinstance(s, ast.If):
            used = names_in(s.test) & (down | {region_p})
            if used:
                n += 1
                only_skip = all(isinstance(b, ast.Continue) for b in s.body) \
                    and not s.orelse
                is_none_guard = any(
                    isinstance(c, ast.Compare) and
                    isinstance(c.ops[0], (ast.Is, ast.IsNot)) and
                    norm(c.left) == region_p for c in ast.walk(s.test))
                ctx.check("C11-R3", fi, "guard " + norm(s), only_skip or
                          is_none_guard,
                          "a region-dependent condition does more than skip "
                          "the island", node=s)
                if only_skip and not is_none_guard:
                    t = norm(s.test).replace(" ", "")
                    okany = any(t == "notnp.any(%s)" % d for d in down) or \
                        any(t == "not%s.any()" % d for d in down)
                    # the same test with the membership call written inline
                    tt = s.test
                    if not okany and isinstance(tt, ast.UnaryOp) and \
                            isinstance(tt.op, ast.Not) and \
                            isinstance(tt.operand, ast.Call):
                        c_ = tt.operand
                        arg_ = None
                        if norm(c_.func) in ("np.any", "numpy.any", "any") \
                                and len(c_.args) == 1 and not c_.keywords:
                            arg_ = c_.args[0]
                        elif isinstance(c_.func, ast.Attribute) and \
                                c_.func.attr == "any" and not c_.args:
                            arg_ = c_.func.value
                        okany = isinstance(arg_, ast.Call) and \
                            isinstance(arg_.func, ast.Attribute) and \
                            arg_.func.attr == "sky_within"
                    ctx.check("C11-R3", fi, "skip iff no pixel inside: " +
                              norm(s.test), okany,
                              "an island is kept when AT LEAST ONE of its "
                              "pixels is inside the region; the skip "
                              "condition must be `not np.any(inside)`",
                              node=s)
            continue
        loads = {x.id for x in ast.walk(s) if isinstance(x, ast.Name) and
                 isinstance(x.ctx, ast.Load)}
        used = loads & down
        if used:
            n += 1
            ctx.check("C11-R3", fi, "use of region-derived %s in %s" %
                      (sorted(used), norm(s, 60)), False,
                      "a value derived from the region test flows into the "
                      "island that is returned: the restricted run is no "
                      "longer a filter of the unrestricted one", node=s)
    ctx.floor("C11-R3", n, 1, "region-dependent statements in the island "
              "loop")
    # the region itself is never dropped or replaced on the strength of a
    # partial test: the only re-binding of `region` is the documented
    # "no wcs" fallback, and every sky_within call sits in the island loop
    rebinds = [st for st in walk_no_nested(fi.node)
               if isinstance(st, ast.Assign) and any(
                   isinstance(t, ast.Name) and t.id == region_p
                   for t in st.targets)]
    pm3 = {}
    for x in ast.walk(fi.node):
        for ch in ast.iter_child_nodes(x):
            pm3[ch] = x
    for st in rebinds:
        g_ = pm3.get(st)
        okg = isinstance(g_, ast.If) and "wcs" in names_in(g_.test) and \
            not any(isinstance(c, ast.Call) for c in ast.walk(g_.test)) and \
            norm(st.value) == "None"
        ctx.check("C11-R3", fi, "re-binding " + norm(st), okg,
                  "the region is replaced under `%s`: a test of a few "
                  "positions (corners, centre) does not decide a HEALPix "
                  "pixel set, which may have holes -- islands in a hole "
                  "would be returned although they are outside the region" %
                  (norm(g_.test, 60) if isinstance(g_, ast.If) else "?"),
                  node=st)
    outside = [c for c in walk_no_nested(fi.node) if isinstance(c, ast.Call)
               and isinstance(c.func, ast.Attribute) and
               c.func.attr == "sky_within" and
               not any(c is y for y in ast.walk(m.loop))]
    ctx.check("C11-R3", fi, "membership is only asked per island",
              not outside, "region.sky_within is called outside the island "
              "loop (%s): a decision for the whole image is taken from a "
              "few positions" % [norm(c, 50) for c in outside],
              node=outside[0] if outside else fi.node)
    # ---------------------------------------------------------------- R4
    ctx.rule("C11-R4", "region loading: Region instance | existing file -> "
             "Region.load | otherwise error log and None")
    lg = prog.func("source_finder.SourceFinder.load_globals")
    stores = [s for s in walk_no_nested(lg.node) if isinstance(s, ast.Assign)
              and norm(s.targets[0]) == "self.global_data.region"]
    vals = sorted(norm(s.value) for s in stores)
    ok = "None" in vals and "mask" in vals and any(
        v.startswith("Region.load(") for v in vals)
    inst = any(isinstance(c, ast.Call) and norm(c.func) == "isinstance" and
               len(c.args) == 2 and norm(c.args[1]) == "Region"
               for c in walk_no_nested(lg.node))
    exists = any(isinstance(c, ast.Call) and
                 norm(c.func) == "os.path.exists"
                 for c in walk_no_nested(lg.node))
    ctx.check("C11-R4", lg, "region stores %s" % vals, ok and inst and exists,
              "expected: a Region object is used as is, an existing file is "
              "loaded, anything else yields None", node=stores[0] if stores
              else lg.node)
    # the region that filters the islands is the region that was given: no
    # derived / trimmed / simplified copy is stored, and the object is not
    # modified through set operations
    mask_p = "mask" if "mask" in lg.params else None
    for s_ in stores:
        v = norm(s_.value)
        okv = v == "None" or v == mask_p or v.startswith("Region.load(")
        ctx.check("C11-R4", lg, "stored region is the given one: " +
                  norm(s_, 60), okv,
                  "load_globals stores `%s` as the region: a region derived "
                  "from the user's (trimmed to the image footprint, "
                  "simplified, re-sampled) is only approximately the same "
                  "set, so islands near the approximation error are "
                  "filtered differently" % v, node=s_)
    mut = [c for c in walk_no_nested(lg.node) if isinstance(c, ast.Call)
           and isinstance(c.func, ast.Attribute)
           and c.func.attr in ("intersect", "without", "union",
                               "symmetric_difference", "add_pixels",
                               "add_circles", "add_poly")
           and norm(c.func.value).endswith("global_data.region")]
    ctx.check("C11-R4", lg, "the given region is not modified", not mut,
              "`%s` changes the user's region in place" %
              (norm(mut[0], 60) if mut else ""),
              node=mut[0] if mut else lg.node)
    # the region reaches find_islands
    fs = prog.func("source_finder.SourceFinder.find_sources_in_image")
    calls = [c for c in walk_no_nested(fs.node) if isinstance(c, ast.Call)
             and norm(c.func) == "find_islands"]
    okc = bool(calls) and all(any(k.arg == "region" and
                                  norm(k.value).endswith(".region")
                                  for k in c.keywords) and
                              any(k.arg == "wcs" for k in c.keywords)
                              for c in calls)
    ctx.check("C11-R4", fs, "region and wcs passed to find_islands", okc,
              "find_sources_in_image must hand global_data.region and a wcs "
              "helper to find_islands", node=calls[0] if calls else fs.node)
    # ---------------------------------------------------------------- R9
    ctx.rule("C11-R9", "the region selects ISLANDS and nothing else: in "
             "source_finder the membership test (sky_within) is asked only "
             "by the island finders, about island pixels -- no function "
             "downstream of the fit consults the region again (a second "
             "filter on fitted positions drops components of a straddling "
             "island whose peak lies outside)")
    ALLOWED9 = {"find_islands", "_gen_flood_wrap"}
    # a private helper that only the island finders call belongs to them
    rawp9 = ctx.raw_prog()
    changed9 = True
    while changed9:
        changed9 = False
        for q_, f_ in rawp9.functions.items():
            if not f_.module.endswith("source_finder") or \
                    f_.name in ALLOWED9 or not f_.name.startswith("_"):
                continue
            callers = {g_.name for g_ in rawp9.functions.values()
                       if g_.module == f_.module and g_ is not f_ and any(
                           isinstance(c, ast.Call) and
                           norm(c.func).split(".")[-1] == f_.name
                           for c in ast.walk(g_.node))}
            if callers and callers <= ALLOWED9:
                ALLOWED9.add(f_.name)
                changed9 = True
    n9 = 0
    for q_, f_ in sorted(prog.functions.items()):
        if not f_.module.endswith("source_finder"):
            continue
        uses = [c for c in walk_no_nested(f_.node) if isinstance(c, ast.Call)
                and isinstance(c.func, ast.Attribute) and
                c.func.attr == "sky_within"]
        n9 += 1
        ctx.check("C11-R9", f_, "membership asked only by the island "
                  "finders: %s (%d call(s))" % (f_.short, len(uses)),
                  not uses or f_.name in ALLOWED9,
                  "%s asks the region about positions of its own (%s): the "
                  "restricted run is no longer the unrestricted run filtered "
                  "by island membership" %
                  (f_.short, norm(uses[0], 60) if uses else ""),
                  node=uses[0] if uses else f_.node)
    ctx.floor("C11-R9", n9, 12, "functions of source_finder")
    # ---------------------------------------------------------------- R6
    ctx.rule("C11-R6", "the membership answer the island filter relies on "
             "sees every stored level of the region (1..maxdepth-1 are "
             "flattened into the deepest one) -- shared with C08-R4 / C09-R5")
    from ..regionmodel import region_methods
    from .c08 import demotion_levels, r12_derived
    demotion_levels(ctx, region_methods(prog), "C11-R6")
    r12_derived(ctx, region_methods(prog), "C11-R7")
    from .c09 import membership_for
    membership_for(ctx, prog, region_methods(prog), "C11-R8")
    # ---------------------------------------------------------------- R5
    nl = link.check(ctx, ["source_finder.find_islands",
                          "regions.Region.sky_within", "regions.Region.load"],
                    rule="C11-R5", what="region branch of find_islands")
    ctx.floor("C11-R5", nl, 10, "library symbols in the region branch")


def _sources(loop, call):
    """np.where(...) arguments that the arguments of `call` depend on"""
    names = set()
    for a in list(call.args) + [k.value for k in call.keywords
                                if k.arg in ("ra", "dec")]:
        names |= names_in(a)
    seen = set()
    out = []
    work = list(names)
    while work:
        nm = work.pop()
        if nm in seen:
            continue
        seen.add(nm)
        for s in ast.walk(loop):
            if isinstance(s, ast.Assign) and any(
                    nm in names_in(t) for t in s.targets):
                for c in ast.walk(s.value):
                    if isinstance(c, ast.Call) and norm(c.func) in (
                            "np.where", "numpy.where", "np.nonzero",
                            "np.argwhere") and c.args:
                        out.append(c.args[0])
                work.extend(names_in(s.value))
    return out
