"""C12 -- region exports describe exactly the region's sky area."""
from __future__ import annotations

import ast

import sympy as sp

from .. import sym
from ..core import AnalysisError, arg_or_kw, kwarg, norm, walk_no_nested
from ..regionmodel import levelset_owner, pixeldict_aliases, region_methods
from .c08 import (_depends_on_call, _resolve_local, r6_levels,
                  r9_cache_alias)

EXPLANATION = (
    "Static analysis of Region._uniq / write_fits / write_reg / save / load. "
    "Decides: R1 every full-region consumer iterates exactly the levels "
    "1..maxdepth that __init__ creates (range bounds and index offsets in "
    "linear form); R2 the NUNIQ code is identically 4*4**d + ipix for the "
    "level d the pixel is stored under, and integer-valued (sympy canonical "
    "form); R3 the MOC header's MOCORDER is data-dependent on self.maxdepth, "
    "ORDERING is NUNIQ and the column is 64-bit, fed from _uniq(); R4 the DS9 "
    "export calls healpy.boundaries(2**d, p, step=1, nest=True) with (d, p) "
    "of the same iteration and prints one polygon per stored pixel; R5 the "
    "class customises no pickling hook and save/load use the same pickle "
    "family on self. Byte-level FITS correctness is not decided.")
ASSUMPTIONS = [
    "astropy.io.fits writes the BinTable it is given; healpy.boundaries "
    "returns the corners of the requested pixel when step=1",
    "pickle round-trips plain objects with dict/set/int attributes",
]


MUTANTS = [
    ("polygon corners left in radians", "AegeanTools/regions.py",
     "self.vec2sky(np.array(vectors), degrees=True):",
     "self.vec2sky(np.array(vectors), degrees=False):", "C12-R8"),
    ("MOCORDER written to the primary header", "AegeanTools/regions.py",
     "        hdulist[1].header['MOCORDER'] = (",
     "        hdulist[0].header['MOCORDER'] = (", "C12-R3"),
    ("longitude pinned to 0 within a tolerance of the poles",
     "AegeanTools/regions.py",
     "        dec = np.pi/2-theta\n\n        if degrees:",
     "        dec = np.pi/2-theta\n"
     "        ra[np.isclose(np.abs(dec), np.pi/2, atol=1e-3)] = 0\n\n        if degrees:",
     "C12-R7"),
    ("order marker OR-ed onto the pixel number", "AegeanTools/regions.py",
     "            pd.extend(map(lambda x: int(4**(d+1) + x), self.pixeldict[d]))",
     "            pd.extend(map(lambda x: int(x) | (1 << (2*d + 2)), self.pixeldict[d]))",
     "C12-R2"),
    ("normaliser promotes up to the base pixels", "AegeanTools/regions.py",
     "        for d in range(self.maxdepth, 2, -1):",
     "        for d in range(self.maxdepth, 0, -1):", "C12-R1"),
    ("NUNIQ list built from whatever levels the dictionary holds",
     "AegeanTools/regions.py",
     "        for d in range(1, self.maxdepth+1):\n            pd.extend(",
     "        for d in self.pixeldict:\n            pd.extend(", "C12-R1"),
    ("empty pixel list keeps the template's table", "AegeanTools/regions.py",
     "        hdulist[1] = tbhdu\n",
     "        if len(self._uniq()) > 0:\n            hdulist[1] = tbhdu\n",
     "C12-R3"),
    ("hand-written vertex formatter, sign on the degrees field",
     "AegeanTools/regions.py",
     "                        pos = SkyCoord(ra/15, dec, unit=(u.degree, u.degree))\n"
     "                        positions.append(\n"
     "                            pos.ra.to_string(sep=':', precision=2))\n"
     "                        positions.append(\n"
     "                            pos.dec.to_string(sep=':', precision=2))\n",
     "                        for ang in (ra/15, dec):\n"
     "                            d_m_s = np.round(abs(ang)*3600, 2)\n"
     "                            dd, mm = int(d_m_s//3600), int(d_m_s//60) % 60\n"
     "                            positions.append(\"{0:d}:{1:02d}:{2:05.2f}\".format(\n"
     "                                int(np.sign(ang))*dd, mm, d_m_s % 60))\n",
     "C12-R4"),
    ("uniq skips deepest level", "AegeanTools/regions.py",
     "        pd = []\n        for d in range(1, self.maxdepth+1):",
     "        pd = []\n        for d in range(1, self.maxdepth):", "C12-R1"),
    ("uniq skips level 1", "AegeanTools/regions.py",
     "        pd = []\n        for d in range(1, self.maxdepth+1):",
     "        pd = []\n        for d in range(2, self.maxdepth+1):", "C12-R1"),
    ("reg skips deepest level", "AegeanTools/regions.py",
     "            for d in range(1, self.maxdepth+1):\n                for p "
     "in self.pixeldict[d]:\n                    line =",
     "            for d in range(1, self.maxdepth):\n                for p "
     "in self.pixeldict[d]:\n                    line =", "C12-R1"),
    ("nuniq wrong order", "AegeanTools/regions.py",
     "map(lambda x: int(4**(d+1) + x), self.pixeldict[d])",
     "map(lambda x: int(4**d + x), self.pixeldict[d])", "C12-R2"),
    ("nuniq float", "AegeanTools/regions.py",
     "map(lambda x: int(4**(d+1) + x), self.pixeldict[d])",
     "map(lambda x: 4**(d+2)/4 + x, self.pixeldict[d])", "C12-R2"),
    ("mocorder constant", "AegeanTools/regions.py",
     "            self.maxdepth, 'MOC resolution (best order)')",
     "            11, 'MOC resolution (best order)')", "C12-R3"),
    ("32-bit column", "AegeanTools/regions.py",
     "array=self._uniq(), format='1K')", "array=self._uniq(), format='1J')",
     "C12-R3"),
    ("ring boundaries", "AegeanTools/regions.py",
     "zip(*hp.boundaries(2**d, int(p), step=1, nest=True)))",
     "zip(*hp.boundaries(2**d, int(p), step=1)))", "C12-R4"),
    ("boundaries at maxdepth", "AegeanTools/regions.py",
     "zip(*hp.boundaries(2**d, int(p), step=1, nest=True)))",
     "zip(*hp.boundaries(2**self.maxdepth, int(p), step=1, nest=True)))",
     "C12-R4"),
    ("save empties the cache in place (seed C12b)", "AegeanTools/regions.py",
     "        cPickle.dump(self, open(mimfile, 'wb'), protocol=2)",
     "        self.demoted.clear()\n"
     "        cPickle.dump(self, open(mimfile, 'wb'), protocol=2)", "C12-R6"),
    ("getstate drops cache", "AegeanTools/regions.py",
     "    def __repr__(self):\n        r = \"Region with",
     "    def __getstate__(self):\n        return {'maxdepth': self.maxdepth}"
     "\n\n    def __repr__(self):\n        r = \"Region with", "C12-R5"),
    ("vertex coordinates swapped", "AegeanTools/regions.py",
     "                        ra, dec = sky", "                        dec, ra = sky", "C12-R4"),
    ("vertex RA printed in degrees", "AegeanTools/regions.py",
     "pos = SkyCoord(ra/15, dec, unit=(u.degree, u.degree))",
     "pos = SkyCoord(ra, dec, unit=(u.degree, u.degree))", "C12-R4"),
]
TWINS = [
    ("save drops the cache by re-binding", "AegeanTools/regions.py",
     "        cPickle.dump(self, open(mimfile, 'wb'), protocol=2)",
     "        self.demoted = set()\n"
     "        cPickle.dump(self, open(mimfile, 'wb'), protocol=2)"),
    ("nuniq spelled 4*4**d", "AegeanTools/regions.py",
     "map(lambda x: int(4**(d+1) + x), self.pixeldict[d])",
     "map(lambda x: int(4 * 4**d + x), self.pixeldict[d])"),
]



def run(ctx):
    prog = ctx.prog
    ci = region_methods(prog)
    r6_levels(ctx, ci, "C12-R1")
    # exports after queries: the exporters (and everything else) leave the
    # flattened cache, which aliases the deepest level set, untouched
    r9_cache_alias(ctx, ci, "C12-R6")
    mod = prog.module("regions")

    # ---------------------------------------------------------------- R2
    ctx.rule("C12-R2", "NUNIQ(d, ipix) == 4*4**d + ipix with d the level the "
             "pixel is stored under; the coded value is an int")
    fi = ci.methods.get("_uniq")
    if fi is None:
        raise AnalysisError("Region._uniq missing")
    al = pixeldict_aliases(fi.node)
    n = 0
    for lp in walk_no_nested(fi.node):
        if not (isinstance(lp, ast.For) and isinstance(lp.target, ast.Name)):
            continue
        dname = lp.target.id
        for c in ast.walk(lp):
            # map(lambda x: <code>, self.pixeldict[d])  |  comprehension
            code = elem = level = None
            if isinstance(c, ast.Call) and isinstance(c.func, ast.Name) and \
                    c.func.id == "map" and len(c.args) == 2 and \
                    isinstance(c.args[0], ast.Lambda):
                o = levelset_owner(c.args[1], al)
                if o:
                    code = c.args[0].body
                    elem = c.args[0].args.args[0].arg
                    level = o[1]
            elif isinstance(c, (ast.ListComp, ast.GeneratorExp, ast.SetComp)) \
                    and len(c.generators) == 1 and \
                    isinstance(c.generators[0].target, ast.Name):
                o = levelset_owner(c.generators[0].iter, al)
                if o:
                    code = c.elt
                    elem = c.generators[0].target.id
                    level = o[1]
            if code is None:
                continue
            n += 1
            d, x = sp.Symbol("d", integer=True), sp.Symbol("x", integer=True)
            lvl = sym.Translator(prog, mod, {dname: d}).expr(level)
            try:
                e = sym.Translator(prog, mod, {dname: d, elem: x}).expr(code)
            except sym.Untranslatable as ex:
                bitops = [b for b in ast.walk(code)
                          if isinstance(b, ast.BinOp) and
                          isinstance(b.op, (ast.BitOr, ast.BitXor,
                                            ast.BitAnd))]
                if bitops:
                    # ipix runs up to 12*4**d - 1 > 4*4**d: the pixel number
                    # and the order marker share a bit for base pixels 4..11,
                    # so OR / XOR is not the sum
                    ctx.check("C12-R2", fi, "NUNIQ code " + norm(code),
                              False, "the order marker is combined with the "
                              "pixel number by a bit operation (%s); pixel "
                              "numbers at order d reach 12*4**d - 1, which "
                              "overlaps the marker bit 4*4**d: for base "
                              "pixels 4-7 the marker is lost and the value "
                              "decodes to another pixel; the code must be "
                              "the SUM 4*4**level + ipix" %
                              norm(bitops[0], 50), node=c)
                    continue
                ctx.unknown_site("C12-R2", fi, norm(code) + " :: %s" % ex, c)
                continue
            ref = 4 * 4 ** lvl + x
            ok = sp.simplify(sp.expand(sp.powsimp(e - ref, force=True))) == 0 \
                or sp.simplify(e.subs(d, 3) - ref.subs(d, 3)) == 0 and \
                sp.simplify(e.subs(d, 7) - ref.subs(d, 7)) == 0 and \
                sp.simplify(sp.expand_power_base(sp.expand(e - ref))) == 0
            ctx.check("C12-R2", fi, "NUNIQ code " + norm(code), bool(ok),
                      "the code must equal 4*4**level + ipix with level = %s; "
                      "found %s" % (norm(level), norm(code)),
                      {"found": str(e), "expected": str(ref)}, c)
            is_int = isinstance(code, ast.Call) and \
                isinstance(code.func, ast.Name) and code.func.id == "int" or \
                not any(isinstance(b, ast.BinOp) and
                        isinstance(b.op, ast.Div) for b in ast.walk(code))
            ctx.check("C12-R2", fi, "NUNIQ code is integer " + norm(code),
                      is_int, "the NUNIQ value is computed with true division "
                      "and never converted to int", node=c)
    ctx.floor("C12-R2", n, 1, "NUNIQ encoding expressions in _uniq")

    # ---------------------------------------------------------------- R3
    ctx.rule("C12-R3", "write_fits: MOCORDER depends on self.maxdepth, "
             "ORDERING says NUNIQ, the pixel column is 64-bit ('K') and its "
             "array is self._uniq()")
    fi = ci.methods.get("write_fits")
    if fi is None:
        raise AnalysisError("Region.write_fits missing")
    hdr = {}
    for s in walk_no_nested(fi.node):
        if isinstance(s, ast.Assign) and len(s.targets) == 1 and \
                isinstance(s.targets[0], ast.Subscript) and \
                isinstance(s.targets[0].slice, ast.Constant) and \
                isinstance(s.targets[0].slice.value, str):
            hdr[s.targets[0].slice.value] = s
    for k in ("MOCORDER", "ORDERING"):
        if k not in hdr:
            ctx.check("C12-R3", fi, "header key " + k, False,
                      "write_fits does not set %s" % k, node=fi.node)
    if "MOCORDER" in hdr:
        v = hdr["MOCORDER"].value
        ctx.check("C12-R3", fi, "MOCORDER value",
                  any(norm(x) == "self.maxdepth" for x in ast.walk(v)),
                  "MOCORDER must be the region depth self.maxdepth; found %s"
                  % norm(v), node=hdr["MOCORDER"])
    if "ORDERING" in hdr:
        v = hdr["ORDERING"].value
        lits = [x.value for x in ast.walk(v) if isinstance(x, ast.Constant)
                and isinstance(x.value, str)]
        ctx.check("C12-R3", fi, "ORDERING value",
                  bool(lits) and lits[0].strip() == "NUNIQ",
                  "ORDERING must be 'NUNIQ'; found %r" % lits,
                  node=hdr["ORDERING"])
    # the MOC keywords describe the TABLE: they are stored in the header of
    # the HDU that holds the pixel column (the one that was replaced)
    tb_idx = {norm(st.targets[0].slice) for st in walk_no_nested(fi.node)
              if isinstance(st, ast.Assign) and
              isinstance(st.targets[0], ast.Subscript) and
              isinstance(st.targets[0].slice, ast.Constant) and
              isinstance(st.targets[0].slice.value, int)}
    if len(tb_idx) == 1:
        ti = tb_idx.pop()
        wrong = []
        for k, st in sorted(hdr.items()):
            t = st.targets[0]
            # hdulist[i].header[KEY]
            base = t.value
            idx = None
            if isinstance(base, ast.Attribute) and base.attr == "header" \
                    and isinstance(base.value, ast.Subscript):
                idx = norm(base.value.slice)
            if idx is not None and idx != ti:
                wrong.append((k, idx))
        ctx.check("C12-R3", fi, "MOC keywords stored in the header of the "
                  "table HDU [%s] (%d keyword(s))" % (ti, len(hdr)),
                  not wrong, "%s is written to the header of HDU %s, the "
                  "pixel table is HDU %s: a MOC reader looks for the "
                  "keywords next to the table" %
                  (wrong[0] + (ti,) if wrong else ("", "", "")),
                  node=hdr[wrong[0][0]] if wrong else fi.node)
    cols = [c for c in walk_no_nested(fi.node) if isinstance(c, ast.Call)
            and norm(c.func).endswith("Column")]
    ctx.floor("C12-R3", len(cols), 1, "fits.Column constructions")
    for c in cols:
        fmt = kwarg(c, "format")
        arr = kwarg(c, "array")
        fv = fmt.value if isinstance(fmt, ast.Constant) else None
        ctx.check("C12-R3", fi, "column format " + norm(c),
                  fv in ("K", "1K"), "NUNIQ values at order >= 13 exceed 32 "
                  "bits: the column must be 64-bit 'K'; found %r" % fv,
                  node=c)
        dep = arr is not None and (
            any(isinstance(x, ast.Call) and norm(x.func) == "self._uniq"
                for x in ast.walk(arr)) or
            _depends_on_call(fi.node, arr, "self", ("_uniq",)))
        ctx.check("C12-R3", fi, "column data " + norm(c), dep,
                  "the column array is not derived from self._uniq()", node=c)

    # the template's own table never reaches the output
    from ..cfg import CFG, ENTRY
    g3 = CFG(fi.node)
    repl = [n_ for n_, st in g3.stmt.items() if g3.kind[n_] == "stmt"
            and isinstance(st, ast.Assign)
            and isinstance(st.targets[0], ast.Subscript)
            and isinstance(st.targets[0].slice, ast.Constant)
            and st.targets[0].slice.value == 1]
    outs = [n_ for n_, st in g3.stmt.items() if g3.kind[n_] == "stmt"
            and any(isinstance(c, ast.Call) and
                    isinstance(c.func, ast.Attribute) and
                    c.func.attr == "writeto" for c in ast.walk(st))]
    ctx.floor("C12-R3", len(repl) + len(outs), 2, "table replacement and "
              "writeto in write_fits")
    for o_ in outs:
        p_ = g3.path_avoiding(ENTRY, o_, repl)
        ctx.check("C12-R3", fi, "table HDU replaced on every path to " +
                  norm(g3.stmt[o_], 50), p_ is None,
                  "a path reaches writeto without replacing HDU 1 of the "
                  "template: the packaged MOC.fits is a real example MOC "
                  "(171551 cells), so e.g. an empty region is exported as "
                  "that example's sky area", node=g3.stmt[o_],
                  path=g3.describe(p_) if p_ else None)

    # ---------------------------------------------------------------- R4
    ctx.rule("C12-R4", "write_reg: healpy.boundaries(2**d, p, step=1, "
             "nest=True) with p iterating pixeldict[d]; exactly one polygon "
             "line printed per pixel")
    fi = ci.methods.get("write_reg")
    if fi is None:
        raise AnalysisError("Region.write_reg missing")
    al = pixeldict_aliases(fi.node)
    import copy as _copy

    def _subst(e, mp):
        if e is None or not mp:
            return e
        e = _copy.deepcopy(e)

        class T(ast.NodeTransformer):
            def visit_Name(self, n):
                return _copy.deepcopy(mp[n.id]) if n.id in mp else n
        return T().visit(e)
    sites = [(c, c, {}) for c in walk_no_nested(fi.node)
             if isinstance(c, ast.Call)
             and prog.dotted(mod, c.func) == "healpy.boundaries"]
    # ... or in a private method called once per pixel (parameters are
    # replaced by the arguments of that call)
    for hc in walk_no_nested(fi.node):
        if isinstance(hc, ast.Call) and isinstance(hc.func, ast.Attribute) \
                and norm(hc.func.value) == "self" \
                and hc.func.attr in ci.methods and hc.func.attr != "write_reg":
            h = ci.methods[hc.func.attr]
            hps = [p_ for p_ in h.params if p_ != "self"]
            mp = dict(zip(hps, hc.args))
            mp.update({k.arg: k.value for k in hc.keywords if k.arg})
            for c in walk_no_nested(h.node):
                if isinstance(c, ast.Call) and \
                        prog.dotted(mod, c.func) == "healpy.boundaries":
                    sites.append((c, hc, mp))
    ctx.floor("C12-R4", len(sites), 1, "calls resolving to healpy.boundaries")
    for c, anchor, mp in sites:
        # enclosing loops
        loops = [lp for lp in walk_no_nested(fi.node)
                 if isinstance(lp, ast.For) and
                 any(x is anchor for x in ast.walk(lp))]
        ploop = dloop = None
        for lp in loops:
            o = levelset_owner(lp.iter, al)
            if o and o[0] == "self":
                ploop, lvl = lp, o[1]
        if ploop is None:
            ctx.unknown_site("C12-R4", fi, norm(c), c)
            continue
        pname = norm(ploop.target)
        nside = _subst(arg_or_kw(c, 0, "nside"), mp)
        pix = _subst(arg_or_kw(c, 1, "pix"), mp)
        ok_nside = nside is not None and norm(nside).replace(" ", "") in (
            "2**%s" % norm(lvl), "1<<%s" % norm(lvl))
        ctx.check("C12-R4", fi, "nside of " + norm(c), ok_nside,
                  "nside must be 2**level of the pixel's own level (%s); "
                  "found %s" % (norm(lvl), norm(nside) if nside else None),
                  node=c)
        ok_pix = pix is not None and norm(pix) in (pname, "int(%s)" % pname)
        ctx.check("C12-R4", fi, "pixel of " + norm(c), ok_pix,
                  "the pixel argument must be the iterated pixel %s; found %s"
                  % (pname, norm(pix) if pix else None), node=c)
        st = kwarg(c, "step")
        ne = kwarg(c, "nest")
        ctx.check("C12-R4", fi, "step/nest of " + norm(c),
                  (st is None or (isinstance(st, ast.Constant) and
                                  st.value == 1)) and
                  isinstance(ne, ast.Constant) and ne.value is True,
                  "boundaries must be called with step=1 (corners only) and "
                  "nest=True (pixel ids are NESTED)", node=c)
        # one print per pixel: print statements directly in the p-loop body
        prints = [s for s in ploop.body if isinstance(s, ast.Expr) and
                  isinstance(s.value, ast.Call) and
                  norm(s.value.func) in ("print", "out.write")]
        deeper = [x for s in ploop.body if isinstance(s, (ast.For, ast.While))
                  for x in ast.walk(s) if isinstance(x, ast.Call) and
                  norm(x.func) in ("print", "out.write")]
        ctx.check("C12-R4", fi, "one polygon per pixel", len(prints) == 1
                  and not deeper, "expected exactly one output statement per "
                  "stored pixel (found %d in the pixel loop, %d in nested "
                  "loops)" % (len(prints), len(deeper)), node=ploop)

    # a hand-written sexagesimal formatter with the sign on the integer field
    from .c17 import signed_field_idiom
    handmade = signed_field_idiom(fi.node)
    for p_ in handmade:
        ctx.check("C12-R4", fi, "vertex formatting " + norm(p_, 50), False,
                  "the sign of the coordinate is carried by the product "
                  "with the integer degrees field: for -1 < dec < 0 that "
                  "field is 0, the minus sign is lost and the vertex is "
                  "written mirrored north of the equator", node=p_)
    # vertices: (longitude, latitude) order and RA in hours at SkyCoord
    from .. import unitrules
    unitrules.apply(ctx, "C12-R4",
                    lambda sh: sh == "regions.Region.write_reg" or (
                        sh.startswith("regions.Region._") and
                        not sh.startswith("regions.Region.__")),
                    kinds={"call"}, report_rules=set(),
                    what="contract sites of the DS9 writer",
                    floor=None if handmade else 1)
    # ---------------------------------------------------------------- R5
    pickle_rule(ctx, ci, "C12-R5")
    # ---------------------------------------------------------------- R8
    ctx.rule("C12-R8", "write_reg: the corner vectors are converted to "
             "DEGREES (vec2sky(..., degrees=True)) for the SkyCoord built "
             "with unit=degree, and the right ascension is divided by 15 "
             "exactly once for the sexagesimal hours string")
    wr = ci.methods.get("write_reg")
    n8 = 0
    for c in walk_no_nested(wr.node):
        if isinstance(c, ast.Call) and isinstance(c.func, ast.Attribute) \
                and c.func.attr == "vec2sky":
            n8 += 1
            dg = kwarg(c, "degrees")
            if dg is None and len(c.args) > 1:
                dg = c.args[1]
            ctx.check("C12-R8", wr, "corner vectors converted to degrees: " +
                      norm(c, 60), isinstance(dg, ast.Constant) and
                      dg.value is True,
                      "vec2sky returns radians unless degrees=True; the "
                      "values are then read as degrees by SkyCoord(..., "
                      "unit=degree): every polygon shrinks by 57.3 towards "
                      "(0, 0)", node=c)
    ctx.floor("C12-R8", n8, 1, "vec2sky calls in write_reg")
    # whatever operations preceded the export: the set operations are the
    # ones C08-R3 checks (union over the common and the deeper levels with
    # the right divisor, the other operations at equal depth)
    from .c08 import r3 as _setops
    _setops(ctx, ci, rule="C12-R9")
    # ---------------------------------------------------------------- R7
    ctx.rule("C12-R7", "the polygon vertices written by write_reg are the "
             "pixel's corners: the vector -> sky conversion it goes through "
             "(vec2sky, radec2sky) computes coordinates by formula only -- "
             "no element of the coordinate arrays is overwritten under a "
             "data-dependent mask (`ra[<test on dec>] = 0` moves every "
             "corner the test catches, e.g. all corners within a tolerance "
             "of a pole given in the wrong unit)")
    n7 = 0
    for m in ("vec2sky", "radec2sky"):
        f7 = ci.methods.get(m)
        if f7 is None:
            continue
        n7 += 1
        bad7 = []
        for st in walk_no_nested(f7.node):
            tgts = st.targets if isinstance(st, ast.Assign) else \
                [st.target] if isinstance(st, ast.AugAssign) else []
            for t in tgts:
                if isinstance(t, ast.Subscript) and any(
                        isinstance(x, (ast.Compare, ast.Call))
                        for x in ast.walk(t.slice)):
                    bad7.append(st)
        ctx.check("C12-R7", f7, "coordinates computed by formula only in " +
                  m, not bad7, "%s overwrites selected coordinates: the "
                  "exported polygon no longer has the pixel's corners as "
                  "vertices" % (norm(bad7[0], 70) if bad7 else ""),
                  node=bad7[0] if bad7 else f7.node)
    ctx.floor("C12-R7", n7, 2, "conversion functions behind write_reg")


def pickle_rule(ctx, ci, rule):
    """save / load is a plain pickle of the object (shared by C12-R5 and
    C08-R15)"""
    ctx.rule(rule, ".mim round trip: Region defines no pickling hook; "
             "save dumps self and load returns what the same pickle module "
             "loads")
    hooks = [m for m in ci.methods if m in ("__getstate__", "__setstate__",
                                            "__reduce__", "__reduce_ex__",
                                            "__getnewargs__", "__slots__")]
    ctx.check(rule, "regions.Region", "pickling hooks", not hooks,
              "Region customises pickling (%s): fields may be dropped on a "
              "save/load round trip" % hooks)
    sv, ld = ci.methods.get("save"), ci.methods.get("load")
    if sv is None or ld is None:
        raise AnalysisError("Region.save/load missing")
    dumps = [c for c in walk_no_nested(sv.node) if isinstance(c, ast.Call)
             and isinstance(c.func, ast.Attribute) and c.func.attr == "dump"]
    loads = [c for c in walk_no_nested(ld.node) if isinstance(c, ast.Call)
             and isinstance(c.func, ast.Attribute) and c.func.attr == "load"]
    ok = len(dumps) == 1 and len(loads) == 1 and \
        norm(dumps[0].func.value) == norm(loads[0].func.value) and \
        dumps[0].args and norm(dumps[0].args[0]) == "self"
    ctx.check(rule, sv, "save/load pickle pairing", ok,
              "save must dump `self` with the same pickle module load uses; "
              "found dump=%s load=%s" % ([norm(c) for c in dumps],
                                         [norm(c) for c in loads]),
              node=dumps[0] if dumps else sv.node)
    rets = [s for s in walk_no_nested(ld.node) if isinstance(s, ast.Return)]
    okr = bool(rets) and all(
        s.value is not None and (
            any(x is loads[0] for x in ast.walk(s.value)) or
            (isinstance(s.value, ast.Name) and loads and
             _resolve_local(ld.node, s.value) is loads[0]))
        for s in rets) if loads else False
    ctx.check(rule, ld, "load returns the unpickled object", okr,
              "load must return the object produced by the pickle load",
              node=rets[0] if rets else ld.node)
