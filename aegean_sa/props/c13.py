"""C13 -- sign symmetry and polarity filters of the source finder."""
from __future__ import annotations

import ast

import sympy as sp

from .. import sym
from ..core import AnalysisError, names_in, norm, walk_no_nested

EXPLANATION = (
    "Static analysis of the blind driver and the initial-model builder. R1: "
    "the polarity filter is tabulated over sign(peak_flux) in {-,0,+} x "
    "(nopositive, nonegative) and compared with 'dropped iff (positive and "
    "nopositive) or (negative and nonegative)'; hence the positive-only and "
    "negative-only outputs are disjoint and their union is the "
    "both-polarities output. R2 (non-interference): nopositive / nonegative "
    "are read only by that filter, so fitted values are identical across the "
    "three runs. R3 (mirror branches): in the model builder the `isnegative` "
    "branch equals the positive branch under data -> -data: nanmin<->nanmax, "
    "argmin<->argmax, the curvature / clip conditions mirrored, and the "
    "amplitude bounds satisfy (min, max)_neg(amp) == (-max, -min)_pos(-amp) "
    "(sympy, with max(a,b) = -min(-a,-b)). R4: every sign-agnostic use of "
    "the pixel data outside those branches (island detection, summit "
    "ordering, summit signal-to-noise) goes through abs(). Optimiser "
    "symmetry and islands containing both signs are not decided (the "
    "isnegative test itself is not symmetric for mixed-sign islands -- "
    "documented limit).")
ASSUMPTIONS = ["lmfit's optimiser is symmetric under a global sign flip of "
               "data, amplitudes and amplitude bounds"]

MUTANTS = [
    ("blank pixels filled with -inf before both curvature filters",
     "AegeanTools/source_finder.py",
     "            peaks = maximum_filter(self.global_data.img, size=3)\n"
     "            troughs = minimum_filter(self.global_data.img, size=3)",
     "            peaks = maximum_filter(np.nan_to_num(self.global_data.img, nan=-np.inf), size=3)\n"
     "            troughs = minimum_filter(np.nan_to_num(self.global_data.img, nan=-np.inf), size=3)",
     "C13-R10"),
    ("polarity filter tests the integrated flux",
     "AegeanTools/source_finder.py",
     "                    if (src.peak_flux > 0 and nopositive) or (\n"
     "                        src.peak_flux < 0 and nonegative\n",
     "                    if (src.int_flux > 0 and nopositive) or (\n"
     "                        src.int_flux < 0 and nonegative\n", "C13-R1"),
    ("image loader memoised by path", "AegeanTools/fits_tools.py",
     "def load_image_band(filename,",
     "@lru_cache(maxsize=8)\ndef load_image_band(filename,", "C13-R9"),
    ("island peak pixel located with nanargmax", "AegeanTools/source_finder.py",
     "                positions = np.where(kappa_sigma == source.peak_flux)",
     "                positions = np.unravel_index(\n"
     "                    [np.nanargmax(kappa_sigma)], kappa_sigma.shape)",
     "C13-R8"),
    ("fractional error terms selected by the sign of the ratio",
     "AegeanTools/fitting.py",
     "              source.peak_flux) ** 2 if source.err_peak_flux > 0 else 0",
     "              source.peak_flux) ** 2 if source.err_peak_flux / "
     "source.peak_flux > 0 else 0", "C13-R7"),
    ("background subtracted only when it has positive pixels",
     "AegeanTools/source_finder.py",
     "        img -= self.global_data.bkgimg\n",
     "        if np.any(self.global_data.bkgimg > 0):\n"
     "            img -= self.global_data.bkgimg\n", "C13-R6"),
    ("filter uses >=", "AegeanTools/source_finder.py",
     "if (src.peak_flux > 0 and nopositive) or (",
     "if (src.peak_flux >= 0 and nopositive) or (", "C13-R1"),
    ("filter swapped", "AegeanTools/source_finder.py",
     "                        src.peak_flux < 0 and nonegative\n",
     "                        src.peak_flux < 0 and nopositive\n", "C13-R1"),
    ("flag leaks into clip", "AegeanTools/source_finder.py",
     "        if outerclip > innerclip:\n            outerclip = innerclip\n"
     "        self.log.info(\"seedclip={0}\".format(innerclip))",
     "        if outerclip > innerclip or nonegative:\n            outerclip "
     "= innerclip\n        self.log.info(\"seedclip={0}\".format(innerclip))",
     "C13-R2"),
    ("summit order by signed max", "AegeanTools/source_finder.py",
     "summits, key=lambda x: np.nanmax(-1.0 * abs(x[0]))",
     "summits, key=lambda x: -1.0 * np.nanmax(x[0])", "C13-R4"),
    ("negative branch uses nanmax", "AegeanTools/source_finder.py",
     "                    amp = np.nanmin(summit)\n",
     "                    amp = np.nanmax(summit)\n", "C13-R3"),
    ("asymmetric amplitude bound", "AegeanTools/source_finder.py",
     "                    amp * 1.05 - innerclip * rmsimg[xo, yo],",
     "                    amp * 1.05 - outerclip * rmsimg[xo, yo],",
     "C13-R3"),
    ("detection without abs", "AegeanTools/source_finder.py",
     "    snr = abs(im - bkg) / rms\n", "    snr = (im - bkg) / rms\n",
     "C13-R4"),
    ("summit snr without abs", "AegeanTools/source_finder.py",
     "            snr = np.nanmax(\n                abs(\n"
     "                    data[xmin: xmax + 1, ymin: ymax + 1]\n"
     "                    / rmsimg[xmin: xmax + 1, ymin: ymax + 1]\n"
     "                )\n            )",
     "            snr = np.nanmax(\n                (\n"
     "                    data[xmin: xmax + 1, ymin: ymax + 1]\n"
     "                    / rmsimg[xmin: xmax + 1, ymin: ymax + 1]\n"
     "                )\n            )", "C13-R4"),
    ("abs after the extremum (seed C13b)", "AegeanTools/source_finder.py",
     "            snr = np.nanmax(\n                abs(\n",
     "            snr = abs(\n                np.nanmax(\n", "C13-R4"),
    ("peak flux stored unsigned", "AegeanTools/source_finder.py",
     "            source.peak_flux = amp\n",
     "            source.peak_flux = abs(amp)\n", "C13-R5"),
]
TWINS = [
    ("identically zero background not subtracted",
     "AegeanTools/source_finder.py",
     "        img -= self.global_data.bkgimg\n",
     "        if np.any(self.global_data.bkgimg != 0):\n"
     "            img -= self.global_data.bkgimg\n"),
    ("filter reordered", "AegeanTools/source_finder.py",
     "if (src.peak_flux > 0 and nopositive) or (",
     "if (nopositive and src.peak_flux > 0) or ("),
]

DRIVER = "source_finder.SourceFinder.find_sources_in_image"
BUILDER = "source_finder.SourceFinder.estimate_lmfit_parinfo"


def ev_bool(e, env):
    if isinstance(e, ast.Constant):
        return e.value
    if isinstance(e, ast.Name):
        return env[e.id]
    if isinstance(e, ast.Attribute):
        return env[norm(e)]
    if isinstance(e, ast.UnaryOp) and isinstance(e.op, ast.Not):
        return not ev_bool(e.operand, env)
    if isinstance(e, ast.UnaryOp) and isinstance(e.op, ast.USub):
        return -ev_bool(e.operand, env)
    if isinstance(e, ast.BoolOp):
        vs = [ev_bool(v, env) for v in e.values]
        return all(vs) if isinstance(e.op, ast.And) else any(vs)
    if isinstance(e, ast.Compare) and len(e.ops) == 1:
        l, r = ev_bool(e.left, env), ev_bool(e.comparators[0], env)
        return {ast.Lt: l < r, ast.LtE: l <= r, ast.Gt: l > r,
                ast.GtE: l >= r, ast.Eq: l == r,
                ast.NotEq: l != r}[type(e.ops[0])]
    raise AnalysisError("C13-R1: filter expression %s not tabulable" %
                        norm(e))


def run(ctx):
    prog = ctx.prog
    dr = prog.func(DRIVER)
    # ---------------------------------------------------------------- R1
    ctx.rule("C13-R1", "filter table: dropped iff (peak_flux>0 and "
             "nopositive) or (peak_flux<0 and nonegative)")
    from .c08 import _resolve_local
    import copy as _copy

    class _R(ast.NodeTransformer):
        def visit_Name(self, nd):
            if isinstance(nd.ctx, ast.Load) and nd.id not in (
                    "nopositive", "nonegative"):
                r = _resolve_local(dr.node, nd)
                if r is not nd and {"nopositive", "nonegative"} & \
                        names_in(r):
                    return _copy.deepcopy(r)
            return nd
    filt = []
    for s_ in walk_no_nested(dr.node):
        if isinstance(s_, ast.If):
            t_ = ast.fix_missing_locations(_R().visit(
                _copy.deepcopy(s_.test)))
            if {"nopositive", "nonegative"} & names_in(t_) and any(
                    isinstance(x, ast.Attribute) and
                    isinstance(x.value, ast.Name)
                    for x in ast.walk(t_)):
                filt.append((s_, t_))
    # ... or a comprehension  `x for x in srcs if <keep>`  whose result is
    # added to the catalogue
    comps = []
    for c_ in ast.walk(dr.node):
        if isinstance(c_, (ast.ListComp, ast.GeneratorExp)) and \
                len(c_.generators) == 1 and c_.generators[0].ifs:
            cond = c_.generators[0].ifs
            cond = cond[0] if len(cond) == 1 else ast.BoolOp(
                op=ast.And(), values=list(cond))
            t_ = ast.fix_missing_locations(_R().visit(_copy.deepcopy(cond)))
            if {"nopositive", "nonegative"} & names_in(t_) and any(
                    isinstance(x, ast.Attribute) and
                    isinstance(x.value, ast.Name)
                    for x in ast.walk(t_)):
                comps.append((c_, t_))
    if len(filt) + len(comps) != 1:
        raise AnalysisError("C13-R1: expected one polarity filter in the "
                            "driver, found %d" % (len(filt) + len(comps)))
    if filt:
        f, ftest = filt[0]
        ftest_src = f.test
        has_cont = any(isinstance(b, ast.Continue) for b in f.body)
        has_app = any(isinstance(c, ast.Call) and
                      isinstance(c.func, ast.Attribute) and
                      c.func.attr == "append" for b in f.body
                      for c in ast.walk(b))
        if has_cont == has_app:
            raise AnalysisError("C13-R1: filter body neither skips nor "
                                "appends")
        # truth of the test means: dropped (continue) or kept (append)
        test_means_drop = has_cont
    else:
        f, ftest = comps[0]
        ftest_src = ast.Tuple(elts=list(f.generators[0].ifs), ctx=ast.Load())
        test_means_drop = False
    drops = True
    tested = sorted({norm(x) for x in ast.walk(ftest)
                     if isinstance(x, ast.Attribute) and
                     isinstance(x.value, ast.Name) and
                     x.value.id not in ("self", "np", "numpy")})
    fluxname = [t for t in tested if t.endswith(".peak_flux")]
    ctx.check("C13-R1", dr, "polarity decided by the peak flux (tests %s)" %
              tested, len(fluxname) == 1 and len(tested) == 1,
              "the sign of a source is the sign of its peak_flux (the "
              "quantity the island / component was detected and fitted "
              "with); the filter tests %s: for an island row the "
              "integrated flux is a sum over pixels of both signs and can "
              "have the opposite sign to its peak" % tested,
              node=filt[0][0] if filt else comps[0][0])
    if len(fluxname) != 1:
        return
    bad = []
    for flux in (-1.0, 0.0, 1.0):
        for nop in (False, True):
            for non in (False, True):
                got = bool(ev_bool(ftest, {fluxname[0]: flux,
                                           "nopositive": nop,
                                           "nonegative": non}))
                if not test_means_drop:
                    got = not got
                want = (flux > 0 and nop) or (flux < 0 and non)
                if got != want:
                    bad.append((flux, nop, non, got))
    ctx.check("C13-R1", dr, "filter `%s` over 12 cases" % norm(ftest, 80),
              drops and not bad,
              "filter disagrees with the table for (flux, nopositive, "
              "nonegative, dropped) = %s" % bad[:4], {"bad": bad}, f)
    # the append is the only other statement of the loop body after the filter
    pm = {}
    for x in ast.walk(dr.node):
        for ch in ast.iter_child_nodes(x):
            pm[ch] = x
    var = fluxname[0].split(".")[0]
    if comps:
        user = pm.get(f)
        added = isinstance(user, ast.Call) and \
            isinstance(user.func, ast.Attribute) and \
            user.func.attr == "extend" and user.args and user.args[0] is f \
            or isinstance(user, ast.AugAssign) and \
            isinstance(user.op, ast.Add) and user.value is f
        ok = added and norm(f.elt) == var and \
            norm(f.generators[0].target) == var
        ctx.check("C13-R1", dr, "kept sources are added unchanged", ok,
                  "the only effect of the filter must be to leave sources "
                  "out of the catalogue", node=f)
    loop = pm.get(f) if not comps else None
    apps = [c for c in ast.walk(loop) if isinstance(c, ast.Call) and
            isinstance(c.func, ast.Attribute) and c.func.attr == "append"] \
        if isinstance(loop, ast.For) else []
    others = [s_ for s_ in (loop.body if isinstance(loop, ast.For) else [])
              if s_ is not f and not (isinstance(s_, ast.Expr) and any(
                  c in ast.walk(s_) for c in apps)) and not (
                  isinstance(s_, ast.Assign) and s_.lineno < f.lineno)]
    ok = isinstance(loop, ast.For) and norm(loop.target) == var and \
        len(apps) == 1 and [norm(a) for a in apps[0].args] == [var] and \
        not others
    if not comps:
        ctx.check("C13-R1", dr, "kept sources are appended unchanged", ok,
                  "the only effect of the filter must be to skip the append",
                  node=f)
    # ---------------------------------------------------------------- R2
    ctx.rule("C13-R2", "non-interference: nopositive / nonegative are read "
             "only by the polarity filter")
    n = 0
    for nm in ("nopositive", "nonegative"):
        for x in walk_no_nested(dr.node):
            if isinstance(x, ast.Name) and x.id == nm and \
                    isinstance(x.ctx, ast.Load):
                n += 1
                inside = any(x is y for y in ast.walk(ftest_src))
                if not inside:
                    # a named intermediate that only feeds the filter test
                    st_ = _stmt(pm, x)
                    if isinstance(st_, ast.Assign) and \
                            len(st_.targets) == 1 and \
                            isinstance(st_.targets[0], ast.Name):
                        nm_ = st_.targets[0].id
                        uses = [u for u in walk_no_nested(dr.node)
                                if isinstance(u, ast.Name) and u.id == nm_
                                and isinstance(u.ctx, ast.Load)]
                        inside = bool(uses) and all(
                            any(u is y for y in ast.walk(ftest_src))
                            for u in uses)
                ctx.check("C13-R2", dr, "read of %s at line-independent "
                          "site %s" % (nm, "filter" if inside else
                                       norm(_stmt(pm, x), 60)), inside,
                          "%s influences something other than the final "
                          "filter: the three runs would no longer fit "
                          "identical values" % nm, node=x)
    ctx.floor("C13-R2", n, 2, "reads of the polarity flags")
    # the flags are not forwarded anywhere
    for c in walk_no_nested(dr.node):
        if isinstance(c, ast.Call):
            for k in c.keywords:
                if k.arg in ("nopositive", "nonegative"):
                    ctx.check("C13-R2", dr, "flag forwarded in " +
                              norm(c, 50), False, "the polarity flag is "
                              "passed on to %s" % norm(c.func), node=c)
    # ---------------------------------------------------------------- R3
    r3(ctx, prog)
    # ---------------------------------------------------------------- R4
    r4(ctx, prog)
    r5_fields(ctx, prog)
    r6_guards(ctx, prog)
    r7_error_symmetry(ctx, prog)
    r8_island_peak(ctx, prog)
    r10_curvature(ctx, prog)
    # load_globals subtracts the background IN PLACE from the array the
    # loader returned: every search must get a fresh array (shared with
    # C20-R7)
    from .c20 import r7_fresh
    r7_fresh(ctx, prog, rule="C13-R9")


def _stmt(pm, n):
    while n in pm and not isinstance(n, ast.stmt):
        n = pm[n]
    return n


def r3(ctx, prog, rule="C13-R3"):
    ctx.rule(rule, "mirror branches of the model builder under "
             "data -> -data")
    fi = prog.func(BUILDER)
    mod = prog.modules[fi.module]
    branches = [s for s in walk_no_nested(fi.node) if isinstance(s, ast.If)
                and norm(s.test) == "isnegative" and s.orelse]
    ctx.floor(rule, len(branches), 2, "isnegative branches")
    MIRROR = {"nanmin": "nanmax", "nanmax": "nanmin", "nanargmin":
              "nanargmax", "nanargmax": "nanargmin", "argmin": "argmax",
              "argmax": "argmin", "min": "max", "max": "min"}
    for b in branches:
        neg = [norm(s) for s in b.body]
        pos = [norm(s) for s in b.orelse]
        if any("kappa_sigma" in t for t in neg):
            # np.where(curve > 0.5, np.where(data + o*r < 0, data, nan), nan)
            # vs np.where(-1*curve > 0.5, np.where(data - o*r > 0, ...
            n0 = neg[0].replace(" ", "")
            p0 = pos[0].replace(" ", "")
            okc = "curve>0.5" in n0 and "-1*curve>0.5" in p0
            okd = "data+outerclip*rmsimg<0" in n0 and \
                "data-outerclip*rmsimg>0" in p0
            ctx.check(rule, fi, "summit candidates (curvature / clip "
                      "mirror)", okc and okd,
                      "negative: curve > 0.5 and data + clip*rms < 0 must "
                      "mirror positive: -curve > 0.5 and data - clip*rms > "
                      "0", node=b)
            continue
        # textual mirror of reduction names
        def mirror(t):
            import re
            return re.sub(r"\b(nanargmin|nanargmax|nanmin|nanmax|argmin|"
                          r"argmax)\b", lambda m: MIRROR[m.group(1)], t)
        ctx.check(rule, fi, "extremum mirror: %s" % neg, len(neg) ==
                  len(pos) and all(mirror(a) == c for a, c in zip(neg, pos)),
                  "the negative branch must use nanmin/argmin exactly where "
                  "the positive branch uses nanmax/argmax; found %s vs %s" %
                  (neg, pos), node=b)
    # amplitude bounds
    ab = [s for s in walk_no_nested(fi.node) if isinstance(s, ast.If) and
          norm(s.test).replace(" ", "") == "amp>0" and s.orelse]
    if len(ab) != 1:
        raise AnalysisError("C13-R3: amplitude-bound branches not found")
    amp, o, i_, r = sp.symbols("amp outerclip innerclip rms", real=True)

    class T(sym.Translator):
        def expr(self, n):
            if isinstance(n, ast.Subscript) and norm(n.value) == "rmsimg":
                return r
            return super().expr(n)

        def call(self, n):
            fn = norm(n.func)
            if fn in ("min", "max") and len(n.args) == 2:
                a, b = self.expr(n.args[0]), self.expr(n.args[1])
                return sp.Min(a, b) if fn == "min" else sp.Max(a, b)
            return super().call(n)

    def bounds(stmts):
        tr = T(prog, mod, {"amp": amp, "outerclip": o, "innerclip": i_},
               free_symbols=True)
        sym.number_locals(tr, fi.node, ab[0].lineno,
                          skip=("amp", "outerclip", "innerclip"))
        tr.exec(stmts)
        return tr.env.get("amp_min"), tr.env.get("amp_max")
    try:
        pmin, pmax = bounds(ab[0].body)
        nmin, nmax = bounds(ab[0].orelse)
    except sym.Untranslatable as e:
        raise AnalysisError("C13-R3: %s" % e)

    def norm_minmax(e):
        return e.replace(sp.Max, lambda *a: -sp.Min(*[-x for x in a]))
    ok = None not in (pmin, pmax, nmin, nmax)
    if ok:
        e1 = sp.simplify(norm_minmax(nmin) - norm_minmax(-pmax.subs(amp,
                                                                    -amp)))
        e2 = sp.simplify(norm_minmax(nmax) - norm_minmax(-pmin.subs(amp,
                                                                    -amp)))
        ok = e1 == 0 and e2 == 0
    ctx.check(rule, fi, "amplitude bounds mirror", bool(ok),
              "(amp_min, amp_max) of the negative branch must equal "
              "(-amp_max(-amp), -amp_min(-amp)) of the positive branch; "
              "positive (%s, %s), negative (%s, %s)" % (pmin, pmax, nmin,
                                                        nmax), node=ab[0])


ABS = ("abs", "np.abs", "numpy.abs", "np.fabs", "numpy.fabs",
       "np.absolute", "numpy.absolute")
EXTREMA = ("np.nanmax", "np.nanmin", "np.max", "np.min", "np.amax",
           "np.amin", "max", "min", "numpy.nanmax", "numpy.nanmin",
           "np.nanargmax", "np.nanargmin", "np.argmax", "np.argmin",
           "np.sort", "sorted", "np.argsort", "np.percentile",
           "np.nanpercentile")
# symmetric statistics: spread is even, the centre follows the data
EVEN_STATS = ("np.std", "np.nanstd", "np.var", "np.nanvar", "numpy.std")
SAME = ("np.where", "np.nan_to_num", "np.asarray", "np.array", "np.squeeze",
        "np.ravel", "float", "np.float64", "np.nansum", "np.sum", "np.mean",
        "np.nanmean", "np.copy", "np.median", "np.nanmedian")


def parity(e, env, fnode=None, depth=0):
    """How the value of e changes when the image (and background) change
    sign: 'E' unchanged, 'O' negated, 'N' neither (e.g. max of a negated
    array is minus the MIN), None = not derived from the pixel data."""
    from .c08 import _resolve_local
    if depth > 8:
        return None
    if isinstance(e, ast.Constant):
        return "E"
    if isinstance(e, ast.Name):
        if e.id in env:
            return env[e.id]
        if fnode is not None:
            r = _resolve_local(fnode, e)
            if r is not e:
                return parity(r, env, fnode, depth + 1)
        return "E"
    if isinstance(e, ast.Attribute):
        if norm(e) in env:
            return env[norm(e)]
        return parity(e.value, env, fnode, depth + 1) \
            if e.attr in ("T", "real") else "E"
    if isinstance(e, ast.Subscript):
        k = norm(e)
        if k in env:
            return env[k]
        return parity(e.value, env, fnode, depth + 1)
    if isinstance(e, ast.UnaryOp):
        return parity(e.operand, env, fnode, depth + 1)
    if isinstance(e, ast.BinOp):
        l = parity(e.left, env, fnode, depth + 1)
        r = parity(e.right, env, fnode, depth + 1)
        if "N" in (l, r):
            return "N"
        if isinstance(e.op, (ast.Mult, ast.Div, ast.FloorDiv)):
            return "E" if l == r else "O"
        if isinstance(e.op, ast.Pow):
            if isinstance(e.right, ast.Constant) and \
                    isinstance(e.right.value, int):
                return "E" if e.right.value % 2 == 0 else l
            return "N" if l == "O" else "E"
        if isinstance(e.op, (ast.Add, ast.Sub)):
            if l == r:
                return l
            z = e.right if l == "O" else e.left
            if isinstance(z, ast.Constant) and z.value == 0:
                return "O"
            return "N"
        return "N" if "O" in (l, r) else "E"
    if isinstance(e, ast.Call):
        fn = norm(e.func)
        args = list(e.args)
        if isinstance(e.func, ast.Attribute) and fn not in ABS + EXTREMA + \
                SAME and e.func.attr in ("max", "min", "argmax", "argmin"):
            p = parity(e.func.value, env, fnode, depth + 1)
            return "N" if p in ("O", "N") else "E"
        ps = [parity(a, env, fnode, depth + 1) for a in args]
        if fn in ABS:
            return "N" if "N" in ps else "E"
        if fn in EVEN_STATS:
            return "N" if "N" in ps else "E"
        if fn in EXTREMA:
            return "N" if ("O" in ps or "N" in ps) else "E"
        if "N" in ps:
            return "N"
        if "O" in ps:
            return "O" if fn in SAME else "N"
        return "E"
    if isinstance(e, ast.Compare):
        ps = [parity(x, env, fnode, depth + 1)
              for x in [e.left] + list(e.comparators)]
        return "N" if ("O" in ps or "N" in ps) else "E"
    if isinstance(e, (ast.Tuple, ast.List)):
        ps = {parity(x, env, fnode, depth + 1) for x in e.elts}
        return ps.pop() if len(ps) == 1 else "N"
    if isinstance(e, ast.IfExp):
        ps = {parity(x, env, fnode, depth + 1) for x in (e.body, e.orelse)}
        return ps.pop() if len(ps) == 1 else "N"
    return "E"


WORD = {"E": "unchanged", "O": "negated", "N": "neither unchanged nor "
        "negated (an extremum taken before abs() picks the other end of "
        "the negated data)"}


def r4(ctx, prog):
    ctx.rule("C13-R4", "parity under image -> -image (pixel data and "
             "background negate, noise does not): the detection "
             "signal-to-noise, the summit ordering key and the summit "
             "signal-to-noise compared with the seed clip are all UNCHANGED "
             "(abs() is applied before any extremum)")
    fi = prog.func(BUILDER)
    env = {p: "O" for p in fi.params if p in ("data", "curve", "summit")}
    env.update({p: "E" for p in fi.params if p in ("rmsimg", "rms")})
    if "data" not in env or "rmsimg" not in env:
        raise AnalysisError("C13-R4: parameters data / rmsimg of %s" %
                            BUILDER)
    env["summit"] = "O"
    keys = []
    for c in walk_no_nested(fi.node):
        if isinstance(c, ast.Call) and norm(c.func) == "sorted":
            for k in c.keywords:
                if k.arg == "key" and isinstance(k.value, ast.Lambda):
                    keys.append((c, k.value))
    ctx.floor("C13-R4", len(keys), 1, "summit sort keys")
    for c, lam in keys:
        arg = lam.args.args[0].arg
        # the sorted tuples are (pixel values, index bounds...)
        kenv = dict(env)
        kenv[arg] = "O"
        for k in range(1, 6):
            kenv["%s[%d]" % (arg, k)] = "E"
        pk = parity(lam.body, kenv)
        ctx.check("C13-R4", fi, "summit order key " + norm(lam, 70),
                  pk == "E",
                  "components are numbered in the order of this key, which "
                  "is %s under negation of the image: a negative island "
                  "orders its summits differently from its positive twin, so "
                  "the negated image yields a differently numbered (and, "
                  "under max_summits, differently fitted) catalogue" %
                  WORD.get(pk, pk), node=lam)
    snrs = [s for s in walk_no_nested(fi.node) if isinstance(s, ast.Assign)
            and norm(s.targets[0]) == "snr"]
    ctx.floor("C13-R4", len(snrs) + len(keys), 2, "summit snr definitions "
              "and sort keys")
    for s in snrs:
        pk = parity(s.value, env, fi.node)
        ctx.check("C13-R4", fi, "summit signal-to-noise " + norm(s, 60),
                  pk == "E",
                  "the summit acceptance test compares this value with the "
                  "seed clip; it is %s under negation of the image, so a "
                  "negative summit is accepted or rejected differently from "
                  "its positive twin" % WORD.get(pk, pk), node=s)
    fisl = prog.func("source_finder.find_islands")
    sd = [s for s in walk_no_nested(fisl.node) if isinstance(s, ast.Assign)
          and norm(s.targets[0]) == "snr"]
    fenv = {p: "O" for p in fisl.params if p in ("im", "bkg")}
    fenv.update({p: "E" for p in fisl.params if p == "rms"})
    if set(fenv) != {"im", "bkg", "rms"}:
        raise AnalysisError("C13-R4: parameters im/bkg/rms of find_islands")
    ok = len(sd) == 1 and parity(sd[0].value, fenv, fisl.node) == "E"
    ctx.check("C13-R4", fisl, "detection snr " + (norm(sd[0], 60) if sd
                                                 else "?"), ok,
              "islands must be detected on |im - bkg| / rms so that both "
              "polarities are found: the detection statistic must be "
              "unchanged when the image and background are negated",
              node=sd[0] if sd else fisl.node)


FIELD_PARITY = {"peak_flux": "O", "int_flux": "O", "ra": "E", "dec": "E",
                "a": "E", "b": "E", "pa": "E", "local_rms": "E",
                "background": "O", "residual_mean": "O", "residual_std": "E",
                "flags": "E"}


def r6_guards(ctx, prog):
    """the preparation of the image (background subtraction) takes the same
    decisions for an image / background pair and for its negation"""
    from ..core import as_update
    from .c02 import bkg_guards
    ctx.rule("C13-R6", "every guard of load_globals that looks at the pixel "
             "values of the image or background takes the same value for "
             "the data and for the negated data (interpreted over sample "
             "backgrounds: zero, positive, negative, mixed)")
    lg = prog.func("source_finder.SourceFinder.load_globals")
    subs = [st for st in walk_no_nested(lg.node)
            if isinstance(st, (ast.Assign, ast.AugAssign)) and
            (as_update(st) or (None, None, ""))[1] is ast.Sub and
            "bkgimg" in (as_update(st) or (None, None, ""))[2]]
    stores = [st for st in walk_no_nested(lg.node)
              if isinstance(st, ast.Assign)
              and norm(st.targets[0]).endswith("global_data.img")]
    ctx.floor("C13-R6", len(subs), 1, "background subtraction statements in "
              "load_globals")
    n = bkg_guards(ctx, "C13-R6", lg, subs, stores, symmetric=True)
    ctx.ob("C13-R6", lg, "%d guard(s) on pixel data in load_globals" % n,
           True, {}, lg.node)


def r5_fields(ctx, prog):
    ctx.rule("C13-R5", "parity of the catalogue fields written by "
             "result_to_components under image -> -image: peak and "
             "integrated flux (and background, residual mean) change sign, "
             "position, shape, noise and flags do not -- derived from the "
             "fitted amplitude being the only odd model parameter")
    fi = prog.func("source_finder.SourceFinder.result_to_components")
    loops = [l for l in fi.node.body if isinstance(l, ast.For)]
    if not loops:
        raise AnalysisError("C13-R5: component loop not found")
    loop = loops[0]
    env = {}
    # model parameters: the amplitude is odd, everything else even
    for st in ast.walk(loop):
        if isinstance(st, ast.Assign) and len(st.targets) == 1 and \
                isinstance(st.targets[0], ast.Name) and \
                isinstance(st.value, ast.Attribute) and \
                st.value.attr == "value" and \
                isinstance(st.value.value, ast.Subscript):
            key = norm(st.value.value.slice)
            env[st.targets[0].id] = "O" if "amp" in key else "E"
    if "O" not in env.values():
        raise AnalysisError("C13-R5: fitted amplitude not read in the "
                            "component loop")
    # the background map negates with the image, the noise map does not
    env["bkg"] = "O"
    env["rms"] = "E"
    # the fit residual (data - model) follows the data
    env["result.residual"] = "O"
    seeded = set(env)
    # statistics of the residual computed before the component loop
    for st in fi.node.body:
        if isinstance(st, ast.Assign) and st is not loop:
            if isinstance(st.value, ast.Tuple) and len(st.targets) == 1 and \
                    isinstance(st.targets[0], ast.Name):
                for k_, el in enumerate(st.value.elts):
                    env["%s[%d]" % (st.targets[0].id, k_)] = parity(
                        el, env, None)
            elif len(st.targets) == 1 and isinstance(st.targets[0],
                                                     ast.Name) and \
                    "residual" in norm(st.value):
                env[st.targets[0].id] = parity(st.value, env, None)
    n = 0
    checked = {}

    def visit(stmts):
        nonlocal n
        for st in stmts:
            if isinstance(st, ast.Assign):
                tg = st.targets
                if len(tg) == 1 and isinstance(tg[0], (ast.Tuple, ast.List)):
                    # (ra, dec, a, b, pa) = pix2sky_ellipse(...): even
                    pv = parity(st.value, env, None)
                    for el in tg[0].elts:
                        env[norm(el)] = pv
                        if isinstance(el, ast.Attribute) and \
                                norm(el.value) == "source":
                            checked[el.attr] = (pv, st)
                    continue
                if len(tg) == 1 and isinstance(tg[0], ast.Name) and \
                        tg[0].id in seeded:
                    continue        # model parameter / map: parity given
                pv = parity(st.value, env, None)
                for t in tg:
                    env[norm(t)] = pv
                    if isinstance(t, ast.Attribute) and \
                            norm(t.value) == "source":
                        checked[t.attr] = (pv, st)
            elif isinstance(st, ast.AugAssign):
                pv = parity(ast.BinOp(left=st.target, op=st.op,
                                      right=st.value), env, None)
                env[norm(st.target)] = pv
                if isinstance(st.target, ast.Attribute) and \
                        norm(st.target.value) == "source":
                    checked[st.target.attr] = (pv, st)
            elif isinstance(st, (ast.If, ast.For, ast.While, ast.With,
                                 ast.Try)):
                for fld in ("body", "orelse", "finalbody"):
                    visit(getattr(st, fld, []) or [])
    visit(loop.body)
    for attr, want in sorted(FIELD_PARITY.items()):
        if attr not in checked:
            continue
        pv, st = checked[attr]
        n += 1
        ctx.check("C13-R5", fi, "source.%s is %s" % (attr, WORD.get(
            pv, pv)[:12]), pv == want,
            "under negation of the image source.%s must be %s but the "
            "stored value is %s: the catalogue of the negated image is not "
            "the negated catalogue" % (attr, WORD[want][:9],
                                       WORD.get(pv, pv)), node=st)
    ctx.floor("C13-R5", n, 8, "catalogue fields with a parity")


def r7_error_symmetry(ctx, prog):
    """the uncertainty of the integrated flux is the same for a source and
    its negative"""
    from ..concrete import Unknown, run
    ctx.rule("C13-R7", "errors are unchanged under negation: the block of "
             "fitting.errors that combines the fractional errors into "
             "err_int_flux is interpreted for a positive source and for its "
             "mirror image (peak_flux and int_flux negated, all errors and "
             "shapes equal) and must give the same value")
    n = 0
    for short in ("fitting.errors", "fitting.new_errors"):
        if not prog.has_func(short):
            continue
        fi = prog.func(short)
        body = fi.node.body
        # the last top-level statement that stores err_int_flux from a
        # computed value, and the top-level statements feeding it
        idx = None
        for k, st in enumerate(body):
            for x in ast.walk(st):
                if isinstance(x, ast.Assign) and any(
                        isinstance(t, ast.Attribute) and
                        t.attr == "err_int_flux" for t in x.targets) and \
                        not isinstance(x.value, (ast.Name, ast.Constant)):
                    idx = k
        if idx is None:
            continue
        need = {nm for nm in names_in(body[idx])}
        start = idx
        for k in range(idx - 1, -1, -1):
            st = body[k]
            tg = set()
            for x in ast.walk(st):
                if isinstance(x, (ast.Assign, ast.AugAssign)):
                    for t in (x.targets if isinstance(x, ast.Assign)
                              else [x.target]):
                        if isinstance(t, ast.Name):
                            tg.add(t.id)
            if tg & need and not isinstance(st, (ast.For, ast.While,
                                                  ast.Return)):
                need |= names_in(st)
                start = k
            elif tg & need:
                break
        block = [st for st in body[start:idx + 1]
                 if isinstance(st, (ast.Assign, ast.AugAssign, ast.If))
                 and (names_in(st) & need)]
        src = fi.params[0]
        res = []
        try:
            for sign in (1.0, -1.0):
                env = {"ERR_MASK": -1, "flags.NOTFIT": 16, "flags.FITERR": 2}
                vals = {"peak_flux": 2.0 * sign, "err_peak_flux": 0.1,
                        "int_flux": 2.6 * sign, "a": 30.0, "err_a": 0.5,
                        "b": 20.0, "err_b": 0.4, "pa": 10.0, "err_pa": 1.0,
                        "flags": 0}
                for k_, v_ in vals.items():
                    env["%s.%s" % (src, k_)] = v_
                run(block, env)
                res.append(env.get("%s.err_int_flux" % src))
        except Unknown as u:
            ctx.unknown_site("C13-R7", fi, "err_int_flux block not "
                             "interpreted (%s)" % u, node=body[idx])
            continue
        n += 1
        ok = res[0] is not None and res[0] == res[1]
        ctx.check("C13-R7", fi, "err_int_flux for a source and its mirror "
                  "image: %s / %s" % tuple(res), ok,
                  "the uncertainty of the integrated flux differs between a "
                  "source (%s) and the same source with negated fluxes (%s): "
                  "a term is selected by the sign of a flux-dependent "
                  "quantity" % tuple(res), node=body[idx])
    ctx.floor("C13-R7", n, 1, "err_int_flux computations interpreted")


def r10_curvature(ctx, prog, rule="C13-R10"):
    """local maxima and local minima are found by mirror-image filters"""
    ctx.rule(rule, "summit candidates are sign symmetric: wherever the "
             "curvature map is built, scipy's maximum_filter (peaks) and "
             "minimum_filter (troughs) are applied to the SAME operand with "
             "the same window, and that operand carries no one-sided "
             "replacement of blank pixels (nan -> -inf suits the maximum "
             "filter only: next to a blank pixel no trough is found, so a "
             "negative source there is lost while its mirror image is kept)")
    n = 0
    for q, fi in sorted(prog.functions.items()):
        if not fi.module.endswith("source_finder"):
            continue
        mx = [c for c in walk_no_nested(fi.node) if isinstance(c, ast.Call)
              and norm(c.func).split(".")[-1] == "maximum_filter"]
        mn = [c for c in walk_no_nested(fi.node) if isinstance(c, ast.Call)
              and norm(c.func).split(".")[-1] == "minimum_filter"]
        if not mx and not mn:
            continue
        n += 1
        ok = len(mx) == len(mn)
        why = "%d maximum_filter call(s), %d minimum_filter call(s)" % (
            len(mx), len(mn))
        for a, b in zip(mx, mn):
            ta = [norm(x, 400) for x in a.args] + sorted(
                "%s=%s" % (k.arg, norm(k.value)) for k in a.keywords)
            tb = [norm(x, 400) for x in b.args] + sorted(
                "%s=%s" % (k.arg, norm(k.value)) for k in b.keywords)
            if ta != tb:
                ok = False
                why = "the two filters see different operands / windows: " \
                    "%s vs %s" % (ta[0][:60], tb[0][:60])
            fills = [x for c in (a, b) for x in ast.walk(c)
                     if isinstance(x, ast.Call) and
                     norm(x.func).split(".")[-1] in ("nan_to_num", "where",
                                                     "filled") or
                     isinstance(x, ast.Attribute) and x.attr in ("inf",
                                                                 "Inf")]
            if fills:
                ok = False
                why = "blank pixels are replaced by a value with a sign " \
                    "(%s) before the filters" % norm(fills[0], 50)
        ctx.check(rule, fi, "mirror-image peak / trough filters in " +
                  fi.name, ok, why, node=(mx or mn)[0])
    ctx.floor(rule, n, 2, "functions building a curvature map")


def r8_island_peak(ctx, prog, rule="C13-R8", polarity=False):
    """the island summary reports the same pixel for an island and for its
    negation (C13-R8); with polarity=True (C03-R18): the island row takes
    its sign the way the component fit does -- negative only when NO pixel
    of the island is positive -- so island and component rows agree"""
    from ..concrete import Unknown, ev, run
    if polarity:
        ctx.rule(rule, "island rows agree with component rows in polarity: "
                 "the peak of the island summary is its largest pixel unless "
                 "every pixel is negative (then the smallest) -- the test "
                 "the component fit uses (isnegative = max < 0); interpreted "
                 "for positive, negative and mixed-sign sample islands")
    else:
        ctx.rule(rule, "island summaries are sign symmetric: the statements "
                 "of result_to_components that pick the island's peak value "
                 "and its pixel are interpreted for a sample island and for "
                 "its negation; the peak value must negate and the pixel "
                 "index must be the same")
    fi = prog.func("source_finder.SourceFinder.result_to_components")
    body = [st for st in walk_no_nested(fi.node) if isinstance(st, ast.stmt)]
    # the thresholded pixel array and the island object
    sel = [st for st in body if isinstance(st, ast.Assign)
           and isinstance(st.targets[0], ast.Name)
           and isinstance(st.value, ast.Call)
           and norm(st.value.func) in ("np.where", "numpy.where")
           and len(st.value.args) == 3
           and norm(st.value.args[2]) in ("np.nan", "numpy.nan")]
    isl = [st.targets[0].id for st in body if isinstance(st, ast.Assign)
           and isinstance(st.value, ast.Call) and len(st.targets) == 1
           and isinstance(st.targets[0], ast.Name)
           and norm(st.value.func).split(".")[-1] == "IslandSource"]
    if not sel or not isl:
        raise AnalysisError("C13-R8: island summary of result_to_components")
    karr, isl = sel[0].targets[0].id, isl[0]
    # statements between the selection and the first use of the pixel index
    # in a coordinate / look-up, restricted to those about the peak
    pos = [st for st in body if isinstance(st, ast.Assign)
           and isinstance(st.targets[0], ast.Name)
           and st.lineno > sel[0].lineno and karr in names_in(st.value)
           and any(isinstance(c, ast.Call) and
                   norm(c.func).split(".")[-1] in (
                       "where", "nanargmax", "nanargmin", "argmax",
                       "unravel_index", "nonzero")
                   for c in ast.walk(st.value))]
    if not pos:
        raise AnalysisError("C13-R8: peak pixel look-up not found")
    pname = pos[0].targets[0].id
    top = fi.node.body
    # the enclosing block of the look-up (the body of `if doislandflux`)
    blk = None
    for st in ast.walk(fi.node):
        for fld in ("body", "orelse"):
            sub = getattr(st, fld, None)
            if isinstance(sub, list) and any(
                    x is pos[0] or any(y is pos[0] for y in ast.walk(x))
                    for x in sub) and any(x is sel[0] for x in sub):
                blk = sub
    if blk is None:
        raise AnalysisError("C13-R8: block of the island summary")
    start = [k for k, x in enumerate(blk) if x is sel[0]][0]
    stop = max(k for k, x in enumerate(blk)
               if x is pos[0] or any(y is pos[0] for y in ast.walk(x)))
    stmts = [x for x in blk[start + 1:stop + 1]
             if isinstance(x, (ast.Assign, ast.AugAssign, ast.If)) and (
                 {karr, pname} & names_in(x) or
                 "%s.peak_flux" % isl in norm(x))]
    samples = {"positive island": [1.0, 3.0, 2.5, float("nan")],
               "negative island": [-1.0, -3.0, -2.5, float("nan")],
               "plateau": [2.0, 2.0, 1.0, float("nan")]}
    n = 0
    if polarity:
        nan = float("nan")
        cases = {"positive island": ([1.0, 3.0, 2.5, nan], 1, 3.0),
                 "negative island": ([-1.0, -3.0, -2.5, nan], 1, -3.0),
                 "positive source touching a negative lobe":
                     ([5.0, -1.0, 3.0, nan], 0, 5.0),
                 "deep negative lobe beside a faint positive pixel":
                     ([-5.0, 1.0, -3.0, nan], 1, 1.0)}
        for name, (smp, widx, wpk) in cases.items():
            try:
                env = {karr: list(smp)}
                run(stmts, env)
                idx = ev(ast.parse("%s[0][0]" % pname, mode="eval").body,
                         env)
                pk = env.get("%s.peak_flux" % isl)
            except Unknown as u:
                raise AnalysisError("%s: island summary not interpreted "
                                    "(%s)" % (rule, u))
            n += 1
            ctx.check(rule, fi, "%s %s: pixel %s peak %s" %
                      (name, smp[:3], idx, pk),
                      idx == widx and (pk is None or pk == wpk),
                      "for the %s %s the island row reports pixel %s with "
                      "peak %s; the component fit treats this island as %s "
                      "(it is negative only when its largest pixel is "
                      "negative), so the island row must report pixel %d "
                      "with peak %s" %
                      (name, smp[:3], idx, pk,
                       "negative" if wpk < 0 else "positive", widx, wpk),
                      node=pos[0])
        ctx.floor(rule, n, 4, "sample islands interpreted")
        return
    for name, smp in samples.items():
        res = []
        try:
            for sign in (1.0, -1.0):
                env = {karr: [sign * v for v in smp]}
                run(stmts, env)
                idx = ev(ast.parse("%s[0][0]" % pname, mode="eval").body,
                         env)
                res.append((idx, env.get("%s.peak_flux" % isl)))
        except Unknown as u:
            ctx.unknown_site(rule, fi, "peak look-up not interpreted "
                             "(%s)" % u, node=pos[0])
            continue
        n += 1
        ok = res[0][0] == res[1][0] and (
            res[0][1] is None or res[1][1] is None or
            res[0][1] == -res[1][1])
        ctx.check(rule, fi, "%s: (pixel, peak) %s vs negated %s" %
                  (name, res[0], res[1]), ok,
                  "for the %s the island summary picks pixel %s with peak "
                  "%s, for the negated island pixel %s with peak %s: the "
                  "reported position (and background / noise read there) "
                  "changes under negation" %
                  (name, res[0][0], res[0][1], res[1][0], res[1][1]),
                  node=pos[0])
    ctx.floor(rule, n, 2, "sample islands interpreted")
