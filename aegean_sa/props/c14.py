"""C14 -- AeRes model images are the catalogue's Gaussians."""
from __future__ import annotations

import ast

from .. import unitrules
from ..core import AnalysisError, names_in, norm, walk_no_nested

EXPLANATION = (
    "Static analysis of AegeanTools/AeRes.py. R1: unit / width-kind / index "
    "abstract interpretation of make_model: src.a/3600 (arcsec->deg) into "
    "sky2pix_ellipse, *FWHM2CC (fwhm->sigma) and theta in degrees into "
    "elliptical_gaussian, and the model centre xo-1, yo-1 has the same "
    "(0-based) origin and axis as the np.mgrid pixel grid it is evaluated "
    "on. R2: the evaluation half-widths depend on both axes' widths and the "
    "rotation, are scaled by a constant that folds to >= 5, and are clipped "
    "to [0, shape[k]] of the matching axis through floor/ceil before int(). "
    "R3: add or mask -> data + model, otherwise data - model; models "
    "accumulate with +=. R4: both off-image guards `continue` before any "
    "indexing. R5: mask mode writes NaN exactly where model >= threshold "
    "for the frac and sigma thresholds. R6: user column names are mapped to "
    "the canonical names position-wise. float32 accumulation error and the "
    "find->subtract residual are not decided.")
ASSUMPTIONS = ["contracts of WCSHelper.sky2pix_ellipse and "
               "fitting.elliptical_gaussian (units.py)"]

MUTANTS = [
    ("drop /3600", "AegeanTools/AeRes.py", "src.a/3600,", "src.a,",
     "C14-R1"),
    ("drop FWHM2CC", "AegeanTools/AeRes.py",
     "sx*FWHM2CC, sy*FWHM2CC, theta)", "sx, sy*FWHM2CC, theta)", "C14-R1"),
    ("drop -1 on xo", "AegeanTools/AeRes.py",
     "src.peak_flux, xo-1, yo-1,", "src.peak_flux, xo, yo-1,", "C14-R1"),
    ("radians into model", "AegeanTools/AeRes.py",
     "sx*FWHM2CC, sy*FWHM2CC, theta)", "sx*FWHM2CC, sy*FWHM2CC, phi)",
     "C14-R1"),
    ("swap centre", "AegeanTools/AeRes.py",
     "src.peak_flux, xo-1, yo-1,", "src.peak_flux, yo-1, xo-1,", "C14-R1"),
    ("factor 3", "AegeanTools/AeRes.py", "    factor = 5\n",
     "    factor = 3\n", "C14-R2"),
    ("clip wrong axis", "AegeanTools/AeRes.py",
     "xmax = min(np.ceil(xmax), shape[0])",
     "xmax = min(np.ceil(xmax), shape[1])", "C14-R2"),
    ("subtract when adding", "AegeanTools/AeRes.py",
     "    if add or mask:\n        residual = data + model",
     "    if mask:\n        residual = data + model", "C14-R3"),
    ("strict mask threshold", "AegeanTools/AeRes.py",
     "indices = np.where(model >= (frac*src.peak_flux))",
     "indices = np.where(model > (frac*src.peak_flux))", "C14-R5"),
    ("guard after use", "AegeanTools/AeRes.py",
     "        if not 0 < yo < shape[1]:\n            logging.debug(\"source "
     "{0} is not within image\".format(src.island))\n            continue\n",
     "", "C14-R4"),
    ("column map order", "AegeanTools/AeRes.py",
     "['ra', 'dec', 'peak_flux', 'a', 'b', 'pa']):\n        table.rename",
     "['ra', 'dec', 'peak_flux', 'b', 'a', 'pa']):\n        table.rename",
     "C14-R6"),
]
TWINS = [
    ("conversion via variable", "AegeanTools/AeRes.py",
     "src.a/3600,", "src.a / 3600.0,"),
    ("sigma precomputed", "AegeanTools/AeRes.py",
     "sx*FWHM2CC, sy*FWHM2CC, theta)", "FWHM2CC*sx, FWHM2CC*sy, theta)"),
]


def run(ctx):
    prog = ctx.prog
    mm = prog.func("AeRes.make_model")
    mod = prog.modules[mm.module]
    # ---------------------------------------------------------------- R1
    ctx.rule("C14-R1", "units, width kinds and index origin at the "
             "sky2pix_ellipse and elliptical_gaussian calls of make_model")
    unitrules.apply(ctx, "C14-R1", {"AeRes.make_model"},
                    kinds={"call", "sink", "store"},
                    what="contract sites in make_model", floor=3)
    # ---------------------------------------------------------------- R2
    ctx.rule("C14-R2", "evaluation window: half-widths use sx, sy and the "
             "rotation with a factor >= 5; bounds clipped with floor/ceil to "
             "[0, shape[axis]] of the matching axis before int()")
    fac = [s for s in walk_no_nested(mm.node) if isinstance(s, ast.Assign)
           and norm(s.targets[0]) == "factor"]
    fv = prog.const_value(mod, fac[0].value) if len(fac) == 1 else None
    ctx.check("C14-R2", mm, "window factor = %r" % fv,
              isinstance(fv, (int, float)) and fv >= 5,
              "the model must be evaluated out to at least 5 sigma",
              node=fac[0] if fac else mm.node)
    for off, axis in (("xoff", 0), ("yoff", 1)):
        d = [s for s in walk_no_nested(mm.node) if isinstance(s, ast.Assign)
             and norm(s.targets[0]) == off]
        ok = len(d) == 1 and {"factor", "sx", "sy", "phi"} <= \
            names_in(d[0].value)
        if ok:
            # compare as expressions (any equivalent spelling is accepted)
            import sympy as sp
            from .. import sym
            F, SX, SY = sp.symbols("factor sx sy", positive=True)
            PH = sp.Symbol("phi", real=True)
            try:
                e = sym.Translator(prog, mod, {"factor": F, "sx": SX,
                                               "sy": SY, "phi": PH}).expr(
                    d[0].value)
                ref = F * (sp.Abs(SX * sp.cos(PH)) + sp.Abs(SY * sp.sin(PH))) \
                    if axis == 0 else \
                    F * (sp.Abs(SX * sp.sin(PH)) + sp.Abs(SY * sp.cos(PH)))
                ok = sp.simplify(e - ref) == 0
            except sym.Untranslatable:
                ok = False
        ctx.check("C14-R2", mm, "half-width %s" % off, ok,
                  "the half-width along axis %d must be factor*(|sx cos| + "
                  "|sy sin|) resp. factor*(|sx sin| + |sy cos|)" % axis,
                  node=d[0] if d else mm.node)
    for nm, fn, clipf, other, axis in (("xmin", "floor", "max", "0", 0),
                                       ("xmax", "ceil", "min", "shape[0]",
                                        0),
                                       ("ymin", "floor", "max", "0", 1),
                                       ("ymax", "ceil", "min", "shape[1]",
                                        1)):
        d = [s for s in walk_no_nested(mm.node) if isinstance(s, ast.Assign)
             and norm(s.targets[0]) == nm and isinstance(s.value, ast.Call)
             and norm(s.value.func) in ("max", "min")]
        ok = len(d) == 1 and norm(d[0].value.func) == clipf and \
            sorted(norm(a).replace(" ", "") for a in d[0].value.args) == \
            sorted(["np.%s(%s)" % (fn, nm), other])
        ctx.check("C14-R2", mm, "clip of %s" % nm, ok,
                  "%s must be %s(np.%s(%s), %s)" % (nm, clipf, fn, nm, other),
                  node=d[0] if d else mm.node)
    grids = [s for s in walk_no_nested(mm.node) if isinstance(s, ast.Assign)
             and isinstance(s.value, ast.Subscript) and
             prog.dotted(mod, s.value.value) == "numpy.mgrid"]
    okg = len(grids) == 1 and norm(grids[0].value.slice).replace(" ", "") \
        == "(slice(int(xmin),int(xmax),None),slice(int(ymin),int(ymax),None))"
    if len(grids) == 1 and not okg:
        sl = grids[0].value.slice
        okg = isinstance(sl, ast.Tuple) and [
            (norm(e.lower), norm(e.upper)) for e in sl.elts] == [
                ("int(xmin)", "int(xmax)"), ("int(ymin)", "int(ymax)")]
    ctx.check("C14-R2", mm, "pixel grid over the clipped window", okg,
              "np.mgrid must span int(xmin):int(xmax), int(ymin):int(ymax)",
              node=grids[0] if grids else mm.node)
    # ---------------------------------------------------------------- R3
    ctx.rule("C14-R3", "sign pairing and additive accumulation")
    mr = prog.func("AeRes.make_residual")
    ifs = [s for s in walk_no_nested(mr.node) if isinstance(s, ast.If) and
           {"add", "mask"} & names_in(s.test)]
    ok = False
    for s in ifs:
        t = norm(s.test).replace(" ", "")
        if t in ("addormask", "maskoradd") and len(s.body) == 1 and \
                len(s.orelse) == 1:
            ok = norm(s.body[0]).replace(" ", "") == "residual=data+model" \
                and norm(s.orelse[0]).replace(" ", "") == \
                "residual=data-model"
    ctx.check("C14-R3", mr, "add/mask -> +, else -", ok,
              "residual must be data + model when adding or masking and "
              "data - model otherwise", node=ifs[0] if ifs else mr.node)
    acc = [s for s in walk_no_nested(mm.node) if isinstance(s, ast.AugAssign)
           and isinstance(s.op, ast.Add) and
           norm(s.target).replace(" ", "") == "m[x,y]" and
           norm(s.value) == "model"]
    ctx.check("C14-R3", mm, "m[x, y] += model", len(acc) == 1,
              "models of different sources must add up", node=mm.node)
    # ---------------------------------------------------------------- R4
    ctx.rule("C14-R4", "off-image sources `continue` before indexing")
    loop = [l for l in mm.node.body if isinstance(l, ast.For)]
    if not loop:
        raise AnalysisError("C14: source loop not found")
    body = loop[0].body
    guards = {}
    for i, s in enumerate(body):
        if isinstance(s, ast.If) and any(isinstance(b, ast.Continue)
                                         for b in s.body):
            t = norm(s.test).replace(" ", "")
            if t == "not0<xo<shape[0]":
                guards["x"] = i
            if t == "not0<yo<shape[1]":
                guards["y"] = i
    first_use = min([i for i, s in enumerate(body) if any(
        isinstance(x, ast.Subscript) and norm(x.value) in ("m", "np.mgrid")
        for x in ast.walk(s))] or [len(body)])
    ctx.check("C14-R4", mm, "guards %s before first indexing (stmt %d)" %
              (guards, first_use), set(guards) == {"x", "y"} and
              max(guards.values()) < first_use,
              "a source centred off the image must be skipped on both axes "
              "(0 < xo < shape[0], 0 < yo < shape[1]) before the window is "
              "computed", node=loop[0])
    # ---------------------------------------------------------------- R5
    ctx.rule("C14-R5", "mask mode: NaN exactly where model >= threshold")
    wh = [s for s in walk_no_nested(mm.node) if isinstance(s, ast.Assign)
          and norm(s.targets[0]) == "indices"]
    want = {"np.where(model>=frac*src.peak_flux)",
            "np.where(model>=sigma*src.local_rms)"}
    got = {norm(s.value).replace(" ", "").replace("(frac*src.peak_flux)",
                                                  "frac*src.peak_flux")
           .replace("(sigma*src.local_rms)", "sigma*src.local_rms")
           for s in wh}
    ctx.check("C14-R5", mm, "mask thresholds %s" % sorted(got), got == want,
              "masked pixels are those with model >= frac*peak_flux (frac "
              "given) or >= sigma*local_rms", node=wh[0] if wh else mm.node)
    st = [s for s in walk_no_nested(mm.node) if isinstance(s, ast.Assign) and
          norm(s.targets[0]).replace(" ", "") == "m[x[indices],y[indices]]"]
    ctx.check("C14-R5", mm, "NaN store on the selected pixels",
              len(st) == 1 and norm(st[0].value) in ("np.nan", "numpy.nan"),
              "mask mode must blank m[x[indices], y[indices]]",
              node=st[0] if st else mm.node)
    # ---------------------------------------------------------------- R6
    ctx.rule("C14-R6", "column renaming is position-wise user name -> "
             "canonical name")
    ls = prog.func("AeRes.load_sources")
    z = [c for c in walk_no_nested(ls.node) if isinstance(c, ast.Call) and
         norm(c.func) == "zip" and len(c.args) == 2 and
         all(isinstance(a, ast.List) for a in c.args)]
    ok = False
    if z:
        user = [norm(e) for e in z[0].args[0].elts]
        canon = [e.value for e in z[0].args[1].elts
                 if isinstance(e, ast.Constant)]
        ok = len(user) == len(canon) == 6 and all(
            u == c + "_col" or (u == "peak_col" and c == "peak_flux")
            for u, c in zip(user, canon))
    ctx.check("C14-R6", ls, "rename pairs", ok,
              "user column k must be renamed to canonical name k",
              node=z[0] if z else ls.node)
